package c01

import (
	"bytes"
	"crypto/x509"
	"encoding/asn1"
	"encoding/binary"
	"fmt"
	"net"
	"sync"
	"testing"
	"time"

	"github.com/flynn/noise"
	ic "github.com/libp2p/go-libp2p/core/crypto"
	libp2ptls "github.com/libp2p/go-libp2p/p2p/security/tls"
	"google.golang.org/protobuf/encoding/protowire"
	"pgregory.net/rapid"

	"verif/internal/hx"
	"verif/internal/keys"
	"verif/internal/memnet"
	"verif/internal/stats"
	"verif/internal/wire"
)

// Domain C: the harness is an active attacker that speaks Noise XX itself (flynn/noise)
// and puts substituted identity material into the handshake payload.

const noisePrefix = "noise-libp2p-static-key:"

var attackerSuite = noise.NewCipherSuite(noise.DH25519, noise.CipherChaChaPoly, noise.HashSHA256)

// noiseAttacker is one attacker-run end of a Noise XX handshake.
type noiseAttacker struct {
	initiator bool
	prologue  []byte
	payload   func(static noise.DHKey) []byte // handshake payload to send, given the attacker's static key
	static    *noise.DHKey                    // fixed static key (default: a fresh one)

	peerPayload []byte // the honest side's decrypted handshake payload (harvest)
	peerStatic  []byte
	hsDone      bool
	echoOK      bool
	err         error
}

func writeNoiseFrame(c net.Conn, msg []byte) error {
	buf := make([]byte, 2+len(msg))
	binary.BigEndian.PutUint16(buf, uint16(len(msg)))
	copy(buf[2:], msg)
	_, err := c.Write(buf)
	return err
}

func readNoiseFrame(c net.Conn) ([]byte, error) {
	raw, err := wire.ReadFrame(c, wire.Noise)
	if err != nil {
		return nil, err
	}
	return raw[2:], nil
}

func (a *noiseAttacker) run(c net.Conn, nonce []byte) {
	c.SetDeadline(time.Now().Add(handshakeTimeout + echoTimeout))
	kp, err := attackerSuite.GenerateKeypair(nil)
	if err != nil {
		a.err = err
		return
	}
	if a.static != nil {
		kp = *a.static
	}
	hs, err := noise.NewHandshakeState(noise.Config{CipherSuite: attackerSuite, Pattern: noise.HandshakeXX, Initiator: a.initiator, StaticKeypair: kp, Prologue: a.prologue})
	if err != nil {
		a.err = err
		return
	}
	var enc, dec *noise.CipherState
	if a.initiator {
		msg, _, _, err := hs.WriteMessage(nil, nil)
		if err == nil {
			err = writeNoiseFrame(c, msg)
		}
		if err != nil {
			a.err = err
			return
		}
		in, err := readNoiseFrame(c)
		if err != nil {
			a.err = fmt.Errorf("read msg2: %w", err)
			return
		}
		a.peerPayload, _, _, err = hs.ReadMessage(nil, in)
		if err != nil {
			a.err = fmt.Errorf("msg2: %w", err)
			return
		}
		a.peerStatic = hs.PeerStatic()
		msg, cs1, cs2, err := hs.WriteMessage(nil, a.payload(kp))
		if err == nil {
			err = writeNoiseFrame(c, msg)
		}
		if err != nil {
			a.err = err
			return
		}
		enc, dec = cs1, cs2
	} else {
		in, err := readNoiseFrame(c)
		if err != nil {
			a.err = fmt.Errorf("read msg1: %w", err)
			return
		}
		if _, _, _, err = hs.ReadMessage(nil, in); err != nil {
			a.err = fmt.Errorf("msg1: %w", err)
			return
		}
		msg, _, _, err := hs.WriteMessage(nil, a.payload(kp))
		if err == nil {
			err = writeNoiseFrame(c, msg)
		}
		if err != nil {
			a.err = err
			return
		}
		in, err = readNoiseFrame(c)
		if err != nil {
			a.err = fmt.Errorf("read msg3: %w", err)
			return
		}
		var cs1, cs2 *noise.CipherState
		a.peerPayload, cs1, cs2, err = hs.ReadMessage(nil, in)
		if err != nil {
			a.err = fmt.Errorf("msg3: %w", err)
			return
		}
		a.peerStatic = hs.PeerStatic()
		enc, dec = cs2, cs1
	}
	a.hsDone = true
	if nonce == nil {
		return
	}
	// echo, so that the honest side's view of a completed session includes working traffic
	if a.initiator {
		ct, err := enc.Encrypt(nil, nil, nonce)
		if err == nil {
			err = writeNoiseFrame(c, ct)
		}
		if err != nil {
			a.err = err
			return
		}
		in, err := readNoiseFrame(c)
		if err != nil {
			a.err = fmt.Errorf("echo read: %w", err)
			return
		}
		pt, err := dec.Decrypt(nil, nil, in)
		a.echoOK = err == nil && bytes.Equal(pt, complement(nonce))
	} else {
		in, err := readNoiseFrame(c)
		if err != nil {
			a.err = fmt.Errorf("echo read: %w", err)
			return
		}
		pt, err := dec.Decrypt(nil, nil, in)
		if err != nil || !bytes.Equal(pt, nonce) {
			a.err = fmt.Errorf("echo decrypt: %v", err)
			return
		}
		ct, err := enc.Encrypt(nil, nil, complement(nonce))
		if err == nil {
			err = writeNoiseFrame(c, ct)
		}
		a.echoOK = err == nil
	}
}

// payload protobuf (NoiseHandshakePayload: 1 identity_key, 2 identity_sig, 4 extensions),
// encoded by hand so that fields can be omitted, emptied, repeated and reordered.
type pbField struct {
	num int
	val []byte
}

func encodeFields(fs ...pbField) []byte {
	var b []byte
	for _, f := range fs {
		b = protowire.AppendTag(b, protowire.Number(f.num), protowire.BytesType)
		b = protowire.AppendBytes(b, f.val)
	}
	return b
}

func decodeFields(b []byte) (out []pbField) {
	for len(b) > 0 {
		num, typ, n := protowire.ConsumeTag(b)
		if n < 0 || typ != protowire.BytesType {
			return
		}
		b = b[n:]
		v, n := protowire.ConsumeBytes(b)
		if n < 0 {
			return
		}
		b = b[n:]
		out = append(out, pbField{int(num), v})
	}
	return
}

// pubKeyProto encodes crypto.pb.PublicKey{Type, Data} by hand.
func pubKeyProto(typ int, data []byte) []byte {
	var b []byte
	b = protowire.AppendTag(b, 1, protowire.VarintType)
	b = protowire.AppendVarint(b, uint64(typ))
	b = protowire.AppendTag(b, 2, protowire.BytesType)
	b = protowire.AppendBytes(b, data)
	return b
}

func mustMarshalPub(k ic.PubKey) []byte {
	b, err := ic.MarshalPublicKey(k)
	if err != nil {
		panic(err)
	}
	return b
}

func mustSign(k ic.PrivKey, msg []byte) []byte {
	s, err := k.Sign(msg)
	if err != nil {
		panic(err)
	}
	return s
}

func honestPayload(id *keys.Identity, static noise.DHKey) []byte {
	return encodeFields(
		pbField{1, mustMarshalPub(id.Pub)},
		pbField{2, mustSign(id.Priv, append([]byte(noisePrefix), static.Public...))},
	)
}

// harvest dials the victim (an honest libp2p responder that accepts anybody) as the
// attacker's own identity and returns the victim's identity key and signature fields:
// a genuine signature, but over the static key of THAT session.
func harvest(victim, attacker *keys.Identity) (key, sig []byte, err error) {
	cv, cm := memnet.Pipe(memnet.Options{})
	v := &side{Me: victim, Kind: "empty", NoEcho: true}
	att := &noiseAttacker{initiator: true, payload: func(s noise.DHKey) []byte { return honestPayload(attacker, s) }}
	var wg sync.WaitGroup
	wg.Add(1)
	o := &outcome{}
	go func() {
		defer wg.Done()
		ctx, cancel := contextWithTimeout()
		defer cancel()
		v.run(ctx, pNoise, cv, nil, o)
	}()
	att.run(cm, nil)
	wg.Wait()
	cv.Close()
	cm.Close()
	// the victim's payload arrives in message 2, before the victim has judged the attacker
	if att.peerPayload == nil {
		return nil, nil, fmt.Errorf("harvest session failed: attacker=%v victim=%s", att.err, o)
	}
	for _, f := range decodeFields(att.peerPayload) {
		switch f.num {
		case 1:
			key = f.val
		case 2:
			sig = f.val
		}
	}
	if key == nil || sig == nil {
		return nil, nil, fmt.Errorf("harvest: payload without key/signature: %x", att.peerPayload)
	}
	return key, sig, nil
}

// tlsContextSig returns the victim's genuine signature from the libp2p extension of a
// certificate the victim's own TLS transport generated: a signature by the right key in
// the wrong context ("libp2p-tls-handshake:" + certificate key).
func tlsContextSig(victim *keys.Identity) ([]byte, error) {
	id, err := libp2ptls.NewIdentity(victim.Priv)
	if err != nil {
		return nil, err
	}
	conf, _ := id.ConfigForPeer("")
	cert, err := x509.ParseCertificate(conf.Certificates[0].Certificate[0])
	if err != nil {
		return nil, err
	}
	for _, ext := range cert.Extensions {
		if ext.Id.Equal(libp2pExtOID) {
			var sk struct{ PubKey, Signature []byte }
			if _, err := asn1.Unmarshal(ext.Value, &sk); err != nil {
				return nil, err
			}
			return sk.Signature, nil
		}
	}
	return nil, fmt.Errorf("no libp2p extension in the victim's certificate")
}

// attack variants. claimed = whose identity the payload claims ("victim" | "attacker" | "nobody").
type noiseVariant struct {
	name    string
	claimed string
	// build returns the payload; V victim, M attacker identity, M2 attacker-held key of the victim's type
	build func(x *attackCtx, static noise.DHKey) []byte
}

type attackCtx struct {
	V, M, M2         *keys.Identity
	harvKey, harvSig []byte
	tlsSig           []byte
}

func typeTag(id *keys.Identity) int { return int(id.Pub.Type()) }

func rawKey(id *keys.Identity) []byte {
	b, err := id.Pub.Raw()
	if err != nil {
		panic(err)
	}
	return b
}

var noiseVariants = []noiseVariant{
	{"control-honest", "attacker", func(x *attackCtx, s noise.DHKey) []byte { return honestPayload(x.M, s) }},
	{"own-identity", "attacker", func(x *attackCtx, s noise.DHKey) []byte { return honestPayload(x.M, s) }},
	{"victim-key+attacker-sig", "victim", func(x *attackCtx, s noise.DHKey) []byte {
		return encodeFields(pbField{1, mustMarshalPub(x.V.Pub)}, pbField{2, mustSign(x.M.Priv, append([]byte(noisePrefix), s.Public...))})
	}},
	{"victim-key+sametype-attacker-sig", "victim", func(x *attackCtx, s noise.DHKey) []byte {
		return encodeFields(pbField{1, mustMarshalPub(x.V.Pub)}, pbField{2, mustSign(x.M2.Priv, append([]byte(noisePrefix), s.Public...))})
	}},
	{"harvested-sig", "victim", func(x *attackCtx, s noise.DHKey) []byte {
		return encodeFields(pbField{1, x.harvKey}, pbField{2, x.harvSig})
	}},
	{"tls-context-sig", "victim", func(x *attackCtx, s noise.DHKey) []byte {
		return encodeFields(pbField{1, mustMarshalPub(x.V.Pub)}, pbField{2, x.tlsSig})
	}},
	// a genuine victim signature over the attacker's static key, but made in another context
	// (different / no domain-separation prefix): the victim's key was not used in THIS handshake
	{"victim-sig-wrong-prefix", "victim", func(x *attackCtx, s noise.DHKey) []byte {
		return encodeFields(pbField{1, mustMarshalPub(x.V.Pub)}, pbField{2, mustSign(x.V.Priv, append([]byte("libp2p-tls-handshake:"), s.Public...))})
	}},
	{"victim-sig-no-prefix", "victim", func(x *attackCtx, s noise.DHKey) []byte {
		return encodeFields(pbField{1, mustMarshalPub(x.V.Pub)}, pbField{2, mustSign(x.V.Priv, s.Public)})
	}},
	{"victim-sig-over-other-static", "victim", func(x *attackCtx, s noise.DHKey) []byte {
		other := append([]byte(nil), s.Public...)
		other[31] ^= 0x40
		return encodeFields(pbField{1, mustMarshalPub(x.V.Pub)}, pbField{2, mustSign(x.V.Priv, append([]byte(noisePrefix), other...))})
	}},
	{"victim-sig-over-private-half", "victim", func(x *attackCtx, s noise.DHKey) []byte {
		// signature over prefix + something that is not the static public key at all
		return encodeFields(pbField{1, mustMarshalPub(x.V.Pub)}, pbField{2, mustSign(x.V.Priv, append([]byte(noisePrefix), make([]byte, 32)...))})
	}},
	{"attacker-sig-wrong-prefix", "attacker-nonconformant", func(x *attackCtx, s noise.DHKey) []byte {
		return encodeFields(pbField{1, mustMarshalPub(x.M.Pub)}, pbField{2, mustSign(x.M.Priv, append([]byte("wrong-prefix:"), s.Public...))})
	}},
	{"empty-payload", "nobody", func(x *attackCtx, s noise.DHKey) []byte { return nil }},
	{"key-only", "victim", func(x *attackCtx, s noise.DHKey) []byte { return encodeFields(pbField{1, mustMarshalPub(x.V.Pub)}) }},
	{"key+empty-sig", "victim", func(x *attackCtx, s noise.DHKey) []byte {
		return encodeFields(pbField{1, mustMarshalPub(x.V.Pub)}, pbField{2, nil})
	}},
	{"sig-only", "nobody", func(x *attackCtx, s noise.DHKey) []byte { return encodeFields(pbField{2, x.harvSig}) }},
	{"empty-key+sig", "nobody", func(x *attackCtx, s noise.DHKey) []byte {
		return encodeFields(pbField{1, nil}, pbField{2, mustSign(x.M.Priv, append([]byte(noisePrefix), s.Public...))})
	}},
	// repeated fields: protobuf keeps the last occurrence of an optional field
	{"dup-key-victim-last", "victim", func(x *attackCtx, s noise.DHKey) []byte {
		return encodeFields(pbField{1, mustMarshalPub(x.M.Pub)}, pbField{2, mustSign(x.M.Priv, append([]byte(noisePrefix), s.Public...))}, pbField{1, mustMarshalPub(x.V.Pub)})
	}},
	{"dup-key-victim-first", "attacker", func(x *attackCtx, s noise.DHKey) []byte {
		return encodeFields(pbField{1, mustMarshalPub(x.V.Pub)}, pbField{1, mustMarshalPub(x.M.Pub)}, pbField{2, mustSign(x.M.Priv, append([]byte(noisePrefix), s.Public...))})
	}},
	{"dup-sig-harvested-first", "victim", func(x *attackCtx, s noise.DHKey) []byte {
		return encodeFields(pbField{1, x.harvKey}, pbField{2, x.harvSig}, pbField{2, mustSign(x.M.Priv, append([]byte(noisePrefix), s.Public...))})
	}},
	{"dup-sig-harvested-last", "victim", func(x *attackCtx, s noise.DHKey) []byte {
		return encodeFields(pbField{1, x.harvKey}, pbField{2, mustSign(x.M.Priv, append([]byte(noisePrefix), s.Public...))}, pbField{2, x.harvSig})
	}},
	{"two-complete-payloads", "victim", func(x *attackCtx, s noise.DHKey) []byte {
		return append(honestPayload(x.M, s), encodeFields(pbField{1, x.harvKey}, pbField{2, x.harvSig})...)
	}},
	// key-type tag changed, key bytes kept
	{"victim-key-retagged+1", "nobody", func(x *attackCtx, s noise.DHKey) []byte {
		return encodeFields(pbField{1, pubKeyProto((typeTag(x.V)+1)%4, rawKey(x.V))}, pbField{2, x.harvSig})
	}},
	{"victim-key-retagged+2", "nobody", func(x *attackCtx, s noise.DHKey) []byte {
		return encodeFields(pbField{1, pubKeyProto((typeTag(x.V)+2)%4, rawKey(x.V))}, pbField{2, mustSign(x.M.Priv, append([]byte(noisePrefix), s.Public...))})
	}},
	{"victim-key-retagged+3", "nobody", func(x *attackCtx, s noise.DHKey) []byte {
		return encodeFields(pbField{1, pubKeyProto((typeTag(x.V)+3)%4, rawKey(x.V))}, pbField{2, x.harvSig})
	}},
	{"attacker-key-retagged", "nobody", func(x *attackCtx, s noise.DHKey) []byte {
		return encodeFields(pbField{1, pubKeyProto((typeTag(x.M)+1)%4, rawKey(x.M))}, pbField{2, mustSign(x.M.Priv, append([]byte(noisePrefix), s.Public...))})
	}},
	{"unknown-key-type", "nobody", func(x *attackCtx, s noise.DHKey) []byte {
		return encodeFields(pbField{1, pubKeyProto(7, rawKey(x.V))}, pbField{2, x.harvSig})
	}},
	{"fields-swapped", "nobody", func(x *attackCtx, s noise.DHKey) []byte {
		return encodeFields(pbField{1, x.harvSig}, pbField{2, x.harvKey})
	}},
}

type attackCase struct {
	variant    int
	tv, tm     string // victim / attacker key types
	honestInit bool   // role of the honest side under attack
	expect     string // victim | attacker | empty | nocheck
}

func (c attackCase) key() string {
	return fmt.Sprintf("%s|v=%s|m=%s|honestInit=%v|%s", noiseVariants[c.variant].name, c.tv, c.tm, c.honestInit, c.expect)
}

func runAttack(t *testing.T, rt *rapid.T, c attackCase) (nontrivial bool, labels []string) {
	f := fl(t, rt)
	v := noiseVariants[c.variant]
	x := &attackCtx{V: keys.Get(c.tv, 0), M: keys.Get(c.tm, 2), M2: keys.Get(c.tv, 3)}
	h := &side{Me: keys.Get("ed25519", 1), Initiator: c.honestInit, Kind: c.expect}
	switch c.expect {
	case "victim":
		h.Expect = x.V.ID
	case "attacker":
		h.Expect = x.M.ID
	case "nocheck":
		h.Disable, h.Expect = true, x.V.ID
	}
	nonce := mkNonce(uint64(c.variant))
	o := &outcome{}
	att := &noiseAttacker{initiator: !c.honestInit}
	bubble(t, rt, func() {
		var err error
		if x.harvKey, x.harvSig, err = harvest(x.V, x.M); err != nil {
			bail("%s: %v", c.key(), err)
		}
		if x.tlsSig, err = tlsContextSig(x.V); err != nil {
			bail("%s: %v", c.key(), err)
		}
		att.payload = func(s noise.DHKey) []byte { return v.build(x, s) }
		ch, cm := memnet.Pipe(memnet.Options{})
		var wg sync.WaitGroup
		wg.Add(1)
		go func() {
			defer wg.Done()
			ctx, cancel := contextWithTimeout()
			defer cancel()
			h.run(ctx, pNoise, ch, nonce, o)
		}()
		att.run(cm, nonce)
		cm.Close()
		wg.Wait()
		ch.Close()
	})
	ctx := c.key()
	// the harvested material must really be the victim's (otherwise the attack is vacuous)
	if !bytes.Equal(x.harvKey, mustMarshalPub(x.V.Pub)) {
		f.Fatalf("%s: harvested key is not the victim's", ctx)
	}
	// the only identity whose private key the attacker holds and uses is M
	checkIdentity(f, ctx, pNoise, h, o, x.M, true)
	checkNoGarbage(f, ctx, h, o)
	if v.name == "control-honest" && !noConverse {
		if h.accepts(x.M.ID) && h.mustAccept(pNoise, x.M.ID) {
			if !o.hsOK || !o.echoOK || !att.echoOK {
				f.Fatalf("%s: the attacker behaving honestly as itself was not accepted: honest=%s attacker: done=%v echo=%v err=%v", ctx, o, att.hsDone, att.echoOK, att.err)
			}
		}
	}
	labels = []string{"variant:" + v.name, "victim-key:" + c.tv, "attacker-key:" + c.tm, "expect:" + c.expect, "honest-err:" + errClass(o.hsErr)}
	if c.honestInit {
		labels = append(labels, "honest:initiator")
	} else {
		labels = append(labels, "honest:responder")
	}
	if o.hsOK {
		labels = append(labels, "honest-completed-as-attacker")
	}
	return v.name != "control-honest" || !h.accepts(x.M.ID), labels
}

func attackExpectations(honestInit bool) []string {
	if honestInit {
		return []string{"victim", "nocheck"}
	}
	return []string{"victim", "empty", "nocheck"}
}

// TestNoisePayloadSubstitution enumerates variant x victim key type x honest role x
// expectation, with the attacker's key type rotating (quick) or fully crossed (thorough).
func TestNoisePayloadSubstitution(t *testing.T) {
	warm()
	name := t.Name()
	k := 0
	for vi := range noiseVariants {
		for ti, tv := range keys.Types {
			for _, hi := range []bool{true, false} {
				for ei, exp := range attackExpectations(hi) {
					var tms []string
					if hx.Thorough() {
						tms = keys.Types
					} else {
						tms = []string{keys.Types[(vi+ti+ei)%4]}
					}
					for _, tm := range tms {
						c := attackCase{variant: vi, tv: tv, tm: tm, honestInit: hi, expect: exp}
						if noiseVariants[vi].name == "control-honest" && exp == "victim" {
							c.expect = "attacker"
						}
						k++
						if !hx.Mine(k) {
							continue
						}
						nt, labels := runAttack(t, nil, c)
						stats.CaseEnumerated(name, nt, labels...)
						if nt && stats.WantSample(name) {
							stats.Sample(name, map[string]any{"case": c.key(), "labels": labels})
						}
					}
				}
			}
		}
	}
	stats.Exhaustive(name)
}
