package c01

import (
	"crypto"
	"crypto/ecdsa"
	"crypto/ed25519"
	"crypto/rand"
	"crypto/rsa"
	"crypto/sha256"
	"crypto/sha512"
	"crypto/tls"
	"fmt"
	"math/big"
	"runtime/debug"
	"sync"
	"testing"

	"github.com/decred/dcrd/dcrec/secp256k1/v4"
	dcrecdsa "github.com/decred/dcrd/dcrec/secp256k1/v4/ecdsa"
	"github.com/flynn/noise"
	ic "github.com/libp2p/go-libp2p/core/crypto"
	"github.com/libp2p/go-libp2p/core/peer"
	libp2ptls "github.com/libp2p/go-libp2p/p2p/security/tls"
	"pgregory.net/rapid"

	"verif/internal/hx"
	"verif/internal/keys"
	"verif/internal/memnet"
	"verif/internal/stats"
)

// Domain S: forged identity proofs over signature ENCODINGS.
//
// The statement: no side completes on handshake data "signed/certified with a substituted
// key", and a completed connection reports "exactly the peer ID derived from a public key
// whose private key the remote used in that handshake" -- for every identity key type. How
// the substituted key's signature is ENCODED is the attacker's choice: the identity proof
// is an opaque byte string (Noise payload field identity_sig, the Signature OCTET STRING of
// the TLS / QUIC certificate extension). This file generates, for each key type, a
// signature over the CORRECT message (right prefix, right static key / certificate key)
// made with a key that is NOT the named identity key, in the type's usual encoding and in
// every other encoding a verifier might be tempted to accept (sigForms below), and presents
// it next to the victim's public key
//
//	noise        in the Noise XX payload, to the library's transport in either role
//	tls          in the certificate extension, to libp2ptls.Transport in either role
//	tls-config   in the certificate extension, to Identity.ConfigForPeer under plain
//	             crypto/tls -- the way the QUIC / WebTransport transports use it
//	cert-direct  in the certificate extension, straight into PubKeyFromCertChain
//
// Oracle (identity form only): the one private key the remote holds and used is the
// signer's, so whatever completes must report the SIGNER's identity -- never the named
// victim's -- and satisfy the verifier's own expected-peer setting. A small share of cases
// signs with the named key itself in the same encodings: there the remote IS the named
// peer, either outcome is allowed and only recorded (label same-key-other-encoding:...).
//
// Every forged signature is first checked by a reference verifier written against the
// standard library / dcrd (never against libp2p): it really is a signature by the signer
// over the correct message in the stated form, so a rejection is not owed to a malformed
// attempt.

type sigParams struct {
	pad []byte // bytes appended by the "...-trailing" / "appended" forms (1..3)
	alt int    // sub-variant of a form (recovery header, multiple of the group order, salt length)
}

func (p sigParams) String() string { return fmt.Sprintf("pad=%x,alt=%d", p.pad, p.alt) }

// sigForm makes one encoding of a signature by k over msg. It returns an error when the
// reference verification of its own product fails (a harness defect).
type sigForm struct {
	name  string
	usual bool // the encoding the key type's Sign produces
	make  func(k *keys.Identity, msg []byte, p sigParams) ([]byte, error)
}

func stdKey(k *keys.Identity) crypto.PrivateKey {
	s, err := ic.PrivKeyToStdKey(k.Priv)
	if err != nil {
		panic(err)
	}
	return s
}

func secpPriv(k *keys.Identity) *secp256k1.PrivateKey {
	return (*secp256k1.PrivateKey)(k.Priv.(*ic.Secp256k1PrivateKey))
}

func refErr(form string) error {
	return fmt.Errorf("harness: reference verification of the %s form failed", form)
}

// sigLongLength re-encodes the outer SEQUENCE length of a short DER signature in the long
// form (0x30 0x81 len ...): valid BER, not DER.
func sigLongLength(der []byte) ([]byte, error) {
	if len(der) < 2 || der[0] != 0x30 || der[1] >= 0x80 || int(der[1]) != len(der)-2 {
		return nil, fmt.Errorf("harness: unexpected DER signature %x", der)
	}
	return append([]byte{0x30, 0x81, der[1]}, der[2:]...), nil
}

func derRS(r, s *big.Int) []byte { return mustASN1(struct{ R, S *big.Int }{r, s}) }

// --- Secp256k1: SHA-256, DER ---------------------------------------------------------

func secpSign(k *keys.Identity, msg []byte) (*dcrecdsa.Signature, []byte, error) {
	h := sha256.Sum256(msg)
	sig := dcrecdsa.Sign(secpPriv(k), h[:])
	if !sig.Verify(h[:], secpPriv(k).PubKey()) {
		return nil, nil, refErr("secp256k1 der")
	}
	return sig, h[:], nil
}

func secpCompact(k *keys.Identity, msg []byte, compressed bool) ([]byte, []byte, error) {
	h := sha256.Sum256(msg)
	sig := dcrecdsa.SignCompact(secpPriv(k), h[:], compressed)
	pub, flag, err := dcrecdsa.RecoverCompact(sig, h[:])
	if err != nil || len(sig) != 65 || flag != compressed || !pub.IsEqual(secpPriv(k).PubKey()) {
		return nil, nil, refErr("secp256k1 compact")
	}
	return sig, h[:], nil
}

var secpForms = []sigForm{
	{"der", true, func(k *keys.Identity, msg []byte, p sigParams) ([]byte, error) {
		sig, _, err := secpSign(k, msg)
		if err != nil {
			return nil, err
		}
		return sig.Serialize(), nil
	}},
	{"compact-compressed", false, func(k *keys.Identity, msg []byte, p sigParams) ([]byte, error) {
		sig, _, err := secpCompact(k, msg, true)
		return sig, err
	}},
	{"compact-uncompressed", false, func(k *keys.Identity, msg []byte, p sigParams) ([]byte, error) {
		sig, _, err := secpCompact(k, msg, false)
		return sig, err
	}},
	// the same r, s under one of the seven other recovery headers (27..34): recovers, if at all, to yet another key
	{"compact-other-header", false, func(k *keys.Identity, msg []byte, p sigParams) ([]byte, error) {
		sig, _, err := secpCompact(k, msg, p.alt%2 == 0)
		if err != nil {
			return nil, err
		}
		sig[0] = 27 + (sig[0]-27+1+byte(p.alt%7))%8
		return sig, nil
	}},
	{"raw-rs", false, func(k *keys.Identity, msg []byte, p sigParams) ([]byte, error) {
		sig, h, err := secpSign(k, msg)
		if err != nil {
			return nil, err
		}
		r, s := sig.R(), sig.S()
		rb, sb := r.Bytes(), s.Bytes()
		out := append(rb[:], sb[:]...)
		var r2, s2 secp256k1.ModNScalar
		if r2.SetByteSlice(out[:32]) || s2.SetByteSlice(out[32:]) || !dcrecdsa.NewSignature(&r2, &s2).Verify(h, secpPriv(k).PubKey()) {
			return nil, refErr("secp256k1 raw-rs")
		}
		return out, nil
	}},
	{"der-trailing", false, func(k *keys.Identity, msg []byte, p sigParams) ([]byte, error) {
		sig, _, err := secpSign(k, msg)
		if err != nil {
			return nil, err
		}
		return append(sig.Serialize(), p.pad...), nil
	}},
	{"der-long-length", false, func(k *keys.Identity, msg []byte, p sigParams) ([]byte, error) {
		sig, _, err := secpSign(k, msg)
		if err != nil {
			return nil, err
		}
		return sigLongLength(sig.Serialize())
	}},
	{"der-high-s", false, func(k *keys.Identity, msg []byte, p sigParams) ([]byte, error) {
		sig, h, err := secpSign(k, msg)
		if err != nil {
			return nil, err
		}
		r, s := sig.R(), sig.S()
		s.Negate()
		hi := dcrecdsa.NewSignature(&r, &s)
		if !s.IsOverHalfOrder() || !hi.Verify(h, secpPriv(k).PubKey()) {
			return nil, refErr("secp256k1 der-high-s")
		}
		return hi.Serialize(), nil
	}},
}

// --- ECDSA (P-256): SHA-256, ASN.1 DER -----------------------------------------------

func ecdsaSign(k *keys.Identity, msg []byte) (priv *ecdsa.PrivateKey, r, s *big.Int, h []byte, err error) {
	priv = stdKey(k).(*ecdsa.PrivateKey)
	d := sha256.Sum256(msg)
	r, s, err = ecdsa.Sign(rand.Reader, priv, d[:])
	if err == nil && !ecdsa.Verify(&priv.PublicKey, d[:], r, s) {
		err = refErr("ecdsa")
	}
	return priv, r, s, d[:], err
}

var ecdsaForms = []sigForm{
	{"der", true, func(k *keys.Identity, msg []byte, p sigParams) ([]byte, error) {
		priv, r, s, h, err := ecdsaSign(k, msg)
		if err != nil {
			return nil, err
		}
		out := derRS(r, s)
		if !ecdsa.VerifyASN1(&priv.PublicKey, h, out) {
			return nil, refErr("ecdsa der")
		}
		return out, nil
	}},
	// IEEE P1363: fixed-width r || s
	{"raw-rs", false, func(k *keys.Identity, msg []byte, p sigParams) ([]byte, error) {
		priv, r, s, h, err := ecdsaSign(k, msg)
		if err != nil {
			return nil, err
		}
		n := (priv.Curve.Params().BitSize + 7) / 8
		out := make([]byte, 2*n)
		r.FillBytes(out[:n])
		s.FillBytes(out[n:])
		if !ecdsa.Verify(&priv.PublicKey, h, new(big.Int).SetBytes(out[:n]), new(big.Int).SetBytes(out[n:])) {
			return nil, refErr("ecdsa raw-rs")
		}
		return out, nil
	}},
	{"der-trailing", false, func(k *keys.Identity, msg []byte, p sigParams) ([]byte, error) {
		_, r, s, _, err := ecdsaSign(k, msg)
		if err != nil {
			return nil, err
		}
		return append(derRS(r, s), p.pad...), nil
	}},
	{"der-long-length", false, func(k *keys.Identity, msg []byte, p sigParams) ([]byte, error) {
		_, r, s, _, err := ecdsaSign(k, msg)
		if err != nil {
			return nil, err
		}
		return sigLongLength(derRS(r, s))
	}},
	{"der-high-s", false, func(k *keys.Identity, msg []byte, p sigParams) ([]byte, error) {
		priv, r, s, h, err := ecdsaSign(k, msg)
		if err != nil {
			return nil, err
		}
		n := priv.Curve.Params().N
		if s.Cmp(new(big.Int).Rsh(n, 1)) <= 0 {
			s = new(big.Int).Sub(n, s)
		}
		if !ecdsa.Verify(&priv.PublicKey, h, r, s) {
			return nil, refErr("ecdsa der-high-s")
		}
		return derRS(r, s), nil
	}},
}

// --- Ed25519: pure, 64 bytes R || S -----------------------------------------------------

// the order of the Ed25519 base point, L = 2^252 + 27742317777372353535851937790883648493
var edL, _ = new(big.Int).SetString("7237005577332262213973186563042994240857116359379907606001950938285454250989", 10)

func leToInt(b []byte) *big.Int {
	be := make([]byte, len(b))
	for i := range b {
		be[len(b)-1-i] = b[i]
	}
	return new(big.Int).SetBytes(be)
}

func intToLE(x *big.Int, n int) []byte {
	be := x.FillBytes(make([]byte, n))
	for i, j := 0, n-1; i < j; i, j = i+1, j-1 {
		be[i], be[j] = be[j], be[i]
	}
	return be
}

func edSign(k *keys.Identity, msg []byte) (ed25519.PrivateKey, []byte, error) {
	priv := *stdKey(k).(*ed25519.PrivateKey)
	sig := ed25519.Sign(priv, msg)
	if len(sig) != 64 || !ed25519.Verify(priv.Public().(ed25519.PublicKey), msg, sig) {
		return nil, nil, refErr("ed25519 raw")
	}
	return priv, sig, nil
}

var ed25519Forms = []sigForm{
	{"raw", true, func(k *keys.Identity, msg []byte, p sigParams) ([]byte, error) {
		_, sig, err := edSign(k, msg)
		return sig, err
	}},
	// S + j*L for j = 1..14: the same scalar modulo the group order, still 32 bytes
	{"noncanonical-s", false, func(k *keys.Identity, msg []byte, p sigParams) ([]byte, error) {
		_, sig, err := edSign(k, msg)
		if err != nil {
			return nil, err
		}
		s := leToInt(sig[32:])
		s2 := new(big.Int).Add(s, new(big.Int).Mul(edL, big.NewInt(int64(1+p.alt%14))))
		if s2.BitLen() > 256 || new(big.Int).Mod(s2, edL).Cmp(s) != 0 || s2.Cmp(edL) < 0 {
			return nil, refErr("ed25519 noncanonical-s")
		}
		return append(append([]byte(nil), sig[:32]...), intToLE(s2, 32)...), nil
	}},
	{"appended", false, func(k *keys.Identity, msg []byte, p sigParams) ([]byte, error) {
		_, sig, err := edSign(k, msg)
		if err != nil {
			return nil, err
		}
		return append(sig, p.pad...), nil
	}},
	// Ed25519ph (RFC 8032): same key, same 64-byte shape, the message pre-hashed with SHA-512
	{"prehashed", false, func(k *keys.Identity, msg []byte, p sigParams) ([]byte, error) {
		priv := *stdKey(k).(*ed25519.PrivateKey)
		d := sha512.Sum512(msg)
		opts := &ed25519.Options{Hash: crypto.SHA512}
		sig, err := priv.Sign(nil, d[:], opts)
		if err != nil || ed25519.VerifyWithOptions(priv.Public().(ed25519.PublicKey), d[:], sig, opts) != nil {
			return nil, refErr("ed25519 prehashed")
		}
		return sig, nil
	}},
	// Ed25519ctx (RFC 8032) with a context string
	{"with-context", false, func(k *keys.Identity, msg []byte, p sigParams) ([]byte, error) {
		priv := *stdKey(k).(*ed25519.PrivateKey)
		opts := &ed25519.Options{Context: "libp2p"}
		sig, err := priv.Sign(nil, msg, opts)
		if err != nil || ed25519.VerifyWithOptions(priv.Public().(ed25519.PublicKey), msg, sig, opts) != nil {
			return nil, refErr("ed25519 with-context")
		}
		return sig, nil
	}},
}

// --- RSA: SHA-256, PKCS#1 v1.5 ----------------------------------------------------------

func rsaPKCS1(k *keys.Identity, msg []byte) (*rsa.PrivateKey, []byte, error) {
	priv := stdKey(k).(*rsa.PrivateKey)
	d := sha256.Sum256(msg)
	sig, err := rsa.SignPKCS1v15(rand.Reader, priv, crypto.SHA256, d[:])
	if err != nil || rsa.VerifyPKCS1v15(&priv.PublicKey, crypto.SHA256, d[:], sig) != nil {
		return nil, nil, refErr("rsa pkcs1-sha256")
	}
	return priv, sig, nil
}

var rsaForms = []sigForm{
	{"pkcs1-sha256", true, func(k *keys.Identity, msg []byte, p sigParams) ([]byte, error) {
		_, sig, err := rsaPKCS1(k, msg)
		return sig, err
	}},
	{"pss-sha256", false, func(k *keys.Identity, msg []byte, p sigParams) ([]byte, error) {
		priv := stdKey(k).(*rsa.PrivateKey)
		d := sha256.Sum256(msg)
		opts := &rsa.PSSOptions{SaltLength: rsa.PSSSaltLengthEqualsHash, Hash: crypto.SHA256}
		if p.alt%2 == 1 {
			opts.SaltLength = rsa.PSSSaltLengthAuto
		}
		sig, err := rsa.SignPSS(rand.Reader, priv, crypto.SHA256, d[:], opts)
		if err != nil || rsa.VerifyPSS(&priv.PublicKey, crypto.SHA256, d[:], sig, &rsa.PSSOptions{SaltLength: rsa.PSSSaltLengthAuto}) != nil {
			return nil, refErr("rsa pss-sha256")
		}
		return sig, nil
	}},
	{"pkcs1-sha512", false, func(k *keys.Identity, msg []byte, p sigParams) ([]byte, error) {
		priv := stdKey(k).(*rsa.PrivateKey)
		d := sha512.Sum512(msg)
		sig, err := rsa.SignPKCS1v15(rand.Reader, priv, crypto.SHA512, d[:])
		if err != nil || rsa.VerifyPKCS1v15(&priv.PublicKey, crypto.SHA512, d[:], sig) != nil {
			return nil, refErr("rsa pkcs1-sha512")
		}
		return sig, nil
	}},
	// PKCS#1 v1.5 padding around the bare SHA-256 digest, without the DigestInfo prefix
	{"pkcs1-no-digestinfo", false, func(k *keys.Identity, msg []byte, p sigParams) ([]byte, error) {
		priv := stdKey(k).(*rsa.PrivateKey)
		d := sha256.Sum256(msg)
		sig, err := rsa.SignPKCS1v15(rand.Reader, priv, 0, d[:])
		if err != nil || rsa.VerifyPKCS1v15(&priv.PublicKey, 0, d[:], sig) != nil {
			return nil, refErr("rsa pkcs1-no-digestinfo")
		}
		return sig, nil
	}},
	{"zero-prefixed", false, func(k *keys.Identity, msg []byte, p sigParams) ([]byte, error) {
		_, sig, err := rsaPKCS1(k, msg)
		if err != nil {
			return nil, err
		}
		return append([]byte{0}, sig...), nil
	}},
	{"appended", false, func(k *keys.Identity, msg []byte, p sigParams) ([]byte, error) {
		_, sig, err := rsaPKCS1(k, msg)
		if err != nil {
			return nil, err
		}
		return append(sig, p.pad...), nil
	}},
}

var sigForms = map[string][]sigForm{"secp256k1": secpForms, "ecdsa": ecdsaForms, "ed25519": ed25519Forms, "rsa": rsaForms}

// sigFormWeights: index lists per signer type -- the usual encoding once (control of the
// class: wrong key, usual form), every alternative form twice.
func drawSigForm(rt *rapid.T, typ string) int {
	forms := sigForms[typ]
	var idx []int
	for i, f := range forms {
		idx = append(idx, i)
		if !f.usual {
			idx = append(idx, i)
		}
	}
	return rapid.SampledFrom(idx).Draw(rt, "sig-form")
}

const (
	pathNoise      = "noise"
	pathTLS        = "tls"
	pathTLSConfig  = "tls-config"
	pathCertDirect = "cert-direct"
)

type sigCase struct {
	path       string
	tv         string // key type of the named identity V
	signer     string // sametype | othertype | named-key
	ts         string // key type of the signing key
	form       int    // index into sigForms[ts]
	p          sigParams
	honestInit bool
	expect     string // victim | empty | nocheck
}

func (c sigCase) formName() string { return sigForms[c.ts][c.form].name }

func (c sigCase) key() string {
	return fmt.Sprintf("%s|named=%s|signer=%s/%s|form=%s|%s|honestInit=%v|%s", c.path, c.tv, c.signer, c.ts, c.formName(), c.p, c.honestInit, c.expect)
}

func runForgedSigEncoding(t *testing.T, rt *rapid.T, c sigCase) (nontrivial bool, labels []string) {
	f := fl(t, rt)
	V := keys.Get(c.tv, 0)
	var K *keys.Identity // the only identity key the remote holds and uses
	switch c.signer {
	case "sametype":
		K = keys.Get(c.tv, 3)
	case "othertype":
		K = keys.Get(c.ts, 2)
	case "named-key":
		K = V
	}
	if (K == V) != (c.signer == "named-key") || K.Type != c.ts {
		f.Fatalf("harness: inconsistent case %s", c.key())
	}
	form := sigForms[c.ts][c.form]
	named := mustMarshalPub(V.Pub)
	h := &side{Me: keys.Get("ed25519", 1), Initiator: c.honestInit, Kind: c.expect}
	switch c.expect {
	case "victim":
		h.Expect = V.ID
	case "nocheck":
		h.Disable, h.Expect = true, V.ID
	}
	nonce := mkNonce(uint64(c.form)*31 + uint64(c.p.alt))
	o := &outcome{}
	var (
		sigLen   int
		done     bool
		chKey    ic.PubKey // tls-config: what the verified-key channel delivered
		dirKey   ic.PubKey // cert-direct
		dirErr   error
		panicked any
		stack    []byte
	)
	sign := func(msg []byte) []byte {
		sig, err := form.make(K, msg, c.p)
		if err != nil {
			bail("%s: %v", c.key(), err)
		}
		sigLen = len(sig)
		return sig
	}
	forgedCert := func() forged {
		k := newCertKey()
		sig := sign(append([]byte(tlsPrefix), mustPKIX(k.Public())...))
		return single(k, p2pExt(mustASN1(signedKey{PubKey: named, Signature: sig})))
	}
	bubble(t, rt, func() {
		if c.path == pathCertDirect {
			chain, err := parseChain(forgedCert().chain)
			if err != nil {
				bail("%s: forged certificate does not parse: %v", c.key(), err)
			}
			defer func() {
				if r := recover(); r != nil {
					panicked, stack = r, debug.Stack()
				}
			}()
			dirKey, dirErr = libp2ptls.PubKeyFromCertChain(chain)
			return
		}
		ch, cm := memnet.Pipe(memnet.Options{})
		var wg sync.WaitGroup
		wg.Add(1)
		go func() {
			defer wg.Done()
			ctx, cancel := contextWithTimeout()
			defer cancel()
			if c.path != pathTLSConfig {
				h.run(ctx, c.path, ch, nonce, o)
				return
			}
			// the way QUIC uses the TLS layer: ConfigForPeer's tls.Config under a TLS stack that is not libp2ptls.Transport
			ident, err := libp2ptls.NewIdentity(h.Me.Priv)
			if err != nil {
				o.hsErr = err
				ch.Close()
				return
			}
			conf, keyCh := ident.ConfigForPeer(h.Expect)
			var tc *tls.Conn
			if c.honestInit {
				tc = tls.Client(ch, conf)
			} else {
				tc = tls.Server(ch, conf)
			}
			if err := tc.HandshakeContext(ctx); err != nil {
				o.hsErr = err
				ch.Close()
			} else {
				o.hsOK = true
			}
			select {
			case chKey = <-keyCh:
			default:
			}
			if o.hsOK {
				echo(tc, c.honestInit, nonce, o)
				tc.Close()
			}
		}()
		switch c.path {
		case pathNoise:
			att := &noiseAttacker{initiator: !c.honestInit}
			att.payload = func(s noise.DHKey) []byte {
				return encodeFields(pbField{1, named}, pbField{2, sign(append([]byte(noisePrefix), s.Public...))})
			}
			att.run(cm, nonce)
		default:
			att := &tlsAttacker{initiator: !c.honestInit, fg: forgedCert()}
			att.run(cm, nonce)
		}
		cm.Close()
		wg.Wait()
		ch.Close()
	})
	ctx := c.key()
	what := fmt.Sprintf("the %d-byte %s/%s signature over the correct message made with a key that is not the named %s identity key", sigLen, c.ts, form.name, c.tv)
	if K == V {
		what = fmt.Sprintf("the %d-byte %s/%s signature by the named key itself", sigLen, c.ts, form.name)
	}
	switch c.path {
	case pathCertDirect:
		if panicked != nil {
			f.Fatalf("%s: PubKeyFromCertChain panicked: %v\n%s", ctx, panicked, stack)
		}
		done = dirErr == nil
		if done {
			if dirKey == nil {
				f.Fatalf("%s: PubKeyFromCertChain returned neither key nor error", ctx)
			}
			if !dirKey.Equals(K.Pub) {
				id, _ := peer.IDFromPublicKey(dirKey)
				f.Fatalf("%s: PubKeyFromCertChain accepted %s and returned the key of %s; the certificate key was signed by %s", ctx, what, id, K.ID)
			}
		} else if dirKey != nil {
			f.Fatalf("%s: PubKeyFromCertChain returned a key together with an error", ctx)
		}
	case pathTLSConfig:
		if chKey != nil && !chKey.Equals(K.Pub) {
			id, _ := peer.IDFromPublicKey(chKey)
			f.Fatalf("%s: the verified-key channel delivered the key of %s on %s; the remote used the key of %s", ctx, id, what, K.ID)
		}
		done = o.hsOK && (!c.honestInit || o.echoOK)
		if done {
			if chKey == nil {
				f.Fatalf("%s: the handshake completed but the verified-key channel delivered no key", ctx)
			}
			if !h.accepts(K.ID) {
				f.Fatalf("%s: named %s but completed with %s", ctx, h.Expect, K.ID)
			}
		}
		checkNoGarbage(f, ctx, h, o)
	default:
		// whatever completes is the signer, under the signer's ID
		checkIdentity(f, ctx+" ("+what+")", c.path, h, o, K, true)
		checkNoGarbage(f, ctx, h, o)
		done = completed(c.path, h, o)
	}
	// converse, control only: the named key's own signature in the usual encoding is accepted
	proto := pTLS
	if c.path == pathNoise {
		proto = pNoise
	}
	if K == V && form.usual && !noConverse && (c.path == pathCertDirect || h.mustAccept(proto, V.ID)) {
		if !done {
			f.Fatalf("%s: the named key's own signature in the usual encoding was not accepted: %s / %v", ctx, o, dirErr)
		}
	}
	res := "rejected"
	if done {
		res = "completed"
	}
	labels = []string{"path:" + c.path, "named-key:" + c.tv, "signer:" + c.signer, "sig-form:" + c.ts + "/" + form.name, "expect:" + c.expect}
	if c.path != pathCertDirect {
		if c.honestInit {
			labels = append(labels, "verifier:initiator", "honest-err:"+errClass(o.hsErr))
		} else {
			labels = append(labels, "verifier:responder", "honest-err:"+errClass(o.hsErr))
		}
	}
	enc := "alternative"
	if form.usual {
		enc = "usual"
	}
	if K == V {
		// information only: how the library treats the named key's own signature per encoding
		labels = append(labels, "same-key-other-encoding:"+c.ts+"/"+form.name+":"+res)
	} else {
		labels = append(labels, "forged-sig-encoding:"+enc, "forged-sig:"+c.signer+"/"+enc+"/"+c.path+":"+res,
			"forged-sig-named:"+c.tv+"<-"+c.ts+"/"+form.name)
	}
	return K != V, labels
}

// TestForgedSignatureEncodings draws path x named key type x signer (another key of the same
// type / a key of another type / -- control, not judged -- the named key) x signature form of
// the signer's type x form parameters x verifying role x expected-peer setting.
func TestForgedSignatureEncodings(t *testing.T) {
	warm()
	name := t.Name()
	hx.Check(t, 1600, 80000, 0, func(rt *rapid.T) {
		c := sigCase{
			path: rapid.SampledFrom([]string{pathNoise, pathNoise, pathTLS, pathTLS, pathTLSConfig, pathCertDirect}).Draw(rt, "path"),
			tv:   rapid.SampledFrom(keys.Types).Draw(rt, "named-key"),
		}
		c.signer = rapid.SampledFrom([]string{"sametype", "sametype", "sametype", "sametype", "othertype", "named-key"}).Draw(rt, "signer")
		c.ts = c.tv
		if c.signer == "othertype" {
			var others []string
			for _, typ := range keys.Types {
				if typ != c.tv {
					others = append(others, typ)
				}
			}
			c.ts = rapid.SampledFrom(others).Draw(rt, "signer-key")
		}
		c.form = drawSigForm(rt, c.ts)
		c.p = sigParams{
			pad: rapid.SliceOfN(rapid.Byte(), 1, 3).Draw(rt, "pad"),
			alt: rapid.IntRange(0, 13).Draw(rt, "alt"),
		}
		// parameters a form does not read are not part of the case (fingerprint honesty)
		switch c.formName() {
		case "der-trailing", "appended":
			c.p.alt = 0
		case "compact-other-header", "noncanonical-s", "pss-sha256":
			c.p.pad = nil
		default:
			c.p = sigParams{}
		}
		switch c.path {
		case pathCertDirect:
			c.expect = "empty"
		case pathNoise:
			c.honestInit = rapid.Bool().Draw(rt, "verifier-initiator")
			c.expect = rapid.SampledFrom(attackExpectations(c.honestInit)).Draw(rt, "expect")
		default:
			c.honestInit = rapid.Bool().Draw(rt, "verifier-initiator")
			c.expect = rapid.SampledFrom([]string{"victim", "empty"}).Draw(rt, "expect")
		}
		nt, labels := runForgedSigEncoding(t, rt, c)
		stats.Case(name, c.key(), nt, labels...)
		if nt && stats.WantSample(name) {
			stats.Sample(name, map[string]any{"case": c.key(), "labels": labels})
		}
	})
}
