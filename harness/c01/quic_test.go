package c01

import (
	"context"
	"fmt"
	"testing"
	"testing/synctest"
	"time"

	"github.com/libp2p/go-libp2p"
	"github.com/libp2p/go-libp2p/core/host"
	"github.com/libp2p/go-libp2p/core/network"
	"github.com/libp2p/go-libp2p/core/peer"
	"github.com/libp2p/go-libp2p/x/simlibp2p"
	"github.com/marcopolo/simnet"
	ma "github.com/multiformats/go-multiaddr"

	"verif/internal/hx"
	"verif/internal/keys"
	"verif/internal/stats"
)

// TestQUICExpectedPeer: end-to-end smoke coverage of the QUIC path (which reuses
// libp2ptls.Identity.ConfigForPeer): full libp2p hosts over simnet's in-memory UDP, the
// dialer asks for P at the address where Q listens; all 16 key-type pairs of (P, Q).
func TestQUICExpectedPeer(t *testing.T) {
	warm()
	name := t.Name()
	k := 0
	for i, tp := range keys.Types {
		for j, tq := range keys.Types {
			_, _ = i, j
			k++
			if !hx.Mine(k) {
				continue
			}
			P, Q, H := keys.Get(tp, 0), keys.Get(tq, 2), keys.Ed(5)
			var failure string
			if msg := hx.RunBubble(t, func() {
				router := &simnet.Simnet{LatencyFunc: simnet.StaticLatency(5 * time.Millisecond)}
				link := simnet.NodeBiDiLinkSettings{
					Downlink: simnet.LinkSettings{BitsPerSecond: 100 * simlibp2p.OneMbps},
					Uplink:   simnet.LinkSettings{BitsPerSecond: 100 * simlibp2p.OneMbps},
				}
				mk := func(id *keys.Identity, ip string) host.Host {
					h, err := libp2p.New(
						libp2p.Identity(id.Priv),
						libp2p.ListenAddrStrings("/ip4/"+ip+"/udp/8000/quic-v1"),
						libp2p.DisableIdentifyAddressDiscovery(),
						libp2p.ResourceManager(&network.NullResourceManager{}),
						simlibp2p.QUICSimnet(router, link),
					)
					if err != nil {
						bail("libp2p.New: %v", err)
					}
					return h
				}
				hh, hp, hq := mk(H, "1.0.0.1"), mk(P, "1.0.0.2"), mk(Q, "1.0.0.3")
				router.Start()
				defer router.Close()
				defer hh.Close()
				defer hp.Close()
				defer hq.Close()
				rec := &recNotifiee{}
				hh.Network().Notify(rec)

				// 1. P is dialled at Q's address
				hh.Peerstore().AddAddrs(P.ID, []ma.Multiaddr{ma.StringCast("/ip4/1.0.0.3/udp/8000/quic-v1")}, time.Hour)
				ctx, cancel := context.WithTimeout(context.Background(), 30*time.Second)
				conn, err := hh.Network().DialPeer(ctx, P.ID)
				cancel()
				synctest.Wait()
				if conn != nil || err == nil {
					failure = fmt.Sprintf("DialPeer(P) at Q's address returned conn=%v err=%v", conn, err)
					return
				}
				rec.mu.Lock()
				evs := append([]connEvent(nil), rec.events...)
				rec.mu.Unlock()
				for _, e := range evs {
					if e.connected {
						failure = fmt.Sprintf("dial for P at Q's address produced a Connected notification for %s", e.remote)
						return
					}
				}
				if n := len(hh.Network().Conns()); n != 0 {
					failure = fmt.Sprintf("dial for P at Q's address left %d connection(s)", n)
					return
				}
				// 2. control: Q dialled at Q's address is reported as Q, with Q's key
				ctx, cancel = context.WithTimeout(context.Background(), 30*time.Second)
				err = hh.Connect(ctx, peer.AddrInfo{ID: Q.ID, Addrs: []ma.Multiaddr{ma.StringCast("/ip4/1.0.0.3/udp/8000/quic-v1")}})
				cancel()
				if err != nil {
					if !noConverse {
						failure = fmt.Sprintf("control: dialling Q at Q's address failed: %v", err)
					}
					return
				}
				for _, c := range hh.Network().Conns() {
					if c.RemotePeer() != Q.ID || c.RemotePublicKey() == nil || !c.RemotePublicKey().Equals(Q.Pub) {
						failure = fmt.Sprintf("control: connection to Q reports %s", c.RemotePeer())
						return
					}
				}
				// the server side reports the dialer's genuine identity
				for _, c := range hq.Network().Conns() {
					if c.RemotePeer() != H.ID || c.RemotePublicKey() == nil || !c.RemotePublicKey().Equals(H.Pub) {
						failure = fmt.Sprintf("control: Q's inbound connection reports %s instead of the dialer", c.RemotePeer())
						return
					}
				}
			}); msg != "" {
				t.Fatalf("p=%s q=%s: %s", tp, tq, msg)
			}
			if failure != "" {
				t.Fatalf("p=%s q=%s: %s", tp, tq, failure)
			}
			stats.CaseEnumerated(name, true, "ptype:"+tp, "qtype:"+tq)
		}
	}
}
