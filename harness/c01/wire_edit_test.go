package c01

import (
	"bytes"
	"fmt"
	"io"
	"sync"
	"testing"
	"testing/synctest"
	"time"

	"pgregory.net/rapid"

	"verif/internal/hx"
	"verif/internal/keys"
	"verif/internal/memnet"
	"verif/internal/stats"
	"verif/internal/wire"
)

// Domains B (Noise) and E (TLS): one man-in-the-middle edit per case between two honest
// endpoints whose settings are the honest baseline, so the edit is the only fault.

func framing(proto string) wire.Framing {
	if proto == pTLS {
		return wire.TLS
	}
	return wire.Noise
}

// hsFrames is the number of handshake frames per direction: Noise XX has e / e,ee,s,es /
// s,se; TLS 1.3 as spoken by crypto/tls with client authentication has ClientHello, CCS,
// Certificate, CertificateVerify, Finished one way and ServerHello, CCS,
// EncryptedExtensions, CertificateRequest, Certificate, CertificateVerify, Finished the
// other way (checked against a dry run by layoutCheck).
func hsFrames(proto string) [2]int {
	if proto == pTLS {
		return [2]int{5, 7}
	}
	return [2]int{2, 1}
}

type editCase struct {
	proto    string
	ti, tr   string // key types of session 0 (initiator, responder)
	tc, td   string // key types of the second session (swap)
	respKind string // match | empty
	prologue bool   // noise: both sides configure the same non-empty prologue
	op       string // flip trunc-fix trunc-nofix ext-fix ext-nofix drop dup swap replay replay-all
	dir      wire.Dir
	idx      int
	pos      int
	wrap     bool
	mask     byte
	n        int
	ins      insertion // op insert: the frame(s) the man in the middle adds in front of frame (dir, idx)
}

func (c editCase) key() string {
	if c.op == "insert" {
		return c.baseKey() + "|" + c.ins.key()
	}
	return c.baseKey()
}

func (c editCase) baseKey() string {
	return fmt.Sprintf("%s|%s>%s|%s>%s|%s|%v|%s|%s[%d]|%d|%02x|%d", c.proto, c.ti, c.tr, c.tc, c.td, c.respKind, c.prologue, c.op, c.dir, c.idx, c.pos, c.mask, c.n)
}

func (c editCase) sides(ia, ib *keys.Identity) (*side, *side) {
	a := &side{Me: ia, Initiator: true, Kind: "match", Expect: ib.ID}
	b := &side{Me: ib, Kind: c.respKind}
	if c.respKind == "match" {
		b.Expect = ia.ID
	}
	if c.prologue && c.proto == pNoise {
		a.Prologue, b.Prologue = []byte("c01/B"), []byte("c01/B")
	}
	return a, b
}

func (c editCase) edit(data []byte) wire.Edit {
	e := wire.Edit{Dir: c.dir, Index: c.idx, Pos: c.pos, Wrap: c.wrap, Mask: c.mask, N: c.n, Data: data}
	switch c.op {
	case "flip":
		e.Op = wire.Flip
	case "trunc-fix":
		e.Op, e.FixLen = wire.Truncate, true
	case "trunc-nofix":
		e.Op = wire.Truncate
	case "ext-fix":
		e.Op, e.FixLen, e.Data = wire.Extend, true, nil
	case "ext-nofix":
		e.Op, e.Data = wire.Extend, nil
	case "drop":
		e.Op = wire.Drop
	case "dup":
		e.Op = wire.Dup
	case "replay":
		e.Op = wire.Replace
	}
	return e
}

// sess is one session through a man in the middle.
type sess struct {
	a, b   *side
	oa, ob *outcome
	ap     wire.Applied
	frames [2][][]byte
}

func runThrough(proto string, a, b *side, ed wire.Editor, nonce []byte) *sess {
	ca, cb, m := spliced(framing(proto), ed)
	s := &sess{a: a, b: b}
	s.oa, s.ob = runPair(proto, a, b, ca, cb, nonce)
	s.frames = [2][][]byte{m.Frames(wire.AtoB), m.Frames(wire.BtoA)}
	ca.Close()
	cb.Close()
	m.Close()
	m.Wait()
	return s
}

// swapper exchanges frame (dir, idx) of two concurrent sessions.
type swapper struct {
	dir  wire.Dir
	idx  int
	ch   [2]chan []byte
	done chan struct{}
	mu   sync.Mutex
	ap   [2]wire.Applied
}

func newSwapper(dir wire.Dir, idx int) *swapper {
	return &swapper{dir: dir, idx: idx, ch: [2]chan []byte{make(chan []byte, 1), make(chan []byte, 1)}, done: make(chan struct{})}
}

func (s *swapper) editor(i int) wire.Editor {
	return func(fr wire.Frame) [][]byte {
		if fr.Dir != s.dir || fr.Index != s.idx {
			return [][]byte{fr.Raw}
		}
		s.ch[i] <- fr.Raw
		select {
		case other := <-s.ch[1-i]:
			s.mu.Lock()
			s.ap[i] = wire.Applied{Hit: true, Changed: !bytes.Equal(other, fr.Raw), Orig: fr.Raw}
			s.mu.Unlock()
			return [][]byte{other}
		case <-s.done:
			s.mu.Lock()
			s.ap[i] = wire.Applied{Hit: true, Changed: true, Orig: fr.Raw}
			s.mu.Unlock()
			return nil
		}
	}
}

// classify decides which form of the oracle applies to an applied edit.
//
//	baseline : nothing was changed -> the session must complete
//	strict   : the receiver of the edited frame must not complete
//	identity : bytes TLS 1.3 itself leaves unauthenticated (plaintext record headers, the
//	           compatibility ChangeCipherSpec record): completion only with genuine identities
//	trailing : all injected bytes lie behind the receiver's last handshake frame
func classify(c editCase, ap wire.Applied) string {
	if !ap.Hit || !ap.Changed {
		return "baseline"
	}
	if c.op == "insert" {
		return classifyInsert(c, ap)
	}
	last := c.idx == hsFrames(c.proto)[c.dir]-1
	if c.proto == pTLS {
		typ := ap.Orig[0]
		if typ == 20 {
			return "identity"
		}
		if c.op == "flip" && ap.Pos < 5 && typ == 22 {
			return "identity"
		}
	}
	if (c.op == "dup" || c.op == "ext-nofix") && last {
		return "trailing"
	}
	return "strict"
}

func judge(f failer, c editCase, class string, s *sess, ia, ib *keys.Identity, tag string) {
	ctx := c.key() + tag + " class=" + class
	checkIdentity(f, ctx, c.proto, s.a, s.oa, ib, true)
	checkIdentity(f, ctx, c.proto, s.b, s.ob, ia, true)
	checkNoGarbage(f, ctx, s.a, s.oa)
	checkNoGarbage(f, ctx, s.b, s.ob)
	switch class {
	case "baseline":
		if noConverse {
			break
		}
		if !s.oa.hsOK || !s.ob.hsOK || !s.oa.echoOK || !s.ob.echoOK {
			f.Fatalf("%s: nothing was edited but the session did not complete: initiator: %s; responder: %s", ctx, s.oa, s.ob)
		}
	case "strict":
		recv, or := s.b, s.ob
		if c.dir == wire.BtoA {
			recv, or = s.a, s.oa
		}
		if completed(c.proto, recv, or) {
			if coincidentallyIntact(c, s) {
				return // the byte stream the receiver consumed for the handshake equals the original one
			}
			f.Fatalf("%s: %s received edited handshake data and completed the handshake (%s); original frame %x", ctx, recv, or, s.ap.Orig)
		}
	}
}

// coincidentallyIntact: a frame cut short without adjusting its length field makes the receiver
// take the missing bytes from whatever the sender transmits next. When those bytes happen to
// equal the removed ones (a 1-byte cut: 1 case in 256) the receiver has consumed exactly the
// original handshake bytes and rightly completes; only the data after the handshake is shifted.
func coincidentallyIntact(c editCase, s *sess) bool {
	if c.op != "trunc-nofix" || !s.ap.Changed || c.idx >= len(s.frames[c.dir]) {
		return false
	}
	cut := framing(c.proto).HeaderLen() + s.ap.N
	if cut > len(s.ap.Orig) {
		return false
	}
	removed := s.ap.Orig[cut:]
	var next []byte
	for _, fr := range s.frames[c.dir][c.idx+1:] {
		next = append(next, fr...)
	}
	return len(next) >= len(removed) && bytes.Equal(next[:len(removed)], removed)
}

func outcomeLabel(s *sess) string {
	switch {
	case s.oa.hsOK && s.ob.hsOK:
		return "outcome:both-handshakes-ok"
	case s.oa.hsOK:
		return "outcome:only-initiator-ok"
	case s.ob.hsOK:
		return "outcome:only-responder-ok"
	}
	return "outcome:none-ok"
}

func frameLabel(c editCase) string {
	if c.idx >= hsFrames(c.proto)[c.dir] {
		return fmt.Sprintf("after-last-handshake-frame:%s", c.dir)
	}
	if c.proto == pNoise {
		m := 1
		if c.dir == wire.BtoA {
			m = 2
		} else if c.idx == 1 {
			m = 3
		}
		return fmt.Sprintf("msg:%d", m)
	}
	return fmt.Sprintf("rec:%s[%d]", c.dir, c.idx)
}

// runEdit executes one case (inside a bubble) and judges it.
func runEdit(t *testing.T, rt *rapid.T, c editCase) (nontrivial bool, labels []string) {
	f := fl(t, rt)
	ia, ib := keys.Get(c.ti, 0), keys.Get(c.tr, 1)
	nonce := mkNonce(uint64(c.pos)*131 + uint64(c.idx))
	var results []*sess
	var idents [][2]*keys.Identity
	var target *outcome // replay-all
	var targetSide *side
	bubble(t, rt, func() {
		switch c.op {
		case "swap":
			ic2, id2 := keys.Get(c.tc, 2), keys.Get(c.td, 3)
			sw := newSwapper(c.dir, c.idx)
			a0, b0 := c.sides(ia, ib)
			a1, b1 := c.sides(ic2, id2)
			var s0, s1 *sess
			var wg sync.WaitGroup
			wg.Add(2)
			go func() { defer wg.Done(); s0 = runThrough(c.proto, a0, b0, sw.editor(0), nonce) }()
			go func() { defer wg.Done(); s1 = runThrough(c.proto, a1, b1, sw.editor(1), complement(nonce)) }()
			// both sessions end by themselves (deadlines); release a pump that still waits for its partner
			rel := make(chan struct{})
			go func() { defer close(rel); time.Sleep(2 * handshakeTimeout); close(sw.done) }()
			wg.Wait()
			<-rel
			s0.ap, s1.ap = sw.ap[0], sw.ap[1]
			results = []*sess{s0, s1}
			idents = [][2]*keys.Identity{{ia, ib}, {ic2, id2}}
		case "replay":
			a, b := c.sides(ia, ib)
			rec := runThrough(c.proto, a, b, nil, nonce)
			if !rec.oa.echoOK || !rec.ob.echoOK {
				bail("%s: recording session failed: %s / %s", c.key(), rec.oa, rec.ob)
			}
			if c.idx >= len(rec.frames[c.dir]) {
				bail("%s: recording has only %d frames in that direction", c.key(), len(rec.frames[c.dir]))
			}
			ed, ap := wire.Single(framing(c.proto), c.edit(rec.frames[c.dir][c.idx]))
			s := runThrough(c.proto, a, b, ed, complement(nonce))
			s.ap = ap()
			results, idents = []*sess{s}, [][2]*keys.Identity{{ia, ib}}
		case "replay-all":
			a, b := c.sides(ia, ib)
			rec := runThrough(c.proto, a, b, nil, nonce)
			if !rec.oa.echoOK || !rec.ob.echoOK {
				bail("%s: recording session failed: %s / %s", c.key(), rec.oa, rec.ob)
			}
			// the whole recorded flight of one party is played against the other, honest party
			targetSide = b
			if c.dir == wire.BtoA {
				targetSide = a
			}
			target = replayAgainst(c.proto, targetSide, rec.frames[c.dir], complement(nonce))
		default:
			a, b := c.sides(ia, ib)
			ed, ap := wire.Single(framing(c.proto), c.edit(nil))
			if c.op == "insert" {
				ed, ap = insertEditor(framing(c.proto), c)
			}
			s := runThrough(c.proto, a, b, ed, nonce)
			s.ap = ap()
			results, idents = []*sess{s}, [][2]*keys.Identity{{ia, ib}}
		}
	})
	labels = []string{c.proto, "op:" + c.op, frameLabel(c), "keys:" + c.ti + ">" + c.tr}
	if c.op == "insert" {
		labels = append(labels, c.ins.labels(c)...)
	}
	if c.op == "replay-all" {
		checkIdentity(f, c.key()+" (replayed flight)", c.proto, targetSide, target, nil, true)
		labels = append(labels, "class:strict", "target-err:"+errClass(target.hsErr))
		return true, labels
	}
	for i, s := range results {
		class := classify(c, s.ap)
		judge(f, c, class, s, idents[i][0], idents[i][1], fmt.Sprintf(" session=%d", i))
		if i == 0 {
			labels = append(labels, "class:"+class, outcomeLabel(s))
			nontrivial = class != "baseline"
			if c.proto == pTLS && s.ap.Hit {
				labels = append(labels, fmt.Sprintf("rectype:%d", s.ap.Orig[0]))
			}
		}
	}
	return nontrivial, labels
}

// replayAgainst plays recorded frames (all at once: the transport is a buffered stream)
// against one honest side and reports what that side observed.
func replayAgainst(proto string, target *side, frames [][]byte, nonce []byte) *outcome {
	ct, cr := memnet.Pipe(memnet.Options{})
	var wg sync.WaitGroup
	wg.Add(1)
	go func() {
		defer wg.Done()
		for _, fr := range frames {
			if _, err := cr.Write(fr); err != nil {
				break
			}
		}
		cr.SetReadDeadline(time.Now().Add(3 * handshakeTimeout))
		io.Copy(io.Discard, cr)
	}()
	o := &outcome{}
	ctx, cancel := contextWithTimeout()
	target.run(ctx, proto, ct, nonce, o)
	cancel()
	ct.Close()
	cr.Close()
	wg.Wait()
	return o
}

// ---------------------------------------------------------------------------

var sampledOps = []string{"flip", "flip", "flip", "trunc-fix", "trunc-nofix", "ext-fix", "ext-nofix", "drop", "dup", "swap", "replay", "replay-all", "insert", "insert"}

func drawEdit(rt *rapid.T, proto string) editCase {
	c := editCase{
		proto:    proto,
		ti:       rapid.SampledFrom(keys.Types).Draw(rt, "ti"),
		tr:       rapid.SampledFrom(keys.Types).Draw(rt, "tr"),
		respKind: rapid.SampledFrom([]string{"match", "empty"}).Draw(rt, "respKind"),
		op:       rapid.SampledFrom(sampledOps).Draw(rt, "op"),
		wrap:     true,
	}
	n := hsFrames(proto)
	k := rapid.IntRange(0, n[0]+n[1]-1).Draw(rt, "frame")
	if k < n[0] {
		c.dir, c.idx = wire.AtoB, k
	} else {
		c.dir, c.idx = wire.BtoA, k-n[0]
	}
	if proto == pNoise {
		c.prologue = rapid.Bool().Draw(rt, "prologue")
	}
	switch c.op {
	case "flip":
		if rapid.IntRange(0, 7).Draw(rt, "hdr") == 0 {
			c.pos = rapid.IntRange(0, framing(proto).HeaderLen()-1).Draw(rt, "pos")
		} else {
			c.pos = rapid.IntRange(0, 4095).Draw(rt, "pos")
		}
		c.mask = rapid.SampledFrom([]byte{0x01, 0x80, 0xff, 0x10, 0x02, 0x40}).Draw(rt, "mask")
	case "trunc-fix", "trunc-nofix":
		c.pos = 0
		c.n = rapid.IntRange(0, 4095).Draw(rt, "n")
	case "ext-fix", "ext-nofix":
		c.n = rapid.IntRange(1, 48).Draw(rt, "n")
	case "swap":
		c.tc = rapid.SampledFrom(keys.Types).Draw(rt, "tc")
		c.td = rapid.SampledFrom(keys.Types).Draw(rt, "td")
	case "insert":
		c.ins = drawInsertion(rt, proto)
		// one case in eight puts the frame(s) behind the last handshake frame of that direction
		if rapid.IntRange(0, 7).Draw(rt, "after-last") == 0 {
			c.idx = n[c.dir]
		}
	}
	return c
}

// TestNoiseWireEdits: sampled edits on the three Noise XX handshake messages (domain B).
func TestNoiseWireEdits(t *testing.T) {
	warm()
	name := t.Name()
	hx.Check(t, 3000, 200000, 0, func(rt *rapid.T) {
		c := drawEdit(rt, pNoise)
		nt, labels := runEdit(t, rt, c)
		stats.Case(name, c.key(), nt, labels...)
		if stats.WantSample(name) {
			stats.Sample(name, map[string]any{"case": c.key(), "labels": labels})
		}
	})
}

// TestTLSWireEdits: the same operators on TLS records (domain E).
func TestTLSWireEdits(t *testing.T) {
	warm()
	name := t.Name()
	hx.Check(t, 3000, 150000, 0, func(rt *rapid.T) {
		c := drawEdit(rt, pTLS)
		nt, labels := runEdit(t, rt, c)
		stats.Case(name, c.key(), nt, labels...)
		if stats.WantSample(name) {
			stats.Sample(name, map[string]any{"case": c.key(), "labels": labels})
		}
	})
}

// dryRun records the handshake frames of a clean session (no echo, so only handshake
// frames are on the wire).
func dryRun(t *testing.T, proto, ti, tr string) (frames [2][][]byte) {
	ia, ib := keys.Get(ti, 0), keys.Get(tr, 1)
	bubble(t, nil, func() {
		a := &side{Me: ia, Initiator: true, Kind: "match", Expect: ib.ID, NoEcho: true}
		b := &side{Me: ib, Kind: "match", Expect: ia.ID, NoEcho: true}
		ca, cb, m := spliced(framing(proto), nil)
		oa, ob := runPair(proto, a, b, ca, cb, nil)
		synctest.Wait()
		if !oa.hsOK || !ob.hsOK {
			bail("dry run %s %s>%s failed: %s / %s", proto, ti, tr, oa, ob)
		}
		frames = [2][][]byte{m.Frames(wire.AtoB), m.Frames(wire.BtoA)}
		ca.Close()
		cb.Close()
		m.Close()
		m.Wait()
	})
	return frames
}

// TestLayout checks the harness' own assumption about the number and kind of handshake
// frames against a dry run (so that "last handshake frame" and the frame indices drawn by
// the generators mean what they are supposed to mean).
func TestLayout(t *testing.T) {
	warm()
	hx.Shard0(t)
	for _, proto := range []string{pNoise, pTLS} {
		fr := dryRun(t, proto, "ed25519", "rsa")
		want := hsFrames(proto)
		if len(fr[0]) != want[0] || len(fr[1]) != want[1] {
			t.Fatalf("%s: dry run saw %d/%d handshake frames, harness assumes %d/%d", proto, len(fr[0]), len(fr[1]), want[0], want[1])
		}
		if proto == pTLS {
			types := func(fs [][]byte) (out []byte) {
				for _, f := range fs {
					out = append(out, f[0])
				}
				return
			}
			if got := types(fr[0]); !bytes.Equal(got, []byte{22, 20, 23, 23, 23}) {
				t.Fatalf("tls client records: %v", got)
			}
			if got := types(fr[1]); !bytes.Equal(got, []byte{22, 20, 23, 23, 23, 23, 23}) {
				t.Fatalf("tls server records: %v", got)
			}
		}
	}
	stats.CaseEnumerated(t.Name(), false, "layout-ok")
}

// flipExhaustive enumerates every byte position of every handshake frame for the given
// key-type pairs.
func flipExhaustive(t *testing.T, proto string, pairs [][2]string, masks []byte) {
	warm()
	name := t.Name()
	k := 0
	n := hsFrames(proto)
	for _, p := range pairs {
		fr := dryRun(t, proto, p[0], p[1])
		for d := wire.AtoB; d <= wire.BtoA; d++ {
			for idx := 0; idx < n[d]; idx++ {
				// ECDSA / secp256k1 signatures vary in length by a few bytes between runs
				for pos := 0; pos < len(fr[d][idx])+4; pos++ {
					ms := masks
					if pos < framing(proto).HeaderLen() {
						ms = []byte{0x01, 0x02, 0x04, 0x08, 0x10, 0x20, 0x40, 0x80} // every bit of the frame header
					}
					for _, mask := range ms {
						k++
						if !hx.Mine(k) {
							continue
						}
						c := editCase{proto: proto, ti: p[0], tr: p[1], respKind: []string{"match", "empty"}[pos%2], op: "flip", dir: d, idx: idx, pos: pos, mask: mask}
						nt, labels := runEdit(t, nil, c)
						stats.CaseEnumerated(name, nt, labels...)
						if nt && stats.WantSample(name) {
							stats.Sample(name, map[string]any{"case": c.key(), "labels": labels})
						}
					}
				}
			}
		}
	}
	stats.Exhaustive(name)
}

func allPairs() (out [][2]string) {
	for _, a := range keys.Types {
		for _, b := range keys.Types {
			out = append(out, [2]string{a, b})
		}
	}
	return
}

// TestNoiseFlipExhaustive: every byte position of all three Noise handshake messages
// (length prefix included). quick: Ed25519/Ed25519; thorough: all 16 key-type pairs.
func TestNoiseFlipExhaustive(t *testing.T) {
	pairs := hx.Pick([][2]string{{"ed25519", "ed25519"}, {"secp256k1", "ecdsa"}, {"ecdsa", "rsa"}}, allPairs())
	masks := hx.Pick([]byte{0x01}, []byte{0x01, 0x80})
	flipExhaustive(t, pNoise, pairs, masks)
}

// TestTLSFlipExhaustive: every byte position of every TLS handshake record. quick:
// Ed25519/Ed25519; thorough: four key-type pairs covering all four types on both sides.
func TestTLSFlipExhaustive(t *testing.T) {
	pairs := hx.Pick([][2]string{{"ed25519", "ed25519"}}, [][2]string{{"ed25519", "ed25519"}, {"rsa", "ecdsa"}, {"secp256k1", "rsa"}, {"ecdsa", "secp256k1"}})
	flipExhaustive(t, pTLS, pairs, []byte{0x01})
}
