package c01

import (
	"fmt"

	"github.com/libp2p/go-libp2p/core/peer"
	mh "github.com/multiformats/go-multihash"
	"pgregory.net/rapid"
)

// The statement: "when the local side named the peer it expects, the handshake succeeds
// only if that peer ID matches". peer.ID is a string type: "naming a peer" is handing over
// ANY non-empty byte string, not only the ID of some key. This file generates the named ID
// as an arbitrary non-empty byte string that is NOT the genuine remote's ID -- next to the
// well-formed wrong IDs ("other", "self") of the original matrix:
//
//	trunc   the genuine ID with trailing (or leading) bytes cut off
//	extra   the genuine ID plus stray trailing (or leading) byte(s)
//	badhdr  the genuine ID with its multihash header corrupted (hash code / length field)
//	flip    the genuine ID with one digest bit flipped (well-formed, near miss)
//	label   a free-form label: peer.ID("victim"), the ID's own base58 text, ...
//	bytes   arbitrary non-empty bytes
//
// The oracle (side.accepts) needs nothing new: a named peer is satisfied only by the
// byte-identical genuine ID.

// namedKinds are the classes above, in the order used by the enumerating tests.
var namedKinds = []string{"trunc", "extra", "badhdr", "flip", "label", "bytes"}

func isNamedKind(kind string) bool {
	for _, k := range namedKinds {
		if k == kind {
			return true
		}
	}
	return false
}

// fixedNamedID returns representative v (0..namedVariants-1) of a class, derived from the
// genuine remote's ID (deterministic: for the enumerated matrix).
const namedVariants = 2

func fixedNamedID(kind string, genuine peer.ID, v int) peer.ID {
	g := string(genuine)
	var out string
	switch kind {
	case "trunc":
		out = [...]string{g[:len(g)-1], g[:2]}[v%2]
	case "extra":
		out = [...]string{g + "\x00", g + "/x"}[v%2]
	case "badhdr":
		b := []byte(g)
		if v%2 == 0 {
			b[1]++ // length field one too large
		} else {
			b[0] ^= 0x40 // another hash function code
		}
		out = string(b)
	case "flip":
		b := []byte(g)
		if v%2 == 0 {
			b[len(b)-1] ^= 0x01
		} else {
			b[2] ^= 0x80
		}
		out = string(b)
	case "label":
		out = [...]string{"victim", genuine.String()}[v%2]
	case "bytes":
		out = [...]string{"\x00", "\xff\xfe\xfd\xfc\xfb\xfa\xf9\xf8\xf7\xf6\xf5\xf4\xf3\xf2\xf1\xf0\x12\x20"}[v%2]
	default:
		panic("fixedNamedID: unknown kind " + kind)
	}
	return notGenuine(out, genuine)
}

// drawNamedID draws a member of a class, derived from the genuine remote's ID.
func drawNamedID(rt *rapid.T, kind string, genuine peer.ID, tag string) peer.ID {
	g := []byte(genuine)
	var out []byte
	switch kind {
	case "trunc":
		n := rapid.IntRange(1, len(g)-1).Draw(rt, tag+"-keep")
		if rapid.IntRange(0, 3).Draw(rt, tag+"-front") == 0 {
			out = g[len(g)-n:]
		} else {
			out = g[:n]
		}
	case "extra":
		stray := rapid.SliceOfN(rapid.Byte(), 1, 3).Draw(rt, tag+"-stray")
		if rapid.IntRange(0, 3).Draw(rt, tag+"-front") == 0 {
			out = append(append([]byte(nil), stray...), g...)
		} else {
			out = append(append([]byte(nil), g...), stray...)
		}
	case "badhdr":
		out = append([]byte(nil), g...)
		at := rapid.IntRange(0, 1).Draw(rt, tag+"-field") // 0: hash function code, 1: digest length
		out[at] ^= byte(rapid.IntRange(1, 255).Draw(rt, tag+"-xor"))
	case "flip":
		out = append([]byte(nil), g...)
		out[rapid.IntRange(2, len(g)-1).Draw(rt, tag+"-at")] ^= byte(1 << rapid.IntRange(0, 7).Draw(rt, tag+"-bit"))
	case "label":
		switch rapid.IntRange(0, 3).Draw(rt, tag+"-form") {
		case 0:
			out = []byte(genuine.String()) // the base58 text used as if it were the ID
		case 1:
			out = []byte(fmt.Sprintf("%x", g)) // hex text
		default:
			out = []byte(rapid.StringMatching(`[a-zA-Z0-9 ._/-]{1,24}`).Draw(rt, tag+"-text"))
		}
	case "bytes":
		out = rapid.SliceOfN(rapid.Byte(), 1, 48).Draw(rt, tag+"-bytes")
	default:
		panic("drawNamedID: unknown kind " + kind)
	}
	return notGenuine(string(out), genuine)
}

// notGenuine keeps the construction honest: the result is non-empty and differs from the
// genuine ID (a coincidence is repaired, not rejected).
func notGenuine(s string, genuine peer.ID) peer.ID {
	if s == "" || s == string(genuine) {
		s += "\x01"
	}
	return peer.ID(s)
}

// namedShape labels a named ID by what it is as a byte string (evidence only; the oracle
// does not look at it).
func namedShape(id peer.ID) string {
	if id == "" {
		return "empty"
	}
	if _, err := mh.Cast([]byte(id)); err != nil {
		return "not-a-multihash"
	}
	return "well-formed-multihash"
}
