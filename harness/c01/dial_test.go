package c01

import (
	"context"
	"errors"
	"fmt"
	"net"
	"strings"
	"sync"
	"testing"
	"testing/synctest"
	"time"

	"github.com/libp2p/go-libp2p/core/network"
	"github.com/libp2p/go-libp2p/core/peer"
	"github.com/libp2p/go-libp2p/core/sec"
	"github.com/libp2p/go-libp2p/core/transport"
	"github.com/libp2p/go-libp2p/p2p/host/eventbus"
	"github.com/libp2p/go-libp2p/p2p/host/peerstore/pstoremem"
	"github.com/libp2p/go-libp2p/p2p/muxer/yamux"
	"github.com/libp2p/go-libp2p/p2p/net/swarm"
	tptu "github.com/libp2p/go-libp2p/p2p/net/upgrader"
	"github.com/libp2p/go-libp2p/p2p/security/noise"
	libp2ptls "github.com/libp2p/go-libp2p/p2p/security/tls"
	ma "github.com/multiformats/go-multiaddr"
	manet "github.com/multiformats/go-multiaddr/net"
	"pgregory.net/rapid"

	"verif/internal/hx"
	"verif/internal/keys"
	"verif/internal/memnet"
	"verif/internal/scripted"
	"verif/internal/stats"
)

// Domain F: a dial for peer P never hands the application a connection authenticated as
// anyone other than P -- neither as the return value of DialPeer, nor through a
// Connected notification, nor through the swarm's connection table.

type connEvent struct {
	connected bool
	remote    peer.ID
}

type recNotifiee struct {
	mu     sync.Mutex
	events []connEvent
}

func (r *recNotifiee) Listen(network.Network, ma.Multiaddr)      {}
func (r *recNotifiee) ListenClose(network.Network, ma.Multiaddr) {}
func (r *recNotifiee) Connected(_ network.Network, c network.Conn) {
	r.mu.Lock()
	r.events = append(r.events, connEvent{true, c.RemotePeer()})
	r.mu.Unlock()
}
func (r *recNotifiee) Disconnected(_ network.Network, c network.Conn) {
	r.mu.Lock()
	r.events = append(r.events, connEvent{false, c.RemotePeer()})
	r.mu.Unlock()
}

var dialAddrForms = []struct {
	name string
	mk   func(i int) string
}{
	{"tcp", func(i int) string { return fmt.Sprintf("/ip4/10.7.0.%d/tcp/4001", 1+i) }},
	{"quic", func(i int) string { return fmt.Sprintf("/ip4/10.7.1.%d/udp/4001/quic-v1", 1+i) }},
	{"ws", func(i int) string { return fmt.Sprintf("/ip4/10.7.2.%d/tcp/4001/ws", 1+i) }},
	{"webtransport", func(i int) string { return fmt.Sprintf("/ip4/10.7.3.%d/udp/4001/quic-v1/webtransport", 1+i) }},
	{"circuit", func(i int) string {
		return fmt.Sprintf("/ip4/10.7.4.%d/tcp/4001/p2p/%s/p2p-circuit", 1+i, keys.Ed(40+i).ID)
	}},
}

type dialAddr struct {
	Form   int    `json:"form"`
	Answer string `json:"answer"` // "P" (genuine), "Q" (someone else), "self" (the dialer's own ID), "fail"
	Delay  int    `json:"delay_ms"`
}

// checkNoForeignConn is the shared oracle of both dial-level tests.
func checkNoForeignConn(f failer, ctx string, sw *swarm.Swarm, rec *recNotifiee, P peer.ID, conn network.Conn, err error, anyGenuine bool) {
	if conn != nil && err != nil {
		f.Fatalf("%s: DialPeer returned both a connection and an error (%v)", ctx, err)
	}
	if conn != nil && conn.RemotePeer() != P {
		f.Fatalf("%s: DialPeer(%s) returned a connection authenticated as %s", ctx, P, conn.RemotePeer())
	}
	if conn != nil && !anyGenuine {
		f.Fatalf("%s: DialPeer(%s) returned a connection although nobody answered as that peer", ctx, P)
	}
	if conn == nil && err == nil {
		f.Fatalf("%s: DialPeer returned neither connection nor error", ctx)
	}
	rec.mu.Lock()
	evs := append([]connEvent(nil), rec.events...)
	rec.mu.Unlock()
	for _, e := range evs {
		if e.connected && e.remote != P {
			f.Fatalf("%s: the dial for %s produced a Connected notification for %s", ctx, P, e.remote)
		}
	}
	for _, c := range sw.Conns() {
		if c.RemotePeer() != P {
			f.Fatalf("%s: the dial for %s left a connection to %s in the swarm", ctx, P, c.RemotePeer())
		}
	}
	for _, p := range sw.Peers() {
		if p != P {
			f.Fatalf("%s: the dial for %s made %s a connected peer", ctx, P, p)
		}
	}
}

// TestDialScripted: a scripted transport answers the dial for P as Q (or as the dialer
// itself); real swarm.
func TestDialScripted(t *testing.T) {
	name := t.Name()
	hx.Check(t, 500, 40000, 0, func(rt *rapid.T) {
		n := rapid.IntRange(1, 3).Draw(rt, "naddrs")
		addrs := make([]dialAddr, n)
		for i := range addrs {
			addrs[i] = dialAddr{
				Form:   rapid.IntRange(0, len(dialAddrForms)-1).Draw(rt, "form"),
				Answer: rapid.SampledFrom([]string{"Q", "Q", "Q", "self", "fail", "P"}).Draw(rt, "answer"),
				Delay:  rapid.IntRange(0, 5).Draw(rt, "delay") * 100,
			}
		}
		updater := rapid.Bool().Draw(rt, "updater")
		second := rapid.Bool().Draw(rt, "dialTwice")
		local, P, Q := keys.Ed(0), keys.Ed(1), keys.Get(rapid.SampledFrom(keys.Types[:3]).Draw(rt, "qtype"), 2)
		anyGenuine, anyForeign := false, false
		for _, a := range addrs {
			anyGenuine = anyGenuine || a.Answer == "P"
			anyForeign = anyForeign || a.Answer == "Q" || a.Answer == "self"
		}
		hx.Bubble(t, rt, func() {
			ps, err := pstoremem.NewPeerstore()
			if err != nil {
				rt.Fatalf("peerstore: %v", err)
			}
			defer ps.Close()
			byAddr := map[string]dialAddr{}
			w := scripted.NewWorld()
			set := scripted.NewSet(w, local.ID, func(a ma.Multiaddr, p peer.ID, k int) scripted.Script {
				da := byAddr[a.String()]
				sc := scripted.Script{Outcome: scripted.Succeed, Delay: time.Duration(da.Delay) * time.Millisecond}
				switch da.Answer {
				case "Q":
					sc.AsPeer = Q.ID
				case "self":
					sc.AsPeer = local.ID
				case "fail":
					sc.Outcome = scripted.Fail
				}
				return sc
			})
			sw, err := swarm.NewSwarm(local.ID, ps, eventbus.NewBus())
			if err != nil {
				rt.Fatalf("swarm: %v", err)
			}
			defer sw.Close()
			rec := &recNotifiee{}
			sw.Notify(rec)
			for _, tr := range set.All() {
				var tt transport.Transport = tr
				if updater {
					tt = scripted.Updater{Transport: tr}
				}
				if err := sw.AddTransport(tt); err != nil {
					rt.Fatalf("add transport: %v", err)
				}
			}
			var mas []ma.Multiaddr
			for i, a := range addrs {
				m := ma.StringCast(dialAddrForms[a.Form].mk(i))
				byAddr[m.String()] = a
				mas = append(mas, m)
			}
			ps.AddAddrs(P.ID, mas, time.Hour)
			rounds := 1
			if second {
				rounds = 2
			}
			for r := 0; r < rounds; r++ {
				ctx, cancel := context.WithTimeout(context.Background(), time.Minute)
				conn, err := sw.DialPeer(ctx, P.ID)
				cancel()
				synctest.Wait()
				cx := fmt.Sprintf("round %d addrs=%+v updater=%v", r, addrs, updater)
				checkNoForeignConn(rt, cx, sw, rec, P.ID, conn, err, anyGenuine)
				// every connection the transport produced for somebody else must have been closed
				for _, d := range w.Snapshot() {
					if d.Conn != nil && d.Conn.Remote != P.ID && !d.Conn.IsClosed() {
						rt.Fatalf("%s: connection authenticated as %s (dial of %s at %s) was not closed", cx, d.Conn.Remote, P.ID, d.Addr)
					}
				}
				if conn != nil {
					conn.Close()
					synctest.Wait()
				}
				sw.Backoff().Clear(P.ID)
			}
		})
		labels := []string{fmt.Sprintf("addrs:%d", n)}
		if anyGenuine {
			labels = append(labels, "some-genuine")
		}
		for _, a := range addrs {
			labels = append(labels, "answer:"+a.Answer, "via:"+dialAddrForms[a.Form].name)
		}
		stats.Case(name, fmt.Sprintf("%+v|%v|%v|%s", addrs, updater, second, Q.Type), anyForeign, labels...)
		if stats.WantSample(name) {
			stats.Sample(name, map[string]any{"addrs": addrs, "updater": updater, "q": Q.Type})
		}
	})
}

// ---------------------------------------------------------------------------
// the real upgrader (multistream-select + Noise/TLS + yamux) over in-memory pipes

type memNetwork struct {
	mu sync.Mutex
	at map[string]*memTransport
}

// memTransport is a transport.Transport whose bytes travel over memnet and whose
// connection setup is the repo's upgrader, in both directions.
type memTransport struct {
	me    *keys.Identity
	up    transport.Upgrader
	nw    *memNetwork
	mu    sync.Mutex
	raw   []*memnet.Conn          // dial-side raw connections
	rawTo []*memTransport         // who answered each of them
	in    []transport.CapableConn // completed inbound upgrades
	wg    sync.WaitGroup
}

func newMemTransport(nw *memNetwork, me *keys.Identity, secs []string) (*memTransport, error) {
	var sts []sec.SecureTransport
	muxers := []tptu.StreamMuxer{{ID: yamux.ID, Muxer: yamux.DefaultTransport}}
	for _, s := range secs {
		switch s {
		case pNoise:
			st, err := noise.New(noise.ID, me.Priv, muxers)
			if err != nil {
				return nil, err
			}
			sts = append(sts, st)
		case pTLS:
			st, err := libp2ptls.New(libp2ptls.ID, me.Priv, muxers)
			if err != nil {
				return nil, err
			}
			sts = append(sts, st)
		}
	}
	up, err := tptu.New(sts, muxers, nil, nil, nil)
	if err != nil {
		return nil, err
	}
	return &memTransport{me: me, up: up, nw: nw}, nil
}

func (t *memTransport) Dial(ctx context.Context, raddr ma.Multiaddr, p peer.ID) (transport.CapableConn, error) {
	t.nw.mu.Lock()
	remote := t.nw.at[raddr.String()]
	t.nw.mu.Unlock()
	if remote == nil {
		return nil, errors.New("memTransport: connection refused")
	}
	rna, err := manet.ToNetAddr(raddr)
	if err != nil {
		return nil, err
	}
	ca, cb := memnet.Pipe(memnet.Options{LocalAddr: &net.TCPAddr{IP: net.IPv4(10, 9, 0, 1), Port: 5555}, RemoteAddr: rna})
	t.mu.Lock()
	t.raw = append(t.raw, ca)
	t.rawTo = append(t.rawTo, remote)
	t.mu.Unlock()
	mca, err := manet.WrapNetConn(ca)
	if err != nil {
		return nil, err
	}
	mcb, err := manet.WrapNetConn(cb)
	if err != nil {
		return nil, err
	}
	remote.wg.Add(1)
	go func() {
		defer remote.wg.Done()
		actx, cancel := context.WithTimeout(context.Background(), 15*time.Second)
		defer cancel()
		c, err := remote.up.Upgrade(actx, remote, mcb, network.DirInbound, "", &network.NullScope{})
		if err != nil {
			cb.Close()
			return
		}
		remote.mu.Lock()
		remote.in = append(remote.in, c)
		remote.mu.Unlock()
	}()
	return t.up.Upgrade(ctx, t, mca, network.DirOutbound, p, &network.NullScope{})
}

func (t *memTransport) CanDial(a ma.Multiaddr) bool {
	_, err := a.ValueForProtocol(ma.P_TCP)
	return err == nil
}
func (t *memTransport) Listen(ma.Multiaddr) (transport.Listener, error) {
	return nil, errors.New("memTransport: no listeners")
}
func (t *memTransport) Protocols() []int { return []int{ma.P_TCP} }
func (t *memTransport) Proxy() bool      { return false }

// TestDialRealUpgrader: P is dialled through a real swarm at addresses where Q (or P)
// answers with the real upgrader; security protocol lists drawn per side.
func TestDialRealUpgrader(t *testing.T) {
	warm()
	name := t.Name()
	secLists := [][]string{{pNoise}, {pTLS}, {pNoise, pTLS}, {pTLS, pNoise}}
	hx.Check(t, 200, 6000, 0, func(rt *rapid.T) {
		tp := rapid.SampledFrom(keys.Types).Draw(rt, "ptype")
		tq := rapid.SampledFrom(keys.Types).Draw(rt, "qtype")
		local, P, Q := keys.Ed(5), keys.Get(tp, 0), keys.Get(tq, 2)
		dsec := rapid.SampledFrom(secLists).Draw(rt, "dialerSec")
		asec := rapid.SampledFrom(secLists).Draw(rt, "answerSec")
		n := rapid.IntRange(1, 2).Draw(rt, "naddrs")
		answers := make([]string, n)
		anyGenuine, anyForeign := false, false
		for i := range answers {
			answers[i] = rapid.SampledFrom([]string{"Q", "Q", "P", "nobody"}).Draw(rt, "answer")
			anyGenuine = anyGenuine || answers[i] == "P"
			anyForeign = anyForeign || answers[i] == "Q"
		}
		// the peer the dial names: P's ID, or (1 in 5) a non-empty byte string that is nobody's ID, derived from
		// the ID of whoever answers at the first address
		named, namedClass := P.ID, "P"
		if rapid.IntRange(0, 4).Draw(rt, "named") == 0 {
			namedClass = rapid.SampledFrom(namedKinds).Draw(rt, "namedClass")
			resident := P.ID
			if answers[0] == "Q" {
				resident = Q.ID
			}
			named = drawNamedID(rt, namedClass, resident, "named")
			if named == P.ID || named == Q.ID || named == local.ID {
				named += "\x01"
			}
		}
		namesP := named == P.ID
		common, result := false, ""
		for _, a := range dsec {
			for _, b := range asec {
				common = common || a == b
			}
		}
		hx.Bubble(t, rt, func() {
			nw := &memNetwork{at: map[string]*memTransport{}}
			dt, err := newMemTransport(nw, local, dsec)
			if err != nil {
				rt.Fatalf("transport: %v", err)
			}
			pt, err := newMemTransport(nw, P, asec)
			if err != nil {
				rt.Fatalf("transport: %v", err)
			}
			qt, err := newMemTransport(nw, Q, asec)
			if err != nil {
				rt.Fatalf("transport: %v", err)
			}
			ps, err := pstoremem.NewPeerstore()
			if err != nil {
				rt.Fatalf("peerstore: %v", err)
			}
			defer ps.Close()
			sw, err := swarm.NewSwarm(local.ID, ps, eventbus.NewBus())
			if err != nil {
				rt.Fatalf("swarm: %v", err)
			}
			rec := &recNotifiee{}
			sw.Notify(rec)
			if err := sw.AddTransport(dt); err != nil {
				rt.Fatalf("add transport: %v", err)
			}
			var mas []ma.Multiaddr
			for i, a := range answers {
				m := ma.StringCast(fmt.Sprintf("/ip4/10.8.0.%d/tcp/4001", i+1))
				mas = append(mas, m)
				switch a {
				case "P":
					nw.at[m.String()] = pt
				case "Q":
					nw.at[m.String()] = qt
				}
			}
			ps.AddAddrs(named, mas, time.Hour)
			ctx, cancel := context.WithTimeout(context.Background(), time.Minute)
			conn, err := sw.DialPeer(ctx, named)
			cancel()
			synctest.Wait()
			cx := fmt.Sprintf("answers=%v dialerSec=%v answerSec=%v p=%s q=%s named=%s %x", answers, dsec, asec, tp, tq, namedClass, string(named))
			checkNoForeignConn(rt, cx, sw, rec, named, conn, err, anyGenuine && namesP)
			switch {
			case conn != nil:
				result = "connected-to-P"
			case strings.Contains(err.Error(), "peer id mismatch"):
				result = "refused:peer-id-mismatch"
			default:
				result = "refused:other"
			}
			if anyGenuine && !anyForeign && common && conn == nil && namesP && !noConverse {
				rt.Fatalf("%s: the genuine peer answered but the dial failed: %v", cx, err)
			}
			// the connection on which Q answered must have been closed by the dialer
			dt.mu.Lock()
			for i, c := range dt.raw {
				if (dt.rawTo[i] == qt || !namesP) && !c.Closed() {
					rt.Fatalf("%s: the raw connection on which somebody other than the named peer answered the dial was left open", cx)
				}
			}
			dt.mu.Unlock()
			qt.wg.Wait()
			pt.wg.Wait()
			sw.Close()
			for _, tr := range []*memTransport{dt, pt, qt} {
				tr.mu.Lock()
				for _, c := range tr.in {
					c.Close()
				}
				for _, c := range tr.raw {
					c.Close()
				}
				tr.mu.Unlock()
			}
			synctest.Wait()
		})
		labels := []string{"dialer:" + fmt.Sprint(dsec), "answerer:" + fmt.Sprint(asec), "ptype:" + tp, "qtype:" + tq, "result:" + result, "named:" + namedClass}
		if !namesP {
			labels = append(labels, "named-wrong:swarm-dial/"+namedShape(named))
		}
		if !common {
			labels = append(labels, "no-common-security-protocol")
		}
		for _, a := range answers {
			labels = append(labels, "answer:"+a)
		}
		stats.Case(name, fmt.Sprintf("%v|%v|%v|%s|%s|%s|%x", answers, dsec, asec, tp, tq, namedClass, string(named)), anyForeign || (!namesP && (anyGenuine || anyForeign)), labels...)
		if stats.WantSample(name) {
			stats.Sample(name, map[string]any{"answers": answers, "dialerSec": dsec, "answerSec": asec, "p": tp, "q": tq})
		}
	})
}
