package c01

import (
	"bytes"
	"sync"
	"testing"
	"testing/synctest"
	"time"

	"github.com/flynn/noise"

	"verif/internal/keys"
	"verif/internal/memnet"
	"verif/internal/stats"
	"verif/internal/wire"
)

// FuzzNoiseHandshakeStream feeds arbitrary bytes to an honest Noise endpoint, in two ways
// selected by ctl:
//
//	raw     : data is the peer's entire byte stream (length prefixes and all). Nobody who
//	          holds a private key is at the other end, and the honest side's ephemeral key is
//	          fresh, so NO completion is acceptable.
//	payload : a real Noise XX peer (flynn/noise, fixed static key S) sends data as its
//	          handshake payload. The attacker holds the identities Ed(2) and Ed(3); the seed
//	          corpus contains their valid payloads over S (Ed25519 signatures are deterministic,
//	          so these bytes are stable across processes) and payloads carrying the victim's
//	          (Ed(0)) key with genuine victim signatures over OTHER static keys. A completion is
//	          acceptable only as Ed(2)/Ed(3), with RemotePublicKey() equal to that key and the
//	          honest side's own expectation satisfied.
//
// ctl bit 0: honest side is the initiator; bit 1: payload mode; bits 2-3: expectation
// (0 victim named, 1 empty/check disabled, 2 Ed(2) named, 3 check disabled + victim named).
func FuzzNoiseHandshakeStream(f *testing.F) {
	static := fuzzStatic()
	V, M, M3 := keys.Ed(0), keys.Ed(2), keys.Ed(3)
	other := append([]byte(nil), static.Public...)
	other[0] ^= 1
	seeds := [][]byte{
		honestPayload(M, static),
		honestPayload(M3, static),
		encodeFields(pbField{1, mustMarshalPub(V.Pub)}, pbField{2, mustSign(M.Priv, append([]byte(noisePrefix), static.Public...))}),
		encodeFields(pbField{1, mustMarshalPub(V.Pub)}, pbField{2, mustSign(V.Priv, append([]byte(noisePrefix), other...))}),
		encodeFields(pbField{1, mustMarshalPub(V.Pub)}, pbField{2, mustSign(V.Priv, append([]byte(tlsPrefix), static.Public...))}),
		append(honestPayload(M, static), encodeFields(pbField{1, mustMarshalPub(V.Pub)})...),
		encodeFields(pbField{1, mustMarshalPub(V.Pub)}),
		{},
	}
	for _, s := range seeds {
		for _, ctl := range []byte{2, 3, 6, 7, 10, 11, 14, 15} {
			f.Add(ctl, s)
		}
	}
	// raw streams: a genuine recorded stream of each direction (replayed against a fresh ephemeral key)
	var rec [2][]byte
	func() {
		a := &side{Me: M, Initiator: true, Kind: "match", Expect: V.ID}
		b := &side{Me: V, Kind: "empty"}
		ca, cb, m := spliced(framing(pNoise), nil)
		runPair(pNoise, a, b, ca, cb, mkNonce(1))
		for d := wire.AtoB; d <= wire.BtoA; d++ {
			for _, fr := range m.Frames(d) {
				rec[d] = append(rec[d], fr...)
			}
		}
		ca.Close()
		cb.Close()
		m.Close()
		m.Wait()
	}()
	for _, ctl := range []byte{0, 4, 8} {
		f.Add(ctl, rec[0])
		f.Add(ctl|1, rec[1])
	}
	f.Add(byte(0), []byte{0, 32, 1, 2, 3})
	f.Add(byte(1), bytes.Repeat([]byte{0xff}, 70))

	f.Fuzz(func(t *testing.T, ctl byte, data []byte) { fuzzOne(t, ctl, data) })
}

// fuzzOne is the body of the fuzz target; it returns the identity the honest side
// completed with (nil: no completion).
func fuzzOne(t *testing.T, ctl byte, data []byte) *keys.Identity {
	static := fuzzStatic()
	V, M, M3 := keys.Ed(0), keys.Ed(2), keys.Ed(3)
	{
		if len(data) > 4096 {
			return nil
		}
		honestInit := ctl&1 == 1
		payloadMode := ctl&2 == 2
		h := &side{Me: keys.Ed(1), Initiator: honestInit}
		switch (ctl >> 2) & 3 {
		case 0:
			h.Kind, h.Expect = "victim", V.ID
		case 1:
			h.Kind = "empty"
			h.Disable = honestInit
		case 2:
			h.Kind, h.Expect = "attacker", M.ID
		case 3:
			h.Kind, h.Expect, h.Disable = "victim", V.ID, true
		}
		o := &outcome{}
		nonce := mkNonce(7)
		synctest.Test(t, func(*testing.T) {
			ch, cm := memnet.Pipe(memnet.Options{})
			var wg sync.WaitGroup
			wg.Add(1)
			go func() {
				defer wg.Done()
				ctx, cancel := contextWithTimeout()
				defer cancel()
				h.run(ctx, pNoise, ch, nonce, o)
			}()
			if payloadMode {
				att := &noiseAttacker{initiator: !honestInit, static: &static, payload: func(noise.DHKey) []byte { return data }}
				att.run(cm, nonce)
			} else {
				cm.Write(data)
				cm.CloseWrite()
				cm.SetReadDeadline(time.Now().Add(3 * handshakeTimeout))
				buf := make([]byte, 1024)
				for {
					if _, err := cm.Read(buf); err != nil {
						break
					}
				}
			}
			cm.Close()
			wg.Wait()
			ch.Close()
		})
		if !o.hsOK {
			return nil
		}
		if !payloadMode {
			t.Fatalf("honest %s completed a handshake against a fixed byte stream (reports %s)", h, o.remotePeer)
		}
		var who *keys.Identity
		for _, id := range []*keys.Identity{M, M3} {
			if o.remotePeer == id.ID {
				who = id
			}
		}
		if who == nil {
			t.Fatalf("honest %s completed and reports %s, an identity whose private key the attacker does not hold (payload %x)", h, o.remotePeer, data)
		}
		checkIdentity(t, "fuzz", pNoise, h, o, who, true)
		checkNoGarbage(t, "fuzz", h, o)
		stats.Label("FuzzNoiseHandshakeStream", "completed-as-attacker-held-identity")
		return who
	}
}

// TestFuzzTargetSanity makes sure the fuzz target is not vacuous: the valid seed payloads
// do complete (as the attacker-held identity) and the victim-named / raw variants do not.
func TestFuzzTargetSanity(t *testing.T) {
	static := fuzzStatic()
	M := keys.Ed(2)
	for _, ctl := range []byte{6, 7, 10, 11, 15} {
		if who := fuzzOne(t, ctl, honestPayload(M, static)); who != M && !noConverse {
			t.Fatalf("ctl=%d: the attacker's own valid payload was not accepted", ctl)
		}
	}
	for _, ctl := range []byte{2, 3} {
		if who := fuzzOne(t, ctl, honestPayload(M, static)); who != nil {
			t.Fatalf("ctl=%d: accepted although the victim was named", ctl)
		}
	}
	stats.CaseEnumerated(t.Name(), false, "fuzz-target-sane")
}

func fuzzStatic() noise.DHKey {
	kp, err := noise.DH25519.GenerateKeypair(keys.Reader("c01/fuzz-static"))
	if err != nil {
		panic(err)
	}
	return kp
}
