// Package c01 checks property C01: security handshakes (Noise, TLS) authenticate the
// remote peer's identity, reject altered / truncated / replayed / re-signed handshake
// data, and a dial for peer P never yields a connection authenticated as someone else.
package c01

import (
	"bytes"
	"context"
	"fmt"
	"io"
	"log/slog"
	"net"
	"os"
	"sync"
	"testing"
	"time"

	ic "github.com/libp2p/go-libp2p/core/crypto"
	"github.com/libp2p/go-libp2p/core/peer"
	"github.com/libp2p/go-libp2p/core/sec"
	logging "github.com/libp2p/go-libp2p/gologshim"
	tptu "github.com/libp2p/go-libp2p/p2p/net/upgrader"
	"github.com/libp2p/go-libp2p/p2p/security/noise"
	libp2ptls "github.com/libp2p/go-libp2p/p2p/security/tls"

	"pgregory.net/rapid"

	"verif/internal/hx"
	"verif/internal/keys"
	"verif/internal/memnet"
	"verif/internal/stats"
	"verif/internal/wire"
)

func TestMain(m *testing.M) {
	logging.SetDefaultHandler(slog.DiscardHandler) // the swarm logs every refused connection at error level
	stats.Describe("exploration",
		"A: the honest matrix (key type of each side x role x expected-peer setting x prologue pairing x {noise,tls}) is enumerated; "+
			"B/E: one man-in-the-middle edit per case (flip byte i of handshake frame m -- all positions enumerated --, truncate, extend, drop, "+
			"duplicate, swap with a concurrent session, replay from an earlier session, INSERT 1-3 frames of the attacker's own in front of handshake frame m or behind the "+
			"last one -- every position of both directions enumerated x payload length 0 (Noise: the bytes 00 00; TLS: a header with length 0), 1, 2, short, the displaced frame's "+
			"length -1/+0/+1, the framing's maximum x fill zero / constant / copy of the displaced frame x for TLS record type 20/21/22/23/unknown/same as the next record; "+
			"labels ins-len:*, ins-empty-frame@<position>, ins-type:*) between two honest endpoints over in-memory pipes; "+
			"C: an active attacker speaking Noise XX through flynn/noise sends substituted payloads; D: forged certificates (libp2p extension "+
			"mutated) go into PubKeyFromCertChain and through full TLS 1.3 handshakes against a plain crypto/tls attacker; F: a real swarm dials P "+
			"and the transport answers as Q; F/QUIC: the QUIC transport's own Dial for P over simulated UDP in each of its roles (plain, simultaneous-connect "+
			"client, simultaneous-connect server = hole punch) while P, another peer Q or nobody lives at the dialled ip:port and P and/or Q connect to the "+
			"dialer's listener from their listening sockets after a drawn delay; H: session histories inside one verifying process -- 1-3 honest sessions of a "+
			"verifier with the victim, a bystander or the attacker's own identity (verifier in either role; the peer is the library's transport or a "+
			"spec-level endpoint with one long-lived certificate / Noise static key), then 1-2 attacks that present the certificate / libp2p extension / Noise "+
			"payload OBSERVED from those peers again under a certificate key / static key of the attacker's own (whole, re-wrapped, or mixed field by field); "+
			"G: a remote that holds key M and signs correctly with it presents M's public key in a non-canonical but valid encoding inside the Noise payload / "+
			"TLS certificate extension: 0-3 drawn operators on the PublicKey protobuf (unknown field of any wire type / number class at any place, fields reordered, "+
			"repeated Type / Data with the last occurrence genuine, over-long varints in tag / length / value, high bits on the enum varint, uncompressed / hybrid "+
			"secp256k1 point or BER length form for Data) and 0-1 on the Noise payload message, for every remote key type (RSA weighted double), both verifying roles and "+
			"expected peer empty / M's ID / another ID / the alias ID obtained by hashing the presented bytes / check disabled; judged by the identity oracle only "+
			"(completion => RemotePeer() is the canonical ID of M, RemotePublicKey() is M's key, the named peer is that ID). "+
			"N: the NAMED (expected) peer is an arbitrary byte string, not only the ID of some key: next to empty / the genuine ID / the well-formed ID of "+
			"another key, a non-empty string that is not the genuine ID -- the genuine ID truncated (front or back, any length), with 1-3 stray bytes appended / "+
			"prepended, with its multihash code or length byte corrupted, with one digest bit flipped, a free-form label (\"victim\", the ID's base58 or hex text), "+
			"arbitrary 1-48 bytes; two fixed representatives per class are enumerated in the honest matrix (Noise and TLS, every key-type pair, naming side = "+
			"initiator or responder) and drawn members go through SecureOutbound / SecureInbound (TestHonestRandom, also with the Noise check disabled), the upgrader "+
			"in both directions, Identity.ConfigForPeer under plain crypto/tls the way QUIC / WebTransport use it (dialer config for the named peer, listener config "+
			"per connection), the QUIC transport's Dial in its three roles and the swarm's DialPeer over the real upgrader; oracle: a side that named a non-empty ID "+
			"completes only if the genuine remote ID is byte-identical to it (label named-wrong:<path>/<direction>/<not-a-multihash|well-formed-multihash>). "+
			"S: forged identity proofs over signature ENCODINGS: the Noise payload / TLS certificate extension names the victim's public key and carries a signature over the "+
			"CORRECT message (right prefix, right static key / certificate key) made with a key that is NOT the named key (another key of the same type, weighted 4x, or a key of "+
			"another type), in the signer type's usual encoding or an alternative one -- Secp256k1: 65-byte compact/recoverable (both compressed flags, the 7 other recovery "+
			"headers), raw r||s, DER + 1-3 trailing bytes, BER long-form length, high S; ECDSA: raw r||s (IEEE P1363), DER + trailing bytes, BER long-form length, high S; "+
			"Ed25519: S + j*L (non-canonical scalar), 1-3 appended bytes, Ed25519ph, Ed25519ctx; RSA: PSS (salt = hash length / maximal), PKCS#1 v1.5 over SHA-512, without DigestInfo, "+
			"zero-prefixed, with appended bytes -- each first confirmed by a reference verifier (standard library / dcrd) to be a genuine signature by the signer in that form; presented to "+
			"the Noise and TLS transports in either role, to Identity.ConfigForPeer under plain crypto/tls (QUIC's use) and to PubKeyFromCertChain, with expected peer = victim / empty / "+
			"check disabled; oracle: whatever completes reports the SIGNER's identity, never the named one (labels forged-sig:*, forged-sig-named:<named type><-<signer type>/<form>); "+
			"1 case in 6 signs with the named key itself in the same forms: not judged, outcome recorded only (same-key-other-encoding:*). "+
			"A case is NON-TRIVIAL when a mismatch / edit / substitution is actually present (not the honest "+
			"baseline, and the edit hit and changed a frame); two cases are DISTINCT when (scenario, protocol, key types, role, settings, operator, "+
			"frame, position) differ.",
		"cryptographic strength of X25519/ChaChaPoly/SHA-256, the signature schemes, crypto/tls and crypto/x509 is assumed (trusted base)",
		"TLS record-header bytes of plaintext records and the ChangeCipherSpec compatibility record are unauthenticated by TLS 1.3 itself: edits there are judged by the identity oracle only",
		"bytes that arrive after a side's last handshake frame (duplicate / unframed extension of that frame) are post-handshake data: judged by the identity oracle plus 'no garbage delivered'",
		"a stalled handshake (virtual 10 s deadline) counts as a rejection",
		"inserted TLS records of type ChangeCipherSpec or alert are outside the TLS 1.3 handshake transcript (crypto/tls skips a well-formed CCS during the handshake and a warning alert before the version is negotiated): judged by the identity oracle only; every other inserted frame in front of a handshake frame is extended handshake data whose receiver must not complete",
		"QUIC is exercised at transport level for the dial-identity clause only (no wire edits); WebTransport / WebRTC reuse the same two mechanisms and are not exercised here",
		"TLS 1.3 encrypts certificates and Noise encrypts payloads: the attacker observes a library peer's material by talking to that same transport object under its own identity (a libp2p TLS transport presents one certificate to every peer); a spec-level peer's material is what the harness made it send",
	)
	hx.Main(m)
}

// noConverse (development aid for mutant analysis) switches off the liveness-style
// converse assertions ("the honest baseline completes"), leaving only the safety oracles.
var noConverse = os.Getenv("C01_NO_CONVERSE") != ""

const (
	pNoise = "noise"
	pTLS   = "tls"

	handshakeTimeout = 10 * time.Second
	echoTimeout      = 5 * time.Second
)

var muxerList = []tptu.StreamMuxer{{ID: "/yamux/1.0.0"}}

// side is one honest endpoint running the code under test.
type side struct {
	Me        *keys.Identity
	Initiator bool
	Expect    peer.ID // the p argument
	Kind      string  // how Expect relates to the genuine remote: match | other | self | empty
	Disable   bool    // noise: DisablePeerIDCheck
	Session   bool    // noise: go through WithSessionOptions even without options
	Prologue  []byte  // noise
	NoMuxers  bool
	NoEcho    bool // stop after the handshake and leave the connection open (dry runs)

	st sec.SecureTransport // created on first use (inside the bubble), reused by later sessions of the same case
}

func (s *side) String() string {
	r := "resp"
	if s.Initiator {
		r = "init"
	}
	d := ""
	if s.Disable {
		d = "+nocheck"
	}
	return fmt.Sprintf("%s/%s/%s%s", r, s.Me.Type, s.Kind, d)
}

// accepts reports whether this side's expected-peer setting is satisfied by the genuine
// remote identity (the part of the oracle that is about "named the peer it expects").
func (s *side) accepts(genuine peer.ID) bool {
	return s.Disable || s.Expect == "" || s.Expect == genuine
}

// mustAccept: settings for which the documentation promises acceptance of the genuine
// remote (used only for the converse on the honest baseline). A Noise initiator with an
// empty expected peer and the check enabled is documented nowhere to accept; it is left
// unconstrained.
func (s *side) mustAccept(proto string, genuine peer.ID) bool {
	if s.Disable || s.Expect == genuine {
		return true
	}
	if s.Expect == "" {
		return !s.Initiator || proto == pTLS
	}
	return false
}

func (s *side) transport(proto string) (sec.SecureTransport, error) {
	if s.st != nil {
		return s.st, nil
	}
	st, err := s.newTransport(proto)
	if err == nil {
		s.st = st
	}
	return st, err
}

func (s *side) newTransport(proto string) (sec.SecureTransport, error) {
	mux := muxerList
	if s.NoMuxers {
		mux = nil
	}
	switch proto {
	case pNoise:
		t, err := noise.New(noise.ID, s.Me.Priv, mux)
		if err != nil {
			return nil, err
		}
		if s.Session || s.Disable || s.Prologue != nil {
			var opts []noise.SessionOption
			if s.Prologue != nil {
				opts = append(opts, noise.Prologue(s.Prologue))
			}
			if s.Disable {
				opts = append(opts, noise.DisablePeerIDCheck())
			}
			return t.WithSessionOptions(opts...)
		}
		return t, nil
	case pTLS:
		// must be created inside the bubble: the certificate validity is relative to time.Now()
		return libp2ptls.New(libp2ptls.ID, s.Me.Priv, mux)
	}
	return nil, fmt.Errorf("unknown protocol %q", proto)
}

// outcome is what one side observed.
type outcome struct {
	hsOK       bool
	hsErr      error
	remotePeer peer.ID
	remoteKey  ic.PubKey
	localPeer  peer.ID
	echoOK     bool
	echoErr    error
	got, want  []byte // bytes delivered by the secured connection / bytes the peer sent
}

func (o *outcome) String() string {
	if o == nil {
		return "<none>"
	}
	if !o.hsOK {
		return fmt.Sprintf("handshake error: %v", o.hsErr)
	}
	if !o.echoOK {
		return fmt.Sprintf("handshake ok (remote=%s), echo error: %v", o.remotePeer, o.echoErr)
	}
	return fmt.Sprintf("handshake ok (remote=%s), echo ok", o.remotePeer)
}

func complement(b []byte) []byte {
	out := make([]byte, len(b))
	for i, x := range b {
		out[i] = ^x
	}
	return out
}

func mkNonce(seed uint64) []byte {
	b := make([]byte, 32)
	io.ReadFull(keys.Reader(fmt.Sprintf("nonce/%d", seed)), b)
	return b
}

// echo runs this side's half of the nonce echo over any secured stream: the initiator
// writes the nonce and reads its complement, the responder does the reverse.
func echo(c net.Conn, initiator bool, nonce []byte, o *outcome) {
	c.SetDeadline(time.Now().Add(echoTimeout))
	buf := make([]byte, len(nonce))
	if initiator {
		o.want = complement(nonce)
		if _, err := c.Write(nonce); err != nil {
			o.echoErr = fmt.Errorf("write: %w", err)
			return
		}
		n, err := io.ReadFull(c, buf)
		o.got = buf[:n]
		if err != nil {
			o.echoErr = fmt.Errorf("read: %w", err)
			return
		}
	} else {
		o.want = nonce
		n, err := io.ReadFull(c, buf)
		o.got = buf[:n]
		if err != nil {
			o.echoErr = fmt.Errorf("read: %w", err)
			return
		}
		if !bytes.Equal(o.got, o.want) {
			o.echoErr = fmt.Errorf("received wrong bytes")
			return
		}
		if _, err := c.Write(complement(nonce)); err != nil {
			o.echoErr = fmt.Errorf("write: %w", err)
			return
		}
	}
	if !bytes.Equal(o.got, o.want) {
		o.echoErr = fmt.Errorf("received wrong bytes")
		return
	}
	o.echoOK = true
}

// run performs the handshake and this side's half of the echo, then closes.
func (s *side) run(ctx context.Context, proto string, conn net.Conn, nonce []byte, o *outcome) {
	st, err := s.transport(proto)
	if err != nil {
		o.hsErr = fmt.Errorf("transport setup: %w", err)
		conn.Close()
		return
	}
	var c sec.SecureConn
	if s.Initiator {
		c, err = st.SecureOutbound(ctx, conn, s.Expect)
	} else {
		c, err = st.SecureInbound(ctx, conn, s.Expect)
	}
	if err != nil {
		o.hsErr = err
		conn.Close()
		return
	}
	o.hsOK = true
	o.remotePeer, o.remoteKey, o.localPeer = c.RemotePeer(), c.RemotePublicKey(), c.LocalPeer()
	if s.NoEcho {
		return
	}
	echo(c, s.Initiator, nonce, o)
	c.Close()
}

// runPair runs two honest sides against each other over the given connections.
func runPair(proto string, a, b *side, ca, cb net.Conn, nonce []byte) (*outcome, *outcome) {
	ctx, cancel := context.WithTimeout(context.Background(), handshakeTimeout)
	defer cancel()
	oa, ob := &outcome{}, &outcome{}
	var wg sync.WaitGroup
	wg.Add(2)
	go func() { defer wg.Done(); a.run(ctx, proto, ca, nonce, oa) }()
	go func() { defer wg.Done(); b.run(ctx, proto, cb, nonce, ob) }()
	wg.Wait()
	return oa, ob
}

func contextWithTimeout() (context.Context, context.CancelFunc) {
	return context.WithTimeout(context.Background(), handshakeTimeout)
}

// completed applies the statement's notion of a completed handshake: the call returned
// without error; for the TLS client additionally the first Read succeeded (TLS 1.3
// reports the server's rejection of the client there).
func completed(proto string, s *side, o *outcome) bool {
	if !o.hsOK {
		return false
	}
	if proto == pTLS && s.Initiator {
		return o.echoOK
	}
	return true
}

type failer interface {
	Fatalf(format string, args ...any)
}

// bail aborts a case from inside a bubble (harness-level setup failure): a panic is what
// both bubble flavours carry out of the bubble; Fatalf must not be called on a *testing.T
// from the bubble's goroutine.
func bail(format string, args ...any) { panic(fmt.Sprintf(format, args...)) }

// fl picks the failure sink: the rapid case when there is one, the test otherwise.
func fl(t *testing.T, rt *rapid.T) failer {
	if rt != nil {
		return rt
	}
	return t
}

// bubble runs f in a synctest bubble; with rt == nil (enumerating tests) failures go to t.
func bubble(t *testing.T, rt *rapid.T, f func()) {
	if rt != nil {
		hx.Bubble(t, rt, f)
		return
	}
	if failure := hx.RunBubble(t, f); failure != "" {
		t.Fatalf("%s", failure)
	}
}

// checkIdentity is the per-side oracle: a side whose handshake call returned a
// connection must report exactly the genuine remote identity, its own expected-peer
// setting must be satisfied by it, and (noise) the prologues must have been equal.
// genuine == nil means that nobody holding any private key was at the other end: no
// completion is acceptable at all.
func checkIdentity(f failer, ctx string, proto string, s *side, o *outcome, genuine *keys.Identity, prologuesEqual bool) {
	if !o.hsOK {
		return
	}
	if genuine == nil {
		f.Fatalf("%s: %s completed the handshake although no key holder was at the other end (reports %s)", ctx, s, o.remotePeer)
	}
	if o.remotePeer != genuine.ID {
		f.Fatalf("%s: %s completed and reports RemotePeer()=%s, but the key the remote used belongs to %s", ctx, s, o.remotePeer, genuine.ID)
	}
	if o.remoteKey == nil || !o.remoteKey.Equals(genuine.Pub) {
		f.Fatalf("%s: %s completed and RemotePublicKey() is not the key the remote used (%v)", ctx, s, o.remoteKey)
	}
	if id, err := peer.IDFromPublicKey(o.remoteKey); err != nil || id != o.remotePeer {
		f.Fatalf("%s: %s: RemotePeer()=%s is not derived from RemotePublicKey() (%s, %v)", ctx, s, o.remotePeer, id, err)
	}
	if !s.accepts(genuine.ID) {
		f.Fatalf("%s: %s named %s as the expected peer but completed with %s", ctx, s, s.Expect, genuine.ID)
	}
	if !prologuesEqual {
		f.Fatalf("%s: %s completed although the prologues differ", ctx, s)
	}
}

// checkNoGarbage: whatever the secured connection delivered must be a prefix of what the
// genuine peer sent.
func checkNoGarbage(f failer, ctx string, s *side, o *outcome) {
	if !o.hsOK || len(o.got) == 0 {
		return
	}
	if len(o.got) > len(o.want) || !bytes.Equal(o.got, o.want[:len(o.got)]) {
		f.Fatalf("%s: %s was handed bytes the peer never sent: got %x want prefix of %x", ctx, s, o.got, o.want)
	}
}

// spliced returns the two endpoint connections of a path that runs through a frame-aware
// man in the middle.
func spliced(f wire.Framing, ed wire.Editor) (ca, cb *memnet.Conn, m *wire.Mitm) {
	a1, a2 := memnet.Pipe(memnet.Options{})
	b1, b2 := memnet.Pipe(memnet.Options{
		LocalAddr:  &net.TCPAddr{IP: net.IPv4(10, 0, 0, 3), Port: 3003},
		RemoteAddr: &net.TCPAddr{IP: net.IPv4(10, 0, 0, 2), Port: 2002},
	})
	return a1, b2, wire.Splice(f, a2, b1, ed)
}

var warmOnce sync.Once

// warm generates the slow (RSA) pool keys outside any bubble.
func warm() {
	warmOnce.Do(func() {
		for i := 0; i < 4; i++ {
			for _, typ := range keys.Types {
				keys.Get(typ, i)
			}
		}
	})
}

func errClass(err error) string {
	if err == nil {
		return "ok"
	}
	s := err.Error()
	for _, k := range []string{"peer id mismatch", "signature invalid", "error verifying signature", "deadline", "timeout", "EOF",
		"message is too short", "authentication failed", "malformed", "unmarshal", "proto:", "bad key type", "closed", "reset",
		"bad certificate", "bad record MAC", "unexpected message", "decode error", "decrypt", "expected one certificates",
		"key extension", "certificate verification failed", "signature verification failed", "tls:"} {
		if bytes.Contains([]byte(s), []byte(k)) {
			return k
		}
	}
	return "other"
}
