package c01

import (
	"context"
	"crypto/tls"
	"fmt"
	"net"
	"sync"
	"testing"

	ic "github.com/libp2p/go-libp2p/core/crypto"
	"github.com/libp2p/go-libp2p/core/peer"
	libp2ptls "github.com/libp2p/go-libp2p/p2p/security/tls"
	"pgregory.net/rapid"

	"verif/internal/hx"
	"verif/internal/keys"
	"verif/internal/memnet"
	"verif/internal/stats"
)

// TestTLSConfigForPeer drives libp2ptls.Identity.ConfigForPeer the way the QUIC and
// WebTransport transports do: the tls.Config it returns is handed to a TLS 1.3 stack that
// is not libp2ptls.Transport (here crypto/tls over an in-memory pipe; QUIC hands it to
// quic-go), the dialer's config is made for the peer it names, the listener's config is
// made per connection in GetConfigForClient (for nobody, as the QUIC listener does, or for
// a named peer). The named peer is any byte string: empty, the genuine ID, the well-formed
// ID of somebody else, or a non-empty string of one of namedKinds.
//
// Oracle (statement: "when the local side named the peer it expects, the handshake
// succeeds only if that peer ID matches"; "reports ... exactly the peer ID derived from a
// public key whose private key the remote used"): a side whose handshake completed named
// nobody or exactly the genuine remote ID, and the key channel delivers the genuine
// remote's key; a side whose verification refused the peer gets no key.
func TestTLSConfigForPeer(t *testing.T) {
	warm()
	name := t.Name()
	hx.Check(t, 600, 40000, 0, func(rt *rapid.T) {
		tc := rapid.SampledFrom(keys.Types).Draw(rt, "clientKey")
		ts := rapid.SampledFrom(keys.Types).Draw(rt, "serverKey")
		tt := rapid.SampledFrom(keys.Types).Draw(rt, "thirdKey")
		C, S, third := keys.Get(tc, 0), keys.Get(ts, 1), keys.Get(tt, 2)
		kc := rapid.SampledFrom([]string{"match", "match", "other", "named", "named", "named"}).Draw(rt, "clientNames")
		ks := rapid.SampledFrom([]string{"empty", "empty", "match", "other", "named", "named"}).Draw(rt, "serverNames")
		ec, es := expectID(kc, C, S, third), expectID(ks, S, C, third)
		if kc == "named" {
			kc = rapid.SampledFrom(namedKinds).Draw(rt, "clientClass")
			ec = drawNamedID(rt, kc, S.ID, "client")
		}
		if ks == "named" {
			ks = rapid.SampledFrom(namedKinds).Draw(rt, "serverClass")
			es = drawNamedID(rt, ks, C.ID, "server")
		}
		perConn := rapid.Bool().Draw(rt, "serverConfigPerConnection")
		nonce := mkNonce(uint64(len(ec))<<8 | uint64(len(es)))

		type end struct {
			o     outcome
			key   ic.PubKey
			gotCh bool // the key channel was written to / closed by the time the handshake call returned
		}
		var ce, se end
		hx.Bubble(t, rt, func() {
			ci, err := libp2ptls.NewIdentity(C.Priv)
			if err != nil {
				bail("identity: %v", err)
			}
			si, err := libp2ptls.NewIdentity(S.Priv)
			if err != nil {
				bail("identity: %v", err)
			}
			cconf, cch := ci.ConfigForPeer(ec)
			var sconf *tls.Config
			var sch <-chan ic.PubKey
			if perConn {
				sconf = &tls.Config{GetConfigForClient: func(*tls.ClientHelloInfo) (*tls.Config, error) {
					var c *tls.Config
					c, sch = si.ConfigForPeer(es)
					return c, nil
				}}
			} else {
				sconf, sch = si.ConfigForPeer(es)
			}
			ca, cb := memnet.Pipe(memnet.Options{})
			ctx, cancel := context.WithTimeout(context.Background(), handshakeTimeout)
			defer cancel()
			run := func(e *end, raw net.Conn, c *tls.Conn, ch func() <-chan ic.PubKey, initiator bool) {
				if err := c.HandshakeContext(ctx); err != nil {
					e.o.hsErr = err
					raw.Close()
				} else {
					e.o.hsOK = true
				}
				if k := ch(); k != nil {
					select {
					case e.key = <-k:
						e.gotCh = true
					default:
					}
				}
				if e.o.hsOK {
					echo(c, initiator, nonce, &e.o)
					c.Close()
				}
			}
			var wg sync.WaitGroup
			wg.Add(2)
			go func() {
				defer wg.Done()
				run(&ce, ca, tls.Client(ca, cconf), func() <-chan ic.PubKey { return cch }, true)
			}()
			go func() {
				defer wg.Done()
				run(&se, cb, tls.Server(cb, sconf), func() <-chan ic.PubKey { return sch }, false)
			}()
			wg.Wait()
			ca.Close()
			cb.Close()
		})

		cx := fmt.Sprintf("client=%s names %s %x; server=%s names %s %x; perConn=%v", tc, kc, string(ec), ts, ks, string(es), perConn)
		judge := func(role string, e *end, named peer.ID, remote *keys.Identity, done bool) {
			if e.key != nil && !e.key.Equals(remote.Pub) {
				id, _ := peer.IDFromPublicKey(e.key)
				rt.Fatalf("%s: the %s's key channel delivered the key of %s, the remote used the key of %s", cx, role, id, remote.ID)
			}
			if e.key != nil && named != "" && named != remote.ID {
				rt.Fatalf("%s: the %s named a peer that is not the remote (%s), yet the verified-key channel delivered the remote's key", cx, role, remote.ID)
			}
			if !done {
				return
			}
			if named != "" && named != remote.ID {
				rt.Fatalf("%s: the %s named %q (%x) as the peer it expects, yet the handshake completed with %s", cx, role, named, string(named), remote.ID)
			}
			if e.key == nil {
				rt.Fatalf("%s: the %s's handshake completed but the key channel delivered no key (channel ready: %v)", cx, role, e.gotCh)
			}
		}
		// completion in the statement's sense: the client's includes its first Read
		judge("client", &ce, ec, S, ce.o.hsOK && ce.o.echoOK)
		judge("server", &se, es, C, se.o.hsOK)
		wrongC, wrongS := ec != "" && ec != S.ID, es != "" && es != C.ID
		if !wrongC && !wrongS && !noConverse {
			if !ce.o.hsOK || !se.o.hsOK || !ce.o.echoOK || !se.o.echoOK {
				rt.Fatalf("%s: both sides are satisfied by the genuine remote but the handshake / echo failed: client: %s; server: %s", cx, &ce.o, &se.o)
			}
		}
		if !se.o.hsOK && ce.o.hsOK && ce.o.echoOK {
			rt.Fatalf("%s: the server refused the handshake (%v) but the client's first Read succeeded", cx, se.o.hsErr)
		}
		out := func(e *end) string {
			if e.o.hsOK {
				return "complete"
			}
			return "refused:" + errClass(e.o.hsErr)
		}
		labels := []string{"client-key:" + tc, "server-key:" + ts, "client-names:" + kc, "server-names:" + ks,
			"client:" + out(&ce), "server:" + out(&se), fmt.Sprintf("server-config-per-connection:%v", perConn)}
		if wrongC {
			labels = append(labels, "named-wrong:tls-config/outbound/"+namedShape(ec))
		}
		if wrongS {
			labels = append(labels, "named-wrong:tls-config/inbound/"+namedShape(es))
		}
		stats.Case(name, fmt.Sprintf("%s|%s|%s|%s|%s|%x|%x|%v", tc, ts, tt, kc, ks, string(ec), string(es), perConn), wrongC || wrongS, labels...)
		if stats.WantSample(name) {
			stats.Sample(name, map[string]any{"client": tc, "server": ts, "clientNames": kc, "serverNames": ks,
				"clientNamed": fmt.Sprintf("%x", string(ec)), "serverNamed": fmt.Sprintf("%x", string(es)), "clientResult": out(&ce), "serverResult": out(&se)})
		}
	})
}
