package c01

import (
	"context"
	"crypto"
	"crypto/ecdsa"
	"crypto/elliptic"
	"crypto/rand"
	"crypto/tls"
	"crypto/x509"
	"crypto/x509/pkix"
	"encoding/asn1"
	"fmt"
	"math/big"
	"net"
	"runtime/debug"
	"sync"
	"testing"
	"time"

	ic "github.com/libp2p/go-libp2p/core/crypto"
	libp2ptls "github.com/libp2p/go-libp2p/p2p/security/tls"
	"pgregory.net/rapid"

	"verif/internal/hx"
	"verif/internal/keys"
	"verif/internal/memnet"
	"verif/internal/stats"
)

// Domain D: certificates with a mutated libp2p extension, (i) straight into
// PubKeyFromCertChain, (ii) through a full TLS 1.3 handshake in which the attacker is
// plain crypto/tls and the honest side is libp2ptls.Transport.
//
// The encoding below is written from the libp2p TLS specification, not taken from the
// implementation: extension OID 1.3.6.1.4.1.53594.1.1, value = DER SEQUENCE { OCTET STRING
// protobuf public key, OCTET STRING signature over "libp2p-tls-handshake:" + PKIX(cert key) }.

var libp2pExtOID = asn1.ObjectIdentifier{1, 3, 6, 1, 4, 1, 53594, 1, 1}

const tlsPrefix = "libp2p-tls-handshake:"

type signedKey struct {
	PubKey    []byte
	Signature []byte
}

func mustPKIX(pub crypto.PublicKey) []byte {
	b, err := x509.MarshalPKIXPublicKey(pub)
	if err != nil {
		panic(err)
	}
	return b
}

func mustASN1(v any) []byte {
	b, err := asn1.Marshal(v)
	if err != nil {
		panic(err)
	}
	return b
}

func newCertKey() *ecdsa.PrivateKey {
	k, err := ecdsa.GenerateKey(elliptic.P256(), rand.Reader)
	if err != nil {
		panic(err)
	}
	return k
}

// extValue builds the extension value claiming identity key pub, signed by signer over
// prefix + PKIX(certPub).
func extValue(pub []byte, signer ic.PrivKey, prefix string, certPub crypto.PublicKey) []byte {
	return mustASN1(signedKey{PubKey: pub, Signature: mustSign(signer, append([]byte(prefix), mustPKIX(certPub)...))})
}

func genuineExt(id *keys.Identity, certPub crypto.PublicKey) []byte {
	return extValue(mustMarshalPub(id.Pub), id.Priv, tlsPrefix, certPub)
}

func p2pExt(value []byte) pkix.Extension { return pkix.Extension{Id: libp2pExtOID, Value: value} }

var certSerial int64

// buildCert makes a self-signed certificate for key with the given extra extensions.
func buildCert(key *ecdsa.PrivateKey, exts ...pkix.Extension) []byte {
	certSerial++
	now := time.Now()
	tmpl := &x509.Certificate{
		SerialNumber:    big.NewInt(1000 + certSerial),
		NotBefore:       now.Add(-time.Hour),
		NotAfter:        now.Add(100 * 365 * 24 * time.Hour),
		Subject:         pkix.Name{SerialNumber: fmt.Sprint(77000 + certSerial)},
		ExtraExtensions: exts,
	}
	der, err := x509.CreateCertificate(rand.Reader, tmpl, tmpl, key.Public(), key)
	if err != nil {
		panic(fmt.Sprintf("CreateCertificate: %v", err))
	}
	return der
}

// forged is what the attacker presents.
type forged struct {
	chain [][]byte
	key   *ecdsa.PrivateKey // private key of the leaf
}

type certCtx struct {
	V, M, M2 *keys.Identity // victim, attacker, attacker-held key of the victim's type
	pos      int            // flip position / cut point
	mask     byte
	extLen   int // out: length of the unmutated extension value
}

// certVariant: class "benign" = a valid certificate of the attacker's OWN identity (must be
// accepted as M); "lenient" = own identity, encoding oddity outside the statement's list
// (identity oracle only); "forged" = must be rejected.
type certVariant struct {
	name  string
	class string
	build func(x *certCtx) forged
}

func single(key *ecdsa.PrivateKey, exts ...pkix.Extension) forged {
	return forged{chain: [][]byte{buildCert(key, exts...)}, key: key}
}

func realCertExtension(id *keys.Identity) []byte {
	ident, err := libp2ptls.NewIdentity(id.Priv)
	if err != nil {
		panic(err)
	}
	conf, _ := ident.ConfigForPeer("")
	cert, err := x509.ParseCertificate(conf.Certificates[0].Certificate[0])
	if err != nil {
		panic(err)
	}
	for _, e := range cert.Extensions {
		if e.Id.Equal(libp2pExtOID) {
			return e.Value
		}
	}
	panic("no libp2p extension in a certificate made by libp2ptls.NewIdentity")
}

var certVariants = []certVariant{
	{"genuine", "benign", func(x *certCtx) forged {
		k := newCertKey()
		return single(k, p2pExt(genuineExt(x.M, k.Public())))
	}},
	{"genuine-lib-extension", "benign", func(x *certCtx) forged {
		k := newCertKey()
		e, err := libp2ptls.GenerateSignedExtension(x.M.Priv, k.Public())
		if err != nil {
			panic(err)
		}
		return single(k, e)
	}},
	{"critical", "benign", func(x *certCtx) forged {
		k := newCertKey()
		e := p2pExt(genuineExt(x.M, k.Public()))
		e.Critical = true
		return single(k, e)
	}},
	{"trailing-garbage-after-asn1", "lenient", func(x *certCtx) forged {
		k := newCertKey()
		return single(k, p2pExt(append(genuineExt(x.M, k.Public()), 0xde, 0xad)))
	}},
	{"pubkey-swapped", "forged", func(x *certCtx) forged {
		k := newCertKey()
		return single(k, p2pExt(extValue(mustMarshalPub(x.V.Pub), x.M.Priv, tlsPrefix, k.Public())))
	}},
	{"pubkey-swapped-sametype-signer", "forged", func(x *certCtx) forged {
		k := newCertKey()
		return single(k, p2pExt(extValue(mustMarshalPub(x.V.Pub), x.M2.Priv, tlsPrefix, k.Public())))
	}},
	{"victim-extension-for-other-certkey", "forged", func(x *certCtx) forged {
		a, b := newCertKey(), newCertKey()
		return single(b, p2pExt(genuineExt(x.V, a.Public())))
	}},
	{"victim-extension-harvested-from-real-cert", "forged", func(x *certCtx) forged {
		return single(newCertKey(), p2pExt(realCertExtension(x.V)))
	}},
	{"own-sig-over-other-certkey", "forged", func(x *certCtx) forged {
		a, b := newCertKey(), newCertKey()
		return single(b, p2pExt(genuineExt(x.M, a.Public())))
	}},
	{"own-sig-wrong-prefix", "forged", func(x *certCtx) forged {
		k := newCertKey()
		return single(k, p2pExt(extValue(mustMarshalPub(x.M.Pub), x.M.Priv, "libp2p-tls-handshake;", k.Public())))
	}},
	{"victim-sig-noise-prefix", "forged", func(x *certCtx) forged {
		k := newCertKey()
		return single(k, p2pExt(extValue(mustMarshalPub(x.V.Pub), x.V.Priv, noisePrefix, k.Public())))
	}},
	{"victim-sig-no-prefix", "forged", func(x *certCtx) forged {
		k := newCertKey()
		return single(k, p2pExt(extValue(mustMarshalPub(x.V.Pub), x.V.Priv, "", k.Public())))
	}},
	{"victim-sig-over-raw-point", "forged", func(x *certCtx) forged {
		// prefix + the certificate key in another encoding (uncompressed point instead of PKIX)
		k := newCertKey()
		pt := elliptic.Marshal(elliptic.P256(), k.X, k.Y)
		v := mustASN1(signedKey{PubKey: mustMarshalPub(x.V.Pub), Signature: mustSign(x.V.Priv, append([]byte(tlsPrefix), pt...))})
		return single(k, p2pExt(v))
	}},
	{"extension-absent", "forged", func(x *certCtx) forged { return single(newCertKey()) }},
	{"extension-wrong-oid", "forged", func(x *certCtx) forged {
		k := newCertKey()
		return single(k, pkix.Extension{Id: asn1.ObjectIdentifier{1, 3, 6, 1, 4, 1, 53594, 1, 2}, Value: genuineExt(x.M, k.Public())})
	}},
	{"extension-duplicated-identical", "forged", func(x *certCtx) forged {
		k := newCertKey()
		e := p2pExt(genuineExt(x.M, k.Public()))
		return single(k, e, e)
	}},
	{"extension-duplicated-forged-first", "forged", func(x *certCtx) forged {
		k := newCertKey()
		return single(k, p2pExt(extValue(mustMarshalPub(x.V.Pub), x.M.Priv, tlsPrefix, k.Public())), p2pExt(genuineExt(x.M, k.Public())))
	}},
	{"extension-duplicated-genuine-first", "forged", func(x *certCtx) forged {
		k := newCertKey()
		return single(k, p2pExt(genuineExt(x.M, k.Public())), p2pExt(extValue(mustMarshalPub(x.V.Pub), x.M.Priv, tlsPrefix, k.Public())))
	}},
	{"chain-empty", "forged", func(x *certCtx) forged { return forged{key: newCertKey()} }},
	{"chain-2-genuine-first", "forged", func(x *certCtx) forged {
		k, o := newCertKey(), newCertKey()
		return forged{chain: [][]byte{buildCert(k, p2pExt(genuineExt(x.M, k.Public()))), buildCert(o)}, key: k}
	}},
	{"chain-2-genuine-second", "forged", func(x *certCtx) forged {
		k, o := newCertKey(), newCertKey()
		return forged{chain: [][]byte{buildCert(o), buildCert(k, p2pExt(genuineExt(x.M, k.Public())))}, key: o}
	}},
	{"chain-2-same-twice", "forged", func(x *certCtx) forged {
		k := newCertKey()
		c := buildCert(k, p2pExt(genuineExt(x.M, k.Public())))
		return forged{chain: [][]byte{c, c}, key: k}
	}},
	{"chain-2-victim-real-cert-second", "forged", func(x *certCtx) forged {
		// the victim's real certificate (harvested from a handshake) behind a leaf the attacker controls
		ident, err := libp2ptls.NewIdentity(x.V.Priv)
		if err != nil {
			panic(err)
		}
		conf, _ := ident.ConfigForPeer("")
		k := newCertKey()
		return forged{chain: [][]byte{buildCert(k), conf.Certificates[0].Certificate[0]}, key: k}
	}},
	{"extension-empty-value", "forged", func(x *certCtx) forged { return single(newCertKey(), p2pExt([]byte{})) }},
	{"signature-empty", "forged", func(x *certCtx) forged {
		return single(newCertKey(), p2pExt(mustASN1(signedKey{PubKey: mustMarshalPub(x.V.Pub)})))
	}},
	{"pubkey-empty", "forged", func(x *certCtx) forged {
		k := newCertKey()
		return single(k, p2pExt(mustASN1(signedKey{Signature: mustSign(x.M.Priv, append([]byte(tlsPrefix), mustPKIX(k.Public())...))})))
	}},
	{"victim-keytype-retagged", "forged", func(x *certCtx) forged {
		k := newCertKey()
		return single(k, p2pExt(extValue(pubKeyProto((typeTag(x.V)+1+x.pos%3)%4, rawKey(x.V)), x.M.Priv, tlsPrefix, k.Public())))
	}},
	{"fields-swapped", "forged", func(x *certCtx) forged {
		k := newCertKey()
		var sk signedKey
		asn1.Unmarshal(genuineExt(x.M, k.Public()), &sk)
		return single(k, p2pExt(mustASN1(signedKey{PubKey: sk.Signature, Signature: sk.PubKey})))
	}},
	// parametrised: x.pos is the cut point / flip position
	{"truncated-asn1", "forged", func(x *certCtx) forged {
		k := newCertKey()
		v := genuineExt(x.M, k.Public())
		x.extLen = len(v)
		return single(k, p2pExt(v[:x.pos%len(v)]))
	}},
	{"extension-byte-flip", "forged", func(x *certCtx) forged {
		k := newCertKey()
		v := genuineExt(x.M, k.Public())
		x.extLen = len(v)
		if x.pos >= len(v) { // beyond this run's value (signature lengths vary): nothing to flip
			return single(k, p2pExt(v))
		}
		v[x.pos] ^= x.mask
		return single(k, p2pExt(v))
	}},
}

func variantIndex(name string) int {
	for i, v := range certVariants {
		if v.name == name {
			return i
		}
	}
	panic("no variant " + name)
}

// parseChain parses like crypto/tls does before it calls VerifyPeerCertificate.
func parseChain(ders [][]byte) ([]*x509.Certificate, error) {
	out := make([]*x509.Certificate, len(ders))
	for i, d := range ders {
		c, err := x509.ParseCertificate(d)
		if err != nil {
			return nil, err
		}
		out[i] = c
	}
	return out, nil
}

type certCase struct {
	variant int
	tv, tm  string
	pos     int
	mask    byte
}

func (c certCase) key() string {
	return fmt.Sprintf("%s|v=%s|m=%s|%d|%02x", certVariants[c.variant].name, c.tv, c.tm, c.pos, c.mask)
}

func (c certCase) ctx() *certCtx {
	return &certCtx{V: keys.Get(c.tv, 0), M: keys.Get(c.tm, 2), M2: keys.Get(c.tv, 3), pos: c.pos, mask: c.mask}
}

// runCertDirect: PubKeyFromCertChain returns a key only for a valid certificate of the
// attacker's own identity, and then exactly that identity's key.
func runCertDirect(t *testing.T, c certCase) (labels []string, extLen int) {
	v := certVariants[c.variant]
	x := c.ctx()
	var (
		key      ic.PubKey
		err      error
		parseErr error
		panicked any
		stack    []byte
		class    = v.class
	)
	bubble(t, nil, func() {
		fg := v.build(x)
		if v.name == "extension-byte-flip" && x.pos >= x.extLen {
			class = "benign"
		}
		var chain []*x509.Certificate
		if chain, parseErr = parseChain(fg.chain); parseErr != nil {
			return
		}
		func() {
			defer func() {
				if r := recover(); r != nil {
					panicked, stack = r, debug.Stack()
				}
			}()
			key, err = libp2ptls.PubKeyFromCertChain(chain)
		}()
	})
	ctx := c.key()
	if panicked != nil {
		t.Fatalf("%s: PubKeyFromCertChain panicked: %v\n%s", ctx, panicked, stack)
	}
	labels = []string{"variant:" + v.name, "class:" + class, "attacker-key:" + c.tm}
	switch {
	case parseErr != nil:
		labels = append(labels, "result:x509-parse-error")
		if class == "benign" && !noConverse {
			t.Fatalf("%s: a valid certificate does not parse: %v", ctx, parseErr)
		}
		return labels, x.extLen
	case err != nil:
		labels = append(labels, "result:rejected", "err:"+errClass(err))
		if class == "benign" && !noConverse {
			t.Fatalf("%s: a valid certificate of the attacker's own identity was rejected: %v", ctx, err)
		}
		if key != nil {
			t.Fatalf("%s: PubKeyFromCertChain returned a key together with an error", ctx)
		}
		return labels, x.extLen
	}
	labels = append(labels, "result:accepted")
	if key == nil {
		t.Fatalf("%s: PubKeyFromCertChain returned neither key nor error", ctx)
	}
	if class == "forged" {
		t.Fatalf("%s: PubKeyFromCertChain returned a key (type %v) for a mutated certificate", ctx, key.Type())
	}
	if !key.Equals(x.M.Pub) {
		t.Fatalf("%s: PubKeyFromCertChain returned a key that is not the identity that signed the certificate key", ctx)
	}
	return labels, x.extLen
}

// TestTLSCertDirect: all variants x key types; cut points and flip positions of the
// extension value enumerated completely.
func TestTLSCertDirect(t *testing.T) {
	warm()
	name := t.Name()
	k := 0
	flip, trunc := variantIndex("extension-byte-flip"), variantIndex("truncated-asn1")
	for vi, v := range certVariants {
		if vi == flip || vi == trunc {
			continue
		}
		for i, tv := range keys.Types {
			for j, tm := range keys.Types {
				if !hx.Thorough() && (i+j+vi)%2 == 1 {
					continue
				}
				for pos := 0; pos < 3; pos++ {
					if pos > 0 && v.name != "victim-keytype-retagged" {
						continue
					}
					k++
					if !hx.Mine(k) {
						continue
					}
					c := certCase{variant: vi, tv: tv, tm: tm, pos: pos}
					labels, _ := runCertDirect(t, c)
					stats.CaseEnumerated(name, v.class != "benign", labels...)
				}
			}
		}
	}
	masks := hx.Pick([]byte{0x01}, []byte{0x01, 0x80, 0x10})
	for _, tm := range keys.Types {
		// learn the length of the value for this key type (ECDSA-family signatures vary by a few bytes)
		_, n := runCertDirect(t, certCase{variant: flip, tv: "ed25519", tm: tm, pos: 1 << 20, mask: 1})
		t.Logf("extension value length with a %s identity: %d bytes", tm, n)
		for pos := 0; pos < n+4; pos++ {
			k++
			if !hx.Mine(k) {
				continue
			}
			for _, mask := range masks {
				c := certCase{variant: flip, tv: "ed25519", tm: tm, pos: pos, mask: mask}
				labels, n2 := runCertDirect(t, c)
				stats.CaseEnumerated(name, pos < n2, labels...)
				if stats.WantSample(name) {
					stats.Sample(name, map[string]any{"case": c.key(), "labels": labels})
				}
			}
			if pos < n {
				c := certCase{variant: trunc, tv: "ed25519", tm: tm, pos: pos}
				labels, _ := runCertDirect(t, c)
				stats.CaseEnumerated(name, true, labels...)
			}
		}
	}
	stats.Exhaustive(name)
}

// ---------------------------------------------------------------------------
// (ii) full handshakes

type tlsAttacker struct {
	fg        forged
	initiator bool
	hsDone    bool
	echoOK    bool
	err       error
}

func (a *tlsAttacker) config() *tls.Config {
	cfg := &tls.Config{
		MinVersion:             tls.VersionTLS13,
		InsecureSkipVerify:     true,
		ClientAuth:             tls.RequireAnyClientCert,
		NextProtos:             []string{"libp2p"},
		SessionTicketsDisabled: true,
	}
	cert := &tls.Certificate{Certificate: a.fg.chain, PrivateKey: a.fg.key}
	cfg.GetCertificate = func(*tls.ClientHelloInfo) (*tls.Certificate, error) { return cert, nil }
	cfg.GetClientCertificate = func(*tls.CertificateRequestInfo) (*tls.Certificate, error) { return cert, nil }
	return cfg
}

func (a *tlsAttacker) run(c net.Conn, nonce []byte) {
	ctx, cancel := context.WithTimeout(context.Background(), handshakeTimeout)
	defer cancel()
	var tc *tls.Conn
	if a.initiator {
		tc = tls.Client(c, a.config())
	} else {
		tc = tls.Server(c, a.config())
	}
	if err := tc.HandshakeContext(ctx); err != nil {
		a.err = err
		c.Close()
		return
	}
	a.hsDone = true
	o := &outcome{}
	echo(tc, a.initiator, nonce, o)
	a.echoOK, a.err = o.echoOK, o.echoErr
	tc.Close()
}

type certHSCase struct {
	certCase
	honestInit bool
	expect     string // victim | attacker | empty
}

func (c certHSCase) key() string {
	return fmt.Sprintf("%s|honestInit=%v|%s", c.certCase.key(), c.honestInit, c.expect)
}

func runCertHandshake(t *testing.T, rt *rapid.T, c certHSCase) (labels []string) {
	f := fl(t, rt)
	v := certVariants[c.variant]
	x := c.ctx()
	h := &side{Me: keys.Get("ed25519", 1), Initiator: c.honestInit, Kind: c.expect}
	switch c.expect {
	case "victim":
		h.Expect = x.V.ID
	case "attacker":
		h.Expect = x.M.ID
	}
	class := v.class
	nonce := mkNonce(uint64(c.variant)*977 + uint64(c.pos))
	o := &outcome{}
	att := &tlsAttacker{initiator: !c.honestInit}
	bubble(t, rt, func() {
		att.fg = v.build(x)
		if v.name == "extension-byte-flip" && x.pos >= x.extLen {
			class = "benign"
		}
		ch, cm := memnet.Pipe(memnet.Options{})
		var wg sync.WaitGroup
		wg.Add(1)
		go func() {
			defer wg.Done()
			ctx, cancel := contextWithTimeout()
			defer cancel()
			h.run(ctx, pTLS, ch, nonce, o)
		}()
		att.run(cm, nonce)
		wg.Wait()
		ch.Close()
		cm.Close()
	})
	ctx := c.key()
	// any connection handed out must report the identity that really signed the certificate key the
	// attacker holds (M), and satisfy the honest side's own expectation
	checkIdentity(f, ctx, pTLS, h, o, x.M, true)
	checkNoGarbage(f, ctx, h, o)
	done := completed(pTLS, h, o)
	if done && class == "forged" {
		f.Fatalf("%s: the honest %s completed the handshake against a forged certificate (%s)", ctx, h, o)
	}
	if class == "benign" && h.mustAccept(pTLS, x.M.ID) && !noConverse {
		if !o.hsOK || !o.echoOK {
			f.Fatalf("%s: a valid certificate of the attacker's own identity was not accepted: honest=%s attacker: done=%v err=%v", ctx, o, att.hsDone, att.err)
		}
	}
	labels = []string{"variant:" + v.name, "class:" + class, "expect:" + c.expect, "attacker-key:" + c.tm, "honest-err:" + errClass(o.hsErr)}
	if c.honestInit {
		labels = append(labels, "honest:client")
	} else {
		labels = append(labels, "honest:server")
	}
	if done {
		labels = append(labels, "honest-completed")
	}
	return labels
}

// TestTLSCertHandshake: every variant x honest role x expectation, key types rotating
// (quick) or crossed (thorough); flip positions / cut points sampled (quick) or all (thorough).
func TestTLSCertHandshake(t *testing.T) {
	warm()
	name := t.Name()
	k := 0
	flip, trunc := variantIndex("extension-byte-flip"), variantIndex("truncated-asn1")
	expectations := []string{"victim", "attacker", "empty"}
	for vi, v := range certVariants {
		for i, tv := range keys.Types {
			for j, tm := range keys.Types {
				if !hx.Thorough() && (i+vi)%4 != j {
					continue
				}
				for _, hi := range []bool{true, false} {
					for ei, exp := range expectations {
						positions := []int{0}
						if vi == flip || vi == trunc {
							// spread over the value; its length depends on the attacker's key type
							positions = nil
							n := map[string]int{"ed25519": 106, "ecdsa": 174, "secp256k1": 116, "rsa": 568}[tm]
							step := hx.Pick(n/6+1, 1)
							for p := (i + ei) % step; p < n; p += step {
								positions = append(positions, p)
							}
						}
						for _, pos := range positions {
							k++
							if !hx.Mine(k) {
								continue
							}
							c := certHSCase{certCase: certCase{variant: vi, tv: tv, tm: tm, pos: pos, mask: byte(1) << (pos % 8)}, honestInit: hi, expect: exp}
							labels := runCertHandshake(t, nil, c)
							stats.CaseEnumerated(name, v.class != "benign" || exp == "victim", labels...)
							if stats.WantSample(name) {
								stats.Sample(name, map[string]any{"case": c.key(), "labels": labels})
							}
						}
					}
				}
			}
		}
	}
	stats.Exhaustive(name)
}
