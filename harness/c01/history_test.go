package c01

import (
	"bytes"
	"crypto/tls"
	"crypto/x509"
	"encoding/asn1"
	"fmt"
	"net"
	"runtime/debug"
	"sync"
	"testing"

	fnoise "github.com/flynn/noise"
	ic "github.com/libp2p/go-libp2p/core/crypto"
	"github.com/libp2p/go-libp2p/core/peer"
	"github.com/libp2p/go-libp2p/core/sec"
	"github.com/libp2p/go-libp2p/p2p/security/noise"
	libp2ptls "github.com/libp2p/go-libp2p/p2p/security/tls"
	"pgregory.net/rapid"

	"verif/internal/hx"
	"verif/internal/keys"
	"verif/internal/memnet"
	"verif/internal/stats"
)

// Domain H: session HISTORIES within one verifying process. The statement's "replayed
// from another session" and "signed/certified with a substituted key" quantify over what
// the attacker can have: everything an honest peer V ever showed to anybody -- its TLS
// certificate (V presents the same certificate to every peer for the lifetime of its
// transport) or its Noise handshake payload. A case is a short history seen by one
// verifier T: 1-3 honest sessions of T with the victim V, a bystander O or the attacker
// under its own identity M (T in either role, the peer played by the library's transport
// or by a spec-level endpoint holding the peer's genuine key), then 1-2 attacks in which
// the material OBSERVED from those peers is presented again inside a fresh certificate /
// payload under a key of the attacker's own. The oracle is the statement's: whatever T
// completes reports exactly the identity whose private key the remote used in THAT
// handshake (only M's is ever available to the attacker), and T never completes a
// handshake that carried replayed / re-certified material.

const (
	implLibrary = "library" // the peer runs the code under test (its own transport object, kept for the whole case)
	implSpec    = "spec"    // the peer is a spec-level endpoint (crypto/tls resp. flynn/noise) with the peer's genuine key and one long-lived certificate / static key
)

type histSession struct {
	Who          string `json:"who"` // V | O | M
	VerifierInit bool   `json:"verifier_initiates"`
	Expect       string `json:"verifier_expects"` // match | empty
}

type histAttack struct {
	Variant      string `json:"variant"`
	VerifierInit bool   `json:"verifier_initiates"`
	Expect       string `json:"verifier_expects"` // victim | attacker | empty | nocheck (noise)
	Direct       bool   `json:"direct"`           // TLS: the forged chain goes straight into PubKeyFromCertChain
}

type histCase struct {
	Proto          string        `json:"proto"`
	TT, TV, TO, TM string        // key types of verifier, victim, bystander, attacker
	ImplV, ImplO   string        // who plays V and O
	Sessions       []histSession `json:"sessions"`
	FreshVerifier  bool          `json:"fresh_verifier_transport"` // T builds a new transport object (same process) before the attacks
	ObserveAsInit  bool          `json:"attacker_initiates_observation"`
	Attacks        []histAttack  `json:"attacks"`
}

func (c histCase) key() string {
	return fmt.Sprintf("%s|t=%s v=%s/%s o=%s/%s m=%s|%v|fresh=%v obsInit=%v|%v", c.Proto, c.TT, c.TV, c.ImplV, c.TO, c.ImplO, c.TM, c.Sessions, c.FreshVerifier, c.ObserveAsInit, c.Attacks)
}

// histVariant: class "benign" = the attacker honestly as itself (must be accepted as M);
// "forged" = the only identity material presented is replayed from other sessions (must
// never complete); "lenient" = replayed material next to a complete genuine proof of the
// attacker's own identity (completion allowed, but only as M).
type histVariant struct {
	name  string
	class string
	exact bool // the victim's material is presented byte for byte as the victim itself presents it
}

var tlsHistVariants = []histVariant{
	{"replayed-extension-in-fresh-certificate", "forged", true},
	{"replayed-extension-critical-flag-flipped", "forged", true},
	{"replayed-whole-certificate-other-private-key", "forged", true},
	{"replayed-extension-plus-own-extension", "forged", true},
	{"own-extension-plus-replayed-extension", "forged", true},
	{"replayed-certificate-behind-own-leaf", "forged", true},
	{"replayed-pubkey-with-bystander-signature", "forged", false},
	{"bystander-pubkey-with-replayed-signature", "forged", false},
	{"replayed-pubkey-with-own-signature-field", "forged", false},
	{"own-genuine", "benign", false},
}

var noiseHistVariants = []histVariant{
	{"replayed-payload-under-own-static-key", "forged", true},
	{"replayed-payload-under-victims-static-public-key", "forged", true},
	// both a replayed and a genuine own payload in one message: which one counts is protobuf's
	// last-occurrence-wins rule, an encoding matter the statement does not list -- identity oracle only
	{"replayed-payload-then-own-payload", "lenient", true},
	{"own-payload-then-replayed-payload", "lenient", true},
	{"replayed-key-with-bystander-signature", "forged", false},
	{"replayed-key-and-signature-with-extra-field", "forged", true},
	{"own-genuine", "benign", false},
}

func histVariantByName(proto, name string) histVariant {
	vs := tlsHistVariants
	if proto == pNoise {
		vs = noiseHistVariants
	}
	for _, v := range vs {
		if v.name == name {
			return v
		}
	}
	panic("no history variant " + name)
}

// ---------------------------------------------------------------------------
// spec-level TLS endpoint (plain crypto/tls) that remembers what the peer presented

type plainTLS struct {
	fg        forged
	initiator bool
	peerCerts [][]byte
	hsDone    bool
	echoOK    bool
	err       error
}

func (a *plainTLS) run(c net.Conn, nonce []byte) {
	ctx, cancel := contextWithTimeout()
	defer cancel()
	cfg := (&tlsAttacker{fg: a.fg}).config()
	var tc *tls.Conn
	if a.initiator {
		tc = tls.Client(c, cfg)
	} else {
		tc = tls.Server(c, cfg)
	}
	if err := tc.HandshakeContext(ctx); err != nil {
		a.err = err
		c.Close()
		return
	}
	a.hsDone = true
	for _, pc := range tc.ConnectionState().PeerCertificates {
		a.peerCerts = append(a.peerCerts, pc.Raw)
	}
	if nonce == nil {
		c.Close()
		return
	}
	o := &outcome{}
	echo(tc, a.initiator, nonce, o)
	a.echoOK, a.err = o.echoOK, o.echoErr
	tc.Close()
}

// ---------------------------------------------------------------------------
// participants

// histPeer is an honest participant (V, O) or the attacker's own honest face (M).
type histPeer struct {
	name string
	id   *keys.Identity
	impl string
	st   sec.SecureTransport // implLibrary

	// implSpec, TLS: one long-lived genuine certificate
	cert forged
	// implSpec, noise: one long-lived static key and the payload that goes with it
	static  fnoise.DHKey
	payload []byte

	// what the attacker has observed of this peer
	obsCert    []byte // TLS: the certificate (DER) the peer presents
	obsExt     []byte // TLS: the value of its libp2p extension
	obsPayload []byte // noise: the handshake payload the peer sent
	obsStatic  []byte // noise: the static public key it sent with it
	sessions   int    // honest sessions with the verifier so far
}

func newTransportFor(proto string, id *keys.Identity) sec.SecureTransport {
	st, err := (&side{Me: id}).newTransport(proto)
	if err != nil {
		bail("transport for %s: %v", id.ID, err)
	}
	return st
}

func genuineCert(id *keys.Identity) forged {
	k := newCertKey()
	return single(k, p2pExt(genuineExt(id, k.Public())))
}

func (p *histPeer) setup(proto string) {
	if p.impl == implLibrary {
		p.st = newTransportFor(proto, p.id)
		return
	}
	if proto == pTLS {
		p.cert = genuineCert(p.id)
		return
	}
	kp, err := attackerSuite.GenerateKeypair(nil)
	if err != nil {
		bail("static key: %v", err)
	}
	p.static, p.payload = kp, honestPayload(p.id, kp)
}

func extensionOf(der []byte) []byte {
	cert, err := x509.ParseCertificate(der)
	if err != nil {
		bail("observed certificate does not parse: %v", err)
	}
	for _, e := range cert.Extensions {
		if e.Id.Equal(libp2pExtOID) {
			return e.Value
		}
	}
	bail("observed certificate carries no libp2p extension")
	return nil
}

// honestSession runs one honest session between the verifier's transport and a peer and
// applies the oracle to it. vs is the verifier's side for this session.
func honestSession(f failer, ctx string, proto string, vs *side, T *keys.Identity, p *histPeer, nonce []byte) (ok bool) {
	ov := &outcome{}
	cv, cp := memnet.Pipe(memnet.Options{})
	defer cv.Close()
	defer cp.Close()
	if p.impl == implLibrary {
		ps := &side{Me: p.id, Initiator: !vs.Initiator, Kind: "match", Expect: T.ID, st: p.st}
		if !ps.Initiator && p.sessions%2 == 1 {
			ps.Kind, ps.Expect = "empty", ""
		}
		var op *outcome
		ov, op = runPair(proto, vs, ps, cv, cp, nonce)
		checkIdentity(f, ctx, proto, ps, op, T, true)
		checkNoGarbage(f, ctx, ps, op)
		if !noConverse && (!op.hsOK || !op.echoOK) {
			f.Fatalf("%s: honest session: the peer %s did not complete: %s (verifier: %s)", ctx, p.name, op, ov)
		}
	} else {
		var wg sync.WaitGroup
		wg.Add(1)
		go func() {
			defer wg.Done()
			c, cancel := contextWithTimeout()
			defer cancel()
			vs.run(c, proto, cv, nonce, ov)
		}()
		if proto == pTLS {
			ep := &plainTLS{fg: p.cert, initiator: !vs.Initiator}
			ep.run(cp, nonce)
			if !noConverse && !ep.echoOK {
				f.Fatalf("%s: honest session: the spec-level peer %s did not complete: %v (verifier: %s)", ctx, p.name, ep.err, ov)
			}
		} else {
			ep := &noiseAttacker{initiator: !vs.Initiator, static: &p.static, payload: func(fnoise.DHKey) []byte { return p.payload }}
			ep.run(cp, nonce)
			cp.Close()
			if !noConverse && !ep.echoOK {
				f.Fatalf("%s: honest session: the spec-level peer %s did not complete: %v (verifier: %s)", ctx, p.name, ep.err, ov)
			}
		}
		wg.Wait()
	}
	checkIdentity(f, ctx, proto, vs, ov, p.id, true)
	checkNoGarbage(f, ctx, vs, ov)
	if !noConverse && (!ov.hsOK || !ov.echoOK) {
		f.Fatalf("%s: honest session with %s (%s, verifier %s): the verifier did not complete: %s", ctx, p.name, p.impl, vs, ov)
	}
	p.sessions++
	return ov.hsOK
}

// observe: the attacker learns what the peer shows to anybody who talks to it. A library
// peer is contacted by the attacker under its own identity M (a perfectly honest session,
// after which the attacker keeps what it was shown); a spec-level peer presents its one
// long-lived certificate / payload, which is what the verifier was shown as well.
func observe(proto string, p *histPeer, M *keys.Identity, attackerInit bool) {
	if p.impl == implSpec {
		if proto == pTLS {
			p.obsCert = p.cert.chain[0]
			p.obsExt = extensionOf(p.obsCert)
		} else {
			p.obsPayload, p.obsStatic = p.payload, p.static.Public
		}
		return
	}
	cp, cm := memnet.Pipe(memnet.Options{})
	defer cp.Close()
	defer cm.Close()
	ps := &side{Me: p.id, Initiator: !attackerInit, Kind: "empty", NoEcho: true, st: p.st}
	if ps.Initiator {
		ps.Kind, ps.Expect = "match", M.ID
	}
	op := &outcome{}
	var wg sync.WaitGroup
	wg.Add(1)
	go func() {
		defer wg.Done()
		c, cancel := contextWithTimeout()
		defer cancel()
		ps.run(c, proto, cp, nil, op)
	}()
	if proto == pTLS {
		ep := &plainTLS{fg: genuineCert(M), initiator: attackerInit}
		ep.run(cm, nil)
		wg.Wait()
		if len(ep.peerCerts) != 1 {
			bail("observation of %s failed: attacker=%v peer=%s", p.name, ep.err, op)
		}
		p.obsCert = ep.peerCerts[0]
		p.obsExt = extensionOf(p.obsCert)
		return
	}
	ep := &noiseAttacker{initiator: attackerInit, payload: func(s fnoise.DHKey) []byte { return honestPayload(M, s) }}
	ep.run(cm, nil)
	cm.Close()
	wg.Wait()
	if ep.peerPayload == nil || ep.peerStatic == nil {
		bail("observation of %s failed: attacker=%v peer=%s", p.name, ep.err, op)
	}
	p.obsPayload, p.obsStatic = ep.peerPayload, ep.peerStatic
}

func payloadFields(b []byte) (key, sig []byte) {
	for _, f := range decodeFields(b) {
		switch f.num {
		case 1:
			key = f.val
		case 2:
			sig = f.val
		}
	}
	return
}

// forgeTLS builds what the attacker presents, from the observed material only (plus keys
// of its own).
func forgeTLS(variant string, V, O *histPeer, M *keys.Identity) forged {
	k := newCertKey()
	own := p2pExt(genuineExt(M, k.Public()))
	var vk, ok signedKey
	if _, err := asn1.Unmarshal(V.obsExt, &vk); err != nil {
		bail("observed extension of V: %v", err)
	}
	if _, err := asn1.Unmarshal(O.obsExt, &ok); err != nil {
		bail("observed extension of O: %v", err)
	}
	switch variant {
	case "own-genuine":
		return single(k, own)
	case "replayed-extension-in-fresh-certificate":
		return single(k, p2pExt(V.obsExt))
	case "replayed-extension-critical-flag-flipped":
		e := p2pExt(V.obsExt)
		e.Critical = true
		return single(k, e)
	case "replayed-whole-certificate-other-private-key":
		return forged{chain: [][]byte{V.obsCert}, key: k}
	case "replayed-extension-plus-own-extension":
		return single(k, p2pExt(V.obsExt), own)
	case "own-extension-plus-replayed-extension":
		return single(k, own, p2pExt(V.obsExt))
	case "replayed-certificate-behind-own-leaf":
		return forged{chain: [][]byte{buildCert(k, own), V.obsCert}, key: k}
	case "replayed-pubkey-with-bystander-signature":
		return single(k, p2pExt(mustASN1(signedKey{PubKey: vk.PubKey, Signature: ok.Signature})))
	case "bystander-pubkey-with-replayed-signature":
		return single(k, p2pExt(mustASN1(signedKey{PubKey: ok.PubKey, Signature: vk.Signature})))
	case "replayed-pubkey-with-own-signature-field":
		var mk signedKey
		asn1.Unmarshal(own.Value, &mk)
		return single(k, p2pExt(mustASN1(signedKey{PubKey: vk.PubKey, Signature: mk.Signature})))
	}
	panic("forgeTLS: " + variant)
}

// forgeNoise returns the attacker's payload function and, for one variant, a static key
// whose public half is the victim's.
func forgeNoise(variant string, V, O *histPeer, M *keys.Identity) (payload func(fnoise.DHKey) []byte, static *fnoise.DHKey) {
	vkey, vsig := payloadFields(V.obsPayload)
	_, osig := payloadFields(O.obsPayload)
	if vkey == nil || vsig == nil || osig == nil {
		bail("observed payloads incomplete")
	}
	switch variant {
	case "own-genuine":
		return func(s fnoise.DHKey) []byte { return honestPayload(M, s) }, nil
	case "replayed-payload-under-own-static-key":
		return func(fnoise.DHKey) []byte { return V.obsPayload }, nil
	case "replayed-payload-under-victims-static-public-key":
		kp, err := attackerSuite.GenerateKeypair(nil)
		if err != nil {
			bail("keypair: %v", err)
		}
		kp.Public = append([]byte(nil), V.obsStatic...) // the private half stays the attacker's: it does not know the victim's
		return func(fnoise.DHKey) []byte { return V.obsPayload }, &kp
	case "replayed-payload-then-own-payload":
		return func(s fnoise.DHKey) []byte {
			return append(append([]byte(nil), V.obsPayload...), honestPayload(M, s)...)
		}, nil
	case "own-payload-then-replayed-payload":
		return func(s fnoise.DHKey) []byte { return append(honestPayload(M, s), V.obsPayload...) }, nil
	case "replayed-key-with-bystander-signature":
		return func(fnoise.DHKey) []byte { return encodeFields(pbField{1, vkey}, pbField{2, osig}) }, nil
	case "replayed-key-and-signature-with-extra-field":
		return func(fnoise.DHKey) []byte {
			return encodeFields(pbField{1, vkey}, pbField{2, vsig}, pbField{4, []byte{}})
		}, nil
	}
	panic("forgeNoise: " + variant)
}

func drawHistCase(rt *rapid.T) histCase {
	c := histCase{
		Proto: rapid.SampledFrom([]string{pTLS, pTLS, pNoise}).Draw(rt, "proto"),
		TT:    rapid.SampledFrom(keys.Types).Draw(rt, "verifierKey"),
		TV:    rapid.SampledFrom(keys.Types).Draw(rt, "victimKey"),
		TO:    rapid.SampledFrom(keys.Types).Draw(rt, "bystanderKey"),
		TM:    rapid.SampledFrom(keys.Types).Draw(rt, "attackerKey"),
		ImplV: rapid.SampledFrom([]string{implLibrary, implLibrary, implSpec}).Draw(rt, "victimImpl"),
		ImplO: rapid.SampledFrom([]string{implLibrary, implSpec}).Draw(rt, "bystanderImpl"),
	}
	n := rapid.IntRange(1, 3).Draw(rt, "sessions")
	for i := 0; i < n; i++ {
		s := histSession{
			Who:          rapid.SampledFrom([]string{"V", "V", "V", "O", "M"}).Draw(rt, "who"),
			VerifierInit: rapid.Bool().Draw(rt, "verifierInitiates"),
			Expect:       rapid.SampledFrom([]string{"match", "empty"}).Draw(rt, "verifierExpects"),
		}
		if c.Proto == pNoise && s.VerifierInit {
			s.Expect = "match" // a Noise initiator has to name its peer (or disable the check)
		}
		c.Sessions = append(c.Sessions, s)
	}
	c.FreshVerifier = rapid.IntRange(0, 3).Draw(rt, "freshVerifierTransport") == 0
	c.ObserveAsInit = rapid.Bool().Draw(rt, "attackerInitiatesObservation")
	vs := tlsHistVariants
	if c.Proto == pNoise {
		vs = noiseHistVariants
	}
	na := rapid.IntRange(1, 2).Draw(rt, "attacks")
	for i := 0; i < na; i++ {
		a := histAttack{
			Variant:      vs[rapid.IntRange(0, len(vs)-1).Draw(rt, "variant")].name,
			VerifierInit: rapid.Bool().Draw(rt, "verifierInitiates"),
		}
		exps := []string{"victim", "empty", "attacker"}
		if c.Proto == pNoise {
			exps = []string{"victim", "empty", "nocheck"}
		}
		a.Expect = rapid.SampledFrom(exps).Draw(rt, "verifierExpects")
		if c.Proto == pNoise && a.VerifierInit && a.Expect == "empty" {
			a.Expect = "victim" // a Noise initiator has to name its peer (or disable the check)
		}
		if c.Proto == pTLS {
			a.Direct = rapid.IntRange(0, 3).Draw(rt, "direct") == 0
		}
		c.Attacks = append(c.Attacks, a)
	}
	return c
}

// verifierSide builds the verifier's side for one session.
func verifierSide(T *keys.Identity, st sec.SecureTransport, init bool, expect string, V, M *keys.Identity, remote *keys.Identity) *side {
	s := &side{Me: T, Initiator: init, Kind: expect, st: st}
	switch expect {
	case "match":
		s.Expect = remote.ID
	case "victim":
		s.Expect = V.ID
	case "attacker":
		s.Expect = M.ID
	case "nocheck":
		s.Disable, s.Expect = true, V.ID
		// the same transport object, with the session option that switches the check off
		nt, ok := st.(*noise.Transport)
		if !ok {
			bail("nocheck needs the noise transport, have %T", st)
		}
		sst, err := nt.WithSessionOptions(noise.DisablePeerIDCheck())
		if err != nil {
			bail("WithSessionOptions: %v", err)
		}
		s.st = sst
	}
	return s
}

func runHistory(t *testing.T, rt *rapid.T, c histCase) (labels []string, nontrivial bool) {
	f := fl(t, rt)
	T, M := keys.Get(c.TT, 1), keys.Get(c.TM, 2)
	V := &histPeer{name: "V", id: keys.Get(c.TV, 0), impl: c.ImplV}
	O := &histPeer{name: "O", id: keys.Get(c.TO, 3), impl: c.ImplO}
	Mp := &histPeer{name: "M", id: M, impl: implSpec}
	byName := map[string]*histPeer{"V": V, "O": O, "M": Mp}
	cx := c.key()
	seenByVerifier := false
	labels = []string{"proto:" + c.Proto, fmt.Sprintf("history:%d-sessions", len(c.Sessions)), "victim-impl:" + c.ImplV, "victim-key:" + c.TV, "verifier-key:" + c.TT}
	bubble(t, rt, func() {
		for _, p := range []*histPeer{V, O, Mp} {
			p.setup(c.Proto)
		}
		vst := newTransportFor(c.Proto, T)
		// 1. the honest history
		for i, s := range c.Sessions {
			p := byName[s.Who]
			vs := verifierSide(T, vst, s.VerifierInit, s.Expect, V.id, M, p.id)
			if honestSession(f, fmt.Sprintf("%s: session %d", cx, i), c.Proto, vs, T, p, mkNonce(uint64(i)+11)) && s.Who == "V" {
				seenByVerifier = true
			}
		}
		// 2. the attacker observes what V and O show to anybody
		observe(c.Proto, V, M, c.ObserveAsInit)
		observe(c.Proto, O, M, !c.ObserveAsInit)
		if c.Proto == pNoise {
			if k, _ := payloadFields(V.obsPayload); !bytes.Equal(k, mustMarshalPub(V.id.Pub)) {
				bail("%s: the observed payload does not carry the victim's key", cx)
			}
		}
		if c.FreshVerifier {
			vst = newTransportFor(c.Proto, T)
		}
		// 3. the attacks
		for i, a := range c.Attacks {
			v := histVariantByName(c.Proto, a.Variant)
			ax := fmt.Sprintf("%s: attack %d (%s)", cx, i, a.Variant)
			if a.Direct {
				// the victim's whole certificate is, taken by itself, a valid certificate of V: what stops
				// its replay is the TLS CertificateVerify, which the direct call does not involve
				if a.Variant == "replayed-whole-certificate-other-private-key" {
					directTLS(f, ax, forgeTLS(a.Variant, V, O, M), "benign", V.id)
				} else {
					directTLS(f, ax, forgeTLS(a.Variant, V, O, M), v.class, M)
				}
				continue
			}
			h := verifierSide(T, vst, a.VerifierInit, a.Expect, V.id, M, V.id)
			o := &outcome{}
			nonce := mkNonce(uint64(i) + 23)
			ch, cm := memnet.Pipe(memnet.Options{})
			var wg sync.WaitGroup
			wg.Add(1)
			go func() {
				defer wg.Done()
				hc, cancel := contextWithTimeout()
				defer cancel()
				h.run(hc, c.Proto, ch, nonce, o)
			}()
			var attackerErr error
			if c.Proto == pTLS {
				ep := &plainTLS{fg: forgeTLS(a.Variant, V, O, M), initiator: !a.VerifierInit}
				ep.run(cm, nonce)
				attackerErr = ep.err
			} else {
				ep := &noiseAttacker{initiator: !a.VerifierInit}
				ep.payload, ep.static = forgeNoise(a.Variant, V, O, M)
				ep.run(cm, nonce)
				attackerErr = ep.err
			}
			cm.Close()
			wg.Wait()
			ch.Close()
			// the only identity key the attacker holds and uses is M's
			checkIdentity(f, ax, c.Proto, h, o, M, true)
			checkNoGarbage(f, ax, h, o)
			done := completed(c.Proto, h, o)
			if done && v.class == "forged" {
				f.Fatalf("%s: the verifier %s completed a handshake that carried material replayed from other sessions (%s)", ax, h, o)
			}
			if v.class == "benign" && h.accepts(M.ID) && h.mustAccept(c.Proto, M.ID) && !noConverse {
				if !o.hsOK || !o.echoOK {
					f.Fatalf("%s: the attacker honestly as itself was not accepted: verifier=%s attacker err=%v", ax, o, attackerErr)
				}
			}
			labels = append(labels, "verifier-err:"+errClass(o.hsErr))
			if done {
				labels = append(labels, "verifier-completed-as-attacker")
			}
		}
	})
	if seenByVerifier {
		labels = append(labels, "history:victim-verified-before")
	} else {
		labels = append(labels, "history:victim-never-seen")
	}
	for _, s := range c.Sessions {
		r := "resp"
		if s.VerifierInit {
			r = "init"
		}
		labels = append(labels, "session:"+s.Who+"/verifier-"+r+"/"+byName[s.Who].impl)
	}
	if c.FreshVerifier {
		labels = append(labels, "verifier:new-transport-before-attack")
	}
	for _, a := range c.Attacks {
		v := histVariantByName(c.Proto, a.Variant)
		r := "resp"
		if a.VerifierInit {
			r = "init"
		}
		mode := "handshake"
		if a.Direct {
			mode = "direct"
		}
		labels = append(labels, "attack:"+a.Variant, "attack-on:verifier-"+r+"/expects-"+a.Expect, "attack-mode:"+mode)
		if v.class != "benign" {
			nontrivial = true
			if v.exact && seenByVerifier {
				// the class the history dimension exists for: byte-for-byte material the verifier has
				// itself verified before, now under the attacker's key
				labels = append(labels, "replay-of-material-the-verifier-verified-before")
			}
		}
	}
	return labels, nontrivial
}

// directTLS: PubKeyFromCertChain, after the history, on the attacker's chain.
func directTLS(f failer, ctx string, fg forged, class string, signer *keys.Identity) {
	chain, err := parseChain(fg.chain)
	if err != nil {
		if class == "benign" {
			f.Fatalf("%s: a valid certificate does not parse: %v", ctx, err)
		}
		return
	}
	var (
		key      ic.PubKey
		panicked any
		stack    []byte
	)
	func() {
		defer func() {
			if r := recover(); r != nil {
				panicked, stack = r, debug.Stack()
			}
		}()
		key, err = libp2ptls.PubKeyFromCertChain(chain)
	}()
	if panicked != nil {
		f.Fatalf("%s: PubKeyFromCertChain panicked: %v\n%s", ctx, panicked, stack)
	}
	if err != nil {
		if key != nil {
			f.Fatalf("%s: PubKeyFromCertChain returned a key together with an error", ctx)
		}
		if class == "benign" && !noConverse {
			f.Fatalf("%s: a valid certificate of the attacker's own identity was rejected: %v", ctx, err)
		}
		return
	}
	if key == nil {
		f.Fatalf("%s: PubKeyFromCertChain returned neither key nor error", ctx)
	}
	if class == "forged" {
		id, _ := peer.IDFromPublicKey(key)
		f.Fatalf("%s: PubKeyFromCertChain returned a key (%s) for a certificate under the attacker's certificate key that carries replayed material", ctx, id)
	}
	if !key.Equals(signer.Pub) {
		f.Fatalf("%s: PubKeyFromCertChain returned a key that is not the identity that signed the certificate key", ctx)
	}
}

// TestSessionHistoryReplay: see the comment at the top of this file.
func TestSessionHistoryReplay(t *testing.T) {
	warm()
	name := t.Name()
	hx.Check(t, 320, 30000, 0, func(rt *rapid.T) {
		c := drawHistCase(rt)
		labels, nt := runHistory(t, rt, c)
		stats.Case(name, c.key(), nt, labels...)
		if stats.WantSample(name) {
			stats.Sample(name, map[string]any{"case": c, "labels": labels})
		}
	})
}
