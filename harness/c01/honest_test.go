package c01

import (
	"bytes"
	"fmt"
	"testing"

	"github.com/libp2p/go-libp2p/core/peer"
	"pgregory.net/rapid"

	"verif/internal/hx"
	"verif/internal/keys"
	"verif/internal/memnet"
	"verif/internal/stats"
)

// expSetting is one expected-peer setting of a side.
type expSetting struct {
	kind    string // match | other | self | empty
	disable bool
}

func (e expSetting) String() string {
	if e.disable {
		return e.kind + "+nocheck"
	}
	return e.kind
}

var noiseSettings = []expSetting{{"match", false}, {"other", false}, {"empty", false}, {"match", true}, {"other", true}, {"empty", true}}
var tlsSettings = []expSetting{{"match", false}, {"other", false}, {"empty", false}}

// prologue pairings (noise): what the initiator / responder configure.
var prologuePairs = []struct {
	name       string
	init, resp []byte
	equal      bool
}{
	{"none", nil, nil, true},
	{"equal", []byte("c01-prologue"), []byte("c01-prologue"), true},
	{"different", []byte("c01-prologue"), []byte("c01-prologuf"), false},
	{"init-empty", nil, []byte("c01-prologue"), false},
	{"resp-empty", []byte("c01-prologue"), nil, false},
}

func expectID(kind string, me, remote, third *keys.Identity) peer.ID {
	switch kind {
	case "match":
		return remote.ID
	case "other":
		return third.ID
	case "self":
		return me.ID
	}
	return ""
}

type honestCase struct {
	proto      string
	ti, tr     string
	ei, er     expSetting
	pro        int
	session    bool
	thirdType  string
	proI, proR []byte // overrides the table when non-nil or proCustom
	proCustom  bool
	xi, xr     peer.ID // the named ID when ei / er is one of namedKinds (arbitrary non-empty bytes, never the genuine ID)
}

func (c honestCase) key() string {
	k := fmt.Sprintf("%s|%s>%s|%s|%s|%s|%v|%s|%x|%x", c.proto, c.ti, c.tr, c.ei, c.er, prologuePairs[c.pro].name, c.session, c.thirdType, c.proI, c.proR)
	if c.xi != "" || c.xr != "" {
		k += fmt.Sprintf("|named:%x|%x", string(c.xi), string(c.xr))
	}
	return k
}

// runHonest runs one honest case inside a bubble and applies the oracle.
func runHonest(t *testing.T, rt *rapid.T, c honestCase) (nontrivial bool, labels []string) {
	f := fl(t, rt)
	ia, ib, third := keys.Get(c.ti, 0), keys.Get(c.tr, 1), keys.Get(c.thirdType, 2)
	pi, pr, equal := prologuePairs[c.pro].init, prologuePairs[c.pro].resp, prologuePairs[c.pro].equal
	if c.proCustom {
		pi, pr = c.proI, c.proR
		equal = bytes.Equal(pi, pr)
	}
	if c.proto == pTLS {
		pi, pr, equal = nil, nil, true
	}
	a := &side{Me: ia, Initiator: true, Kind: c.ei.kind, Disable: c.ei.disable, Expect: expectID(c.ei.kind, ia, ib, third), Prologue: pi, Session: c.session}
	b := &side{Me: ib, Initiator: false, Kind: c.er.kind, Disable: c.er.disable, Expect: expectID(c.er.kind, ib, ia, third), Prologue: pr, Session: c.session}
	if isNamedKind(c.ei.kind) {
		a.Expect = c.xi
	}
	if isNamedKind(c.er.kind) {
		b.Expect = c.xr
	}
	if a.Expect == ib.ID && c.ei.kind != "match" || b.Expect == ia.ID && c.er.kind != "match" || (a.Expect == "") != (c.ei.kind == "empty") || (b.Expect == "") != (c.er.kind == "empty") {
		bail("harness: expected-peer setting %s/%s does not have the shape its class promises", c.ei, c.er)
	}
	nonce := mkNonce(uint64(len(c.key())))
	var oa, ob *outcome
	bubble(t, rt, func() {
		ca, cb := memnet.Pipe(memnet.Options{})
		oa, ob = runPair(c.proto, a, b, ca, cb, nonce)
		ca.Close()
		cb.Close()
	})
	ctx := c.key()
	checkIdentity(f, ctx, c.proto, a, oa, ib, equal)
	checkIdentity(f, ctx, c.proto, b, ob, ia, equal)
	checkNoGarbage(f, ctx, a, oa)
	checkNoGarbage(f, ctx, b, ob)
	// "when the local side named the peer it expects, the handshake succeeds only if that peer ID matches",
	// with the statement's notion of completion (TLS client: includes the first Read)
	if completed(c.proto, a, oa) && !a.accepts(ib.ID) {
		f.Fatalf("%s: initiator completed against its own expectation", ctx)
	}
	if completed(c.proto, b, ob) && !b.accepts(ia.ID) {
		f.Fatalf("%s: responder completed against its own expectation", ctx)
	}
	baseline := equal && a.mustAccept(c.proto, ib.ID) && b.mustAccept(c.proto, ia.ID)
	if baseline && !noConverse {
		if !oa.hsOK || !ob.hsOK || !oa.echoOK || !ob.echoOK {
			f.Fatalf("%s: honest baseline (matching settings, equal prologues) did not complete with a working echo: initiator: %s; responder: %s", ctx, oa, ob)
		}
	}
	// a TLS server that rejects the client: the client must notice at the handshake or at its first Read
	if c.proto == pTLS && !ob.hsOK && oa.hsOK && oa.echoOK {
		f.Fatalf("%s: the TLS server rejected the handshake (%v) but the client's first Read succeeded", ctx, ob.hsErr)
	}
	labels = []string{c.proto, "init-key:" + c.ti, "resp-key:" + c.tr, "init-exp:" + c.ei.String(), "resp-exp:" + c.er.String()}
	// the named-ID dimension: how often a side names a peer by a byte string that is not the genuine ID, and of what shape
	for _, s := range []*side{a, b} {
		if s.Expect != "" && s.Expect != map[bool]peer.ID{true: ib.ID, false: ia.ID}[s.Initiator] {
			labels = append(labels, "named-wrong:"+c.proto+"/"+map[bool]string{true: "outbound", false: "inbound"}[s.Initiator]+"/"+namedShape(s.Expect))
		}
	}
	if c.proto == pNoise {
		pl := prologuePairs[c.pro].name
		if c.proCustom {
			switch {
			case pi == nil && pr == nil:
				pl = "none"
			case equal:
				pl = "equal"
			case pi == nil:
				pl = "init-empty"
			case pr == nil:
				pl = "resp-empty"
			default:
				pl = "different"
			}
		}
		labels = append(labels, "prologue:"+pl)
	}
	switch {
	case oa.hsOK && ob.hsOK:
		labels = append(labels, "outcome:both-complete")
	case oa.hsOK:
		labels = append(labels, "outcome:only-initiator")
	case ob.hsOK:
		labels = append(labels, "outcome:only-responder")
	default:
		labels = append(labels, "outcome:none")
	}
	return !baseline, labels
}

// TestHonestMatrix enumerates the honest matrix (domain A).
func TestHonestMatrix(t *testing.T) {
	warm()
	name := t.Name()
	var cases []honestCase
	full := true // ~3000 cases, a few seconds: affordable in both tiers
	for _, ti := range keys.Types {
		for _, tr := range keys.Types {
			for i, ei := range noiseSettings {
				for j, er := range noiseSettings {
					for p := range prologuePairs {
						// quick: all expectation pairs under equal prologues; all prologue pairings under
						// (match,match), (nocheck-other,nocheck-other) and (match, empty)
						if !full && p != 1 && !((i == 0 && j == 0) || (i == 4 && j == 4) || (i == 0 && j == 2)) {
							continue
						}
						cases = append(cases, honestCase{proto: pNoise, ti: ti, tr: tr, ei: ei, er: er, pro: p, session: p == 1 && (i+j)%2 == 1, thirdType: keys.Types[(i+j)%4]})
					}
				}
			}
			for i, ei := range tlsSettings {
				for j, er := range tlsSettings {
					cases = append(cases, honestCase{proto: pTLS, ti: ti, tr: tr, ei: ei, er: er, thirdType: keys.Types[(i+j)%4]})
				}
			}
			// the named peer as a byte string that is not the genuine ID (truncated, stray byte, corrupted
			// multihash header, flipped bit, free-form label, arbitrary bytes): each class x 2 representatives on
			// either side, the other side naming the genuine peer (v=0) or nobody (v=1); equal prologues
			for _, proto := range []string{pNoise, pTLS} {
				for _, kind := range namedKinds {
					for v := 0; v < namedVariants; v++ {
						good := expSetting{kind: []string{"match", "empty"}[v]}
						bad := expSetting{kind: kind}
						cases = append(cases,
							honestCase{proto: proto, ti: ti, tr: tr, ei: bad, er: good, pro: 1, thirdType: ti, xi: fixedNamedID(kind, keys.Get(tr, 1).ID, v)},
							honestCase{proto: proto, ti: ti, tr: tr, ei: good, er: bad, pro: 1, thirdType: ti, xr: fixedNamedID(kind, keys.Get(ti, 0).ID, v)})
					}
				}
			}
		}
	}
	for k, c := range cases {
		if !hx.Mine(k) {
			continue
		}
		nt, labels := runHonest(t, nil, c)
		stats.CaseEnumerated(name, nt, labels...)
		if nt && stats.WantSample(name) {
			stats.Sample(name, map[string]any{"case": c.key()})
		}
	}
	stats.Exhaustive(name)
}

// TestHonestRandom samples the same domain with the remaining dimensions randomised:
// arbitrary prologue bytes, "other" = own ID or a third identity of any key type, plain
// Transport vs SessionTransport.
func TestHonestRandom(t *testing.T) {
	warm()
	name := t.Name()
	hx.Check(t, 800, 60000, 0, func(rt *rapid.T) {
		c := honestCase{
			proto:     rapid.SampledFrom([]string{pNoise, pNoise, pTLS}).Draw(rt, "proto"),
			ti:        rapid.SampledFrom(keys.Types).Draw(rt, "ti"),
			tr:        rapid.SampledFrom(keys.Types).Draw(rt, "tr"),
			thirdType: rapid.SampledFrom(keys.Types).Draw(rt, "third"),
		}
		// "named": a drawn non-empty byte string of one of namedKinds, derived from the genuine remote's ID
		kinds := []string{"match", "match", "other", "self", "empty", "named", "named"}
		c.ei = expSetting{kind: rapid.SampledFrom(kinds).Draw(rt, "ei")}
		c.er = expSetting{kind: rapid.SampledFrom(kinds).Draw(rt, "er")}
		if c.ei.kind == "named" {
			c.ei.kind = rapid.SampledFrom(namedKinds).Draw(rt, "ei-class")
			c.xi = drawNamedID(rt, c.ei.kind, keys.Get(c.tr, 1).ID, "ei")
		}
		if c.er.kind == "named" {
			c.er.kind = rapid.SampledFrom(namedKinds).Draw(rt, "er-class")
			c.xr = drawNamedID(rt, c.er.kind, keys.Get(c.ti, 0).ID, "er")
		}
		if c.proto == pNoise {
			c.ei.disable = rapid.IntRange(0, 3).Draw(rt, "di") == 0
			c.er.disable = rapid.IntRange(0, 3).Draw(rt, "dr") == 0
			c.session = rapid.Bool().Draw(rt, "session")
			c.proCustom = true
			switch rapid.IntRange(0, 4).Draw(rt, "pro") {
			case 0: // none
			case 1: // equal
				c.proI = rapid.SliceOfN(rapid.Byte(), 1, 64).Draw(rt, "prologue")
				c.proR = append([]byte(nil), c.proI...)
			case 2: // one byte differs
				c.proI = rapid.SliceOfN(rapid.Byte(), 1, 64).Draw(rt, "prologue")
				c.proR = append([]byte(nil), c.proI...)
				c.proR[rapid.IntRange(0, len(c.proR)-1).Draw(rt, "at")] ^= byte(1 << rapid.IntRange(0, 7).Draw(rt, "bit"))
			case 3: // prefix
				c.proI = rapid.SliceOfN(rapid.Byte(), 2, 64).Draw(rt, "prologue")
				c.proR = append([]byte(nil), c.proI[:len(c.proI)-1]...)
			case 4: // one side none
				c.proR = rapid.SliceOfN(rapid.Byte(), 1, 64).Draw(rt, "prologue")
				if rapid.Bool().Draw(rt, "swap") {
					c.proI, c.proR = c.proR, nil
				}
			}
		}
		nt, labels := runHonest(t, rt, c)
		stats.Case(name, c.key(), nt, labels...)
		if nt && stats.WantSample(name) {
			stats.Sample(name, map[string]any{"case": c.key()})
		}
	})
}
