package c01

import (
	"context"
	"fmt"
	"io"
	"log/slog"
	"net"
	"sort"
	"strings"
	"sync"
	"testing"
	"testing/synctest"
	"time"

	"github.com/libp2p/go-libp2p/core/network"
	"github.com/libp2p/go-libp2p/core/transport"
	libp2pquic "github.com/libp2p/go-libp2p/p2p/transport/quic"
	"github.com/libp2p/go-libp2p/p2p/transport/quicreuse"
	"github.com/libp2p/go-libp2p/x/simlibp2p"
	"github.com/marcopolo/simnet"
	ma "github.com/multiformats/go-multiaddr"
	"github.com/quic-go/quic-go"
	"pgregory.net/rapid"

	"verif/internal/hx"
	"verif/internal/keys"
	"verif/internal/stats"
)

// Domain F, QUIC transport level: "a dial for peer P never hands the application a
// connection authenticated as anyone other than P" -- asked of the QUIC transport's own
// Dial in each of its three roles: the plain client dial, the client role of a
// simultaneous connect, and the SERVER role of a simultaneous connect (hole punch), in
// which Dial runs no TLS handshake of its own but waits for the peer's inbound connection
// on the punched address. While such a Dial for P is pending, peers connect to the
// dialer's listener: the peer living at the punched ip:port (P itself, or somebody else
// Q), and/or a peer from another address.

// quicNode is one QUIC transport + listener on a simnet endpoint.
type quicNode struct {
	id   *keys.Identity
	ip   string
	cm   *quicreuse.ConnManager
	tr   transport.Transport
	ln   transport.Listener
	addr ma.Multiaddr

	mu       sync.Mutex
	accepted []transport.CapableConn
	done     chan struct{}
}

type fixedSourceIP struct{ ip net.IP }

func (f fixedSourceIP) PreferredSourceIPForDestination(*net.UDPAddr) (net.IP, error) {
	return f.ip, nil
}

func newQUICNode(router *simnet.Simnet, id *keys.Identity, ip string) *quicNode {
	link := simnet.NodeBiDiLinkSettings{
		Downlink: simnet.LinkSettings{BitsPerSecond: 100 * simlibp2p.OneMbps},
		Uplink:   simnet.LinkSettings{BitsPerSecond: 100 * simlibp2p.OneMbps},
	}
	cm, err := quicreuse.NewConnManager(quic.StatelessResetKey{}, quic.TokenGeneratorKey{},
		quicreuse.OverrideSourceIPSelector(func() (quicreuse.SourceIPSelector, error) {
			return fixedSourceIP{net.ParseIP(ip)}, nil
		}),
		quicreuse.OverrideListenUDP(func(_ string, a *net.UDPAddr) (net.PacketConn, error) {
			return router.NewEndpoint(a, link), nil
		}))
	if err != nil {
		bail("conn manager: %v", err)
	}
	tr, err := libp2pquic.NewTransport(id.Priv, cm, nil, nil, nil)
	if err != nil {
		bail("quic transport: %v", err)
	}
	n := &quicNode{id: id, ip: ip, cm: cm, tr: tr, addr: ma.StringCast("/ip4/" + ip + "/udp/8000/quic-v1"), done: make(chan struct{})}
	if n.ln, err = tr.Listen(n.addr); err != nil {
		bail("quic listen: %v", err)
	}
	go func() {
		defer close(n.done)
		for {
			c, err := n.ln.Accept()
			if err != nil {
				return
			}
			n.mu.Lock()
			n.accepted = append(n.accepted, c)
			n.mu.Unlock()
		}
	}()
	return n
}

func (n *quicNode) close() {
	n.ln.Close()
	<-n.done
	n.mu.Lock()
	for _, c := range n.accepted {
		c.Close()
	}
	n.mu.Unlock()
	n.tr.(io.Closer).Close()
	n.cm.Close()
}

// hpAnswer: a peer that connects to the dialer's listener (from its own listening socket,
// i.e. from the address it can be dialled at) delayMs after the dial started.
type hpAnswer struct {
	Who     string `json:"who"` // "P" | "Q"
	DelayMs int    `json:"delay_ms"`
}

type hpCase struct {
	Role    string     `json:"role"`   // plain | simconnect-client | holepunch-server
	Target  string     `json:"target"` // who lives at the dialled address: "P" | "Q" | "nobody"
	TP, TQ  string     // key types of P and Q
	Answers []hpAnswer `json:"answers"`
	Named   string     `json:"named"`    // "P": the dial names P's ID; else one of namedKinds: a non-empty byte string nobody holds
	NamedID string     `json:"named_id"` // hex of the named ID when Named != "P"
}

func (c hpCase) key() string {
	k := fmt.Sprintf("%s|at=%s|p=%s|q=%s|%v", c.Role, c.Target, c.TP, c.TQ, c.Answers)
	if c.Named != "P" {
		k += "|named=" + c.Named + ":" + c.NamedID
	}
	return k
}

func TestQUICDialRoles(t *testing.T) {
	warm()
	name := t.Name()
	hx.Check(t, 240, 8000, 0, func(rt *rapid.T) {
		c := hpCase{
			Role:   rapid.SampledFrom([]string{"holepunch-server", "holepunch-server", "holepunch-server", "simconnect-client", "plain"}).Draw(rt, "role"),
			Target: rapid.SampledFrom([]string{"Q", "Q", "P", "nobody"}).Draw(rt, "target"),
			TP:     rapid.SampledFrom(keys.Types).Draw(rt, "ptype"),
			TQ:     rapid.SampledFrom(keys.Types).Draw(rt, "qtype"),
		}
		if c.Role == "holepunch-server" {
			// who connects to the dialer while the punch is pending
			switch rapid.SampledFrom([]string{"resident", "resident", "resident", "both", "other", "none"}).Draw(rt, "answerers") {
			case "resident":
				if c.Target != "nobody" {
					c.Answers = []hpAnswer{{Who: c.Target}}
				}
			case "both":
				c.Answers = []hpAnswer{{Who: "P"}, {Who: "Q"}}
			case "other":
				if c.Target == "P" {
					c.Answers = []hpAnswer{{Who: "Q"}}
				} else {
					c.Answers = []hpAnswer{{Who: "P"}}
				}
			}
			for i := range c.Answers {
				c.Answers[i].DelayMs = rapid.SampledFrom([]int{0, 0, 1, 7, 30, 120, 450, 2000}).Draw(rt, "delay")
			}
			sort.SliceStable(c.Answers, func(i, j int) bool { return c.Answers[i].DelayMs < c.Answers[j].DelayMs })
		}
		L, P, Q := keys.Ed(5), keys.Get(c.TP, 0), keys.Get(c.TQ, 2)
		// the peer the dial names: P's ID, or (1 in 4) a non-empty byte string that is nobody's ID, derived from
		// the ID of whoever lives at the dialled address (truncated, stray byte, corrupted header, label, ...)
		named := P.ID
		c.Named = "P"
		if rapid.IntRange(0, 3).Draw(rt, "named") == 0 {
			c.Named = rapid.SampledFrom(namedKinds).Draw(rt, "namedClass")
			resident := P.ID
			if c.Target == "Q" {
				resident = Q.ID
			}
			named = drawNamedID(rt, c.Named, resident, "named")
			if named == P.ID || named == Q.ID {
				named += "\x01"
			}
			c.NamedID = fmt.Sprintf("%x", string(named))
		}
		namesP := named == P.ID
		ips := map[string]string{"L": "1.0.0.1", "P": "1.0.0.2", "Q": "1.0.0.3", "nobody": "1.0.0.9"}
		owner := map[string]*keys.Identity{ips["P"]: P, ips["Q"]: Q}
		var (
			dialConn             transport.CapableConn
			dialErr              error
			result               = "refused"
			pAnsweredFromPunched bool
			foreignFromPunched   bool
		)
		hx.Bubble(t, rt, func() {
			router := &simnet.Simnet{LatencyFunc: simnet.StaticLatency(5 * time.Millisecond), Logger: slog.New(slog.DiscardHandler)}
			nl, np, nq := newQUICNode(router, L, ips["L"]), newQUICNode(router, P, ips["P"]), newQUICNode(router, Q, ips["Q"])
			router.Start()
			defer router.Close()
			defer nl.close()
			defer np.close()
			defer nq.close()
			nodes := map[string]*quicNode{"P": np, "Q": nq}

			target := ma.StringCast("/ip4/" + ips[c.Target] + "/udp/8000/quic-v1")
			ctx, cancel := context.WithTimeout(context.Background(), 20*time.Second)
			defer cancel()
			dctx := ctx
			switch c.Role {
			case "holepunch-server":
				dctx = network.WithSimultaneousConnect(ctx, false, "c01")
			case "simconnect-client":
				dctx = network.WithSimultaneousConnect(ctx, true, "c01")
			}
			dialDone := make(chan struct{})
			go func() {
				defer close(dialDone)
				dialConn, dialErr = nl.tr.Dial(dctx, target, named)
			}()
			synctest.Wait() // the hole punch is registered (or the client handshake is under way)

			// the answering peers connect to L from their listening sockets
			type ares struct {
				who  string
				conn transport.CapableConn
				err  error
			}
			results := make([]ares, len(c.Answers))
			var wg sync.WaitGroup
			start := time.Now()
			for i, a := range c.Answers {
				wg.Add(1)
				go func() {
					defer wg.Done()
					time.Sleep(time.Until(start.Add(time.Duration(a.DelayMs) * time.Millisecond)))
					actx, acancel := context.WithTimeout(network.WithSimultaneousConnect(context.Background(), true, "c01"), 10*time.Second)
					defer acancel()
					conn, err := nodes[a.Who].tr.Dial(actx, nl.addr, L.ID)
					results[i] = ares{a.Who, conn, err}
				}()
			}
			wg.Wait()
			<-dialDone
			synctest.Wait()

			cx := c.key()
			// the answering peers authenticate L; their source address is the address they listen on
			for _, r := range results {
				if r.conn == nil {
					continue
				}
				if r.conn.RemotePeer() != L.ID {
					rt.Fatalf("%s: %s dialled the local node and its connection reports %s", cx, r.who, r.conn.RemotePeer())
				}
				if got, want := r.conn.LocalMultiaddr().String(), nodes[r.who].addr.String(); got != want {
					bail("%s: harness: %s did not connect from its listening address (%s vs %s)", cx, r.who, got, want)
				}
				if r.who == "P" && c.Target == "P" && r.conn != nil {
					pAnsweredFromPunched = true
				}
				if r.who == "Q" && c.Target == "Q" && r.conn != nil {
					foreignFromPunched = true
				}
			}
			// the oracle: what Dial(…, P) handed out
			if dialConn != nil && dialErr != nil {
				rt.Fatalf("%s: Dial returned both a connection and an error (%v)", cx, dialErr)
			}
			if dialConn == nil && dialErr == nil {
				rt.Fatalf("%s: Dial returned neither a connection nor an error", cx)
			}
			if dialConn != nil && !namesP {
				rt.Fatalf("%s: QUIC Dial named %q (%x), an ID no peer holds, yet it returned a connection (RemotePeer()=%s; at the dialled address lives %s)",
					cx, named, string(named), dialConn.RemotePeer(), c.Target)
			}
			if dialConn != nil {
				result = "connected"
				if got := dialConn.RemotePeer(); got != P.ID {
					who := "somebody"
					if got == Q.ID {
						who = "Q"
					}
					rt.Fatalf("%s: QUIC Dial for P (%s) returned a connection whose RemotePeer() is %s (%s)", cx, P.ID, got, who)
				}
				if pk := dialConn.RemotePublicKey(); pk == nil || !pk.Equals(P.Pub) {
					rt.Fatalf("%s: QUIC Dial for P returned a connection whose RemotePublicKey() is not P's key", cx)
				}
				// P's private key must really have been used on that connection: P lives at the dialled
				// address (client roles) or connected from it (server role)
				genuine := c.Target == "P" && (c.Role != "holepunch-server" || pAnsweredFromPunched)
				if !genuine {
					rt.Fatalf("%s: QUIC Dial for P returned a connection reported as P although P's key was used on no connection from/to %s", cx, target)
				}
			}
			// whatever the listener handed out reports the key holder at the other end
			nl.mu.Lock()
			for _, ac := range nl.accepted {
				ip, _ := ac.RemoteMultiaddr().ValueForProtocol(ma.P_IP4)
				who := owner[ip]
				if who == nil {
					rt.Fatalf("%s: the listener accepted a connection from %s where no peer lives", cx, ac.RemoteMultiaddr())
				}
				if ac.RemotePeer() != who.ID || ac.RemotePublicKey() == nil || !ac.RemotePublicKey().Equals(who.Pub) {
					rt.Fatalf("%s: the listener's connection from %s reports %s, the key used there belongs to %s", cx, ac.RemoteMultiaddr(), ac.RemotePeer(), who.ID)
				}
			}
			nl.mu.Unlock()
			// converse on the honest baseline
			if !noConverse && namesP {
				switch {
				case c.Role != "holepunch-server" && c.Target == "P" && dialConn == nil:
					rt.Fatalf("%s: dialling P at P's address failed: %v", cx, dialErr)
				case c.Role == "holepunch-server" && pAnsweredFromPunched && dialConn == nil && maxDelay(c.Answers, "P") <= 2000:
					rt.Fatalf("%s: P answered the hole punch from the punched address but the dial failed: %v", cx, dialErr)
				}
			}
			if dialConn != nil {
				dialConn.Close()
			}
			for _, r := range results {
				if r.conn != nil {
					r.conn.Close()
				}
			}
		})
		labels := []string{"role:" + c.Role, "at-dialled-address:" + c.Target, "ptype:" + c.TP, "qtype:" + c.TQ, "result:" + result, "named:" + c.Named}
		if !namesP {
			labels = append(labels, "named-wrong:quic-dial/"+c.Role+"/"+namedShape(named))
		}
		if dialErr != nil {
			switch {
			case strings.Contains(dialErr.Error(), "hole punching attempted"):
				labels = append(labels, "err:no-active-dial")
			case strings.Contains(dialErr.Error(), "peer id mismatch") || strings.Contains(dialErr.Error(), "peer IDs don't match"):
				labels = append(labels, "err:peer-id-mismatch")
			case strings.Contains(dialErr.Error(), "timeout") || strings.Contains(dialErr.Error(), "deadline"):
				labels = append(labels, "err:timeout")
			default:
				labels = append(labels, "err:other")
			}
		}
		for _, a := range c.Answers {
			from := "other-address"
			if a.Who == c.Target {
				from = "punched-address"
			}
			labels = append(labels, "answer:"+a.Who+"-from-"+from)
		}
		if len(c.Answers) == 0 && c.Role == "holepunch-server" {
			labels = append(labels, "answer:none")
		}
		if foreignFromPunched {
			labels = append(labels, "holepunch:other-peer-connected-from-punched-address")
		}
		if pAnsweredFromPunched {
			labels = append(labels, "holepunch:P-connected-from-punched-address")
		}
		// non-trivial: somebody other than P is where the dial goes / connects while it is pending
		nontrivial := c.Target != "P" || len(c.Answers) > 1 || (len(c.Answers) == 1 && c.Answers[0].Who != "P") || !namesP
		stats.Case(name, c.key(), nontrivial, labels...)
		if stats.WantSample(name) {
			stats.Sample(name, map[string]any{"case": c, "result": result, "err": fmt.Sprint(dialErr)})
		}
	})
}

func maxDelay(as []hpAnswer, who string) int {
	m := 0
	for _, a := range as {
		if a.Who == who && a.DelayMs > m {
			m = a.DelayMs
		}
	}
	return m
}
