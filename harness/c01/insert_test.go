package c01

import (
	"bytes"
	"fmt"
	"sync"
	"testing"

	"pgregory.net/rapid"

	"verif/internal/hx"
	"verif/internal/stats"
	"verif/internal/wire"
)

// Operator "insert" (domains B and E): the man in the middle puts 1-3 frames of its own in
// FRONT of handshake frame (dir, idx) -- or behind the last handshake frame of that
// direction (idx == hsFrames[dir]) -- and forwards everything else untouched. The receiver
// therefore gets handshake data the honest peer never sent ("extended"), of every length
// class including the degenerate ones: the empty frame (Noise: the two bytes 00 00; TLS: a
// record header with length 0), 1 and 2 bytes, short, exactly / one less / one more than
// the frame it displaces (filled from that frame = a repeated or cut copy), the largest
// lengths the framing can express.

type insertion struct {
	typ   byte   // TLS: type of the inserted record; 0 = the type of the record it is put in front of
	rel   bool   // n is relative to the payload length of the frame it is put in front of
	n     int    // payload length (rel: difference to the displaced frame's payload length)
	fill  string // zero | a5 | orig (payload of the displaced frame, cut / repeated to the length)
	count int    // number of copies
}

func (in insertion) key() string {
	l := fmt.Sprint(in.n)
	if in.rel {
		l = fmt.Sprintf("orig%+d", in.n)
	}
	return fmt.Sprintf("ins:t%d:%s:%s:x%d", in.typ, l, in.fill, in.count)
}

func (in insertion) lenLabel() string {
	switch {
	case in.rel:
		return fmt.Sprintf("orig%+d", in.n)
	case in.n <= 2:
		return fmt.Sprint(in.n)
	case in.n < 32:
		return "3-31"
	case in.n < 256:
		return "32-255"
	case in.n <= 16384:
		return "256-16384"
	}
	return ">16384"
}

func (in insertion) labels(c editCase) []string {
	out := []string{"ins-len:" + in.lenLabel(), "ins-fill:" + in.fill, fmt.Sprintf("ins-count:%d", in.count)}
	if !in.rel && in.n == 0 {
		out = append(out, "ins-empty-frame@"+frameLabel(c))
	}
	if c.proto == pTLS {
		if in.typ == 0 {
			out = append(out, "ins-type:same-as-next")
		} else {
			out = append(out, fmt.Sprintf("ins-type:%d", in.typ))
		}
	}
	return out
}

// build makes the inserted frame for the frame orig it is put in front of.
func (in insertion) build(f wire.Framing, orig []byte) []byte {
	hl := f.HeaderLen()
	payload := orig[hl:]
	n := in.n
	if in.rel {
		n += len(payload)
	}
	n = max(0, min(n, 65535))
	fr := make([]byte, hl, hl+n)
	if f == wire.TLS {
		fr[0], fr[1], fr[2] = in.typ, 3, 3
		if in.typ == 0 {
			fr[0] = orig[0]
		}
	}
	f.SetPayloadLen(fr, n)
	for i := 0; i < n; i++ {
		switch {
		case in.fill == "orig" && len(payload) > 0:
			fr = append(fr, payload[i%len(payload)])
		case in.fill == "a5":
			fr = append(fr, 0xA5)
		default:
			fr = append(fr, 0)
		}
	}
	return fr
}

func insertEditor(f wire.Framing, c editCase) (wire.Editor, func() wire.Applied) {
	var mu sync.Mutex
	var ap wire.Applied
	ed := func(fr wire.Frame) [][]byte {
		if fr.Dir != c.dir || fr.Index != c.idx {
			return [][]byte{fr.Raw}
		}
		ins := c.ins.build(f, fr.Raw)
		var out [][]byte
		for i := 0; i < max(1, c.ins.count); i++ {
			out = append(out, ins)
		}
		mu.Lock()
		ap = wire.Applied{Hit: true, Changed: true, Orig: fr.Raw, N: len(ins) - f.HeaderLen()}
		mu.Unlock()
		return append(out, fr.Raw)
	}
	return ed, func() wire.Applied { mu.Lock(); defer mu.Unlock(); return ap }
}

// classifyInsert: an inserted frame in front of a handshake frame is handshake data the
// honest peer did not send: its receiver must not complete (strict). Exceptions, all stated
// as assumptions in TestMain:
//   - behind the receiver's last handshake frame the bytes are post-handshake data (trailing);
//     so is a byte-identical copy put in front of the receiver's last handshake frame (the
//     receiver consumes the copy, the original trails: the existing "dup" case);
//   - TLS ChangeCipherSpec and alert records are not part of the TLS 1.3 handshake transcript
//     (crypto/tls ignores a well-formed CCS during the handshake and a warning alert before the
//     version is negotiated): identity oracle only.
func classifyInsert(c editCase, ap wire.Applied) string {
	n := hsFrames(c.proto)[c.dir]
	if c.idx >= n {
		return "trailing"
	}
	f := framing(c.proto)
	ins := c.ins.build(f, ap.Orig)
	if c.proto == pTLS && (ins[0] == 20 || ins[0] == 21) {
		return "identity"
	}
	if c.idx == n-1 && bytes.Equal(ins, ap.Orig) {
		return "trailing"
	}
	return "strict"
}

var insFills = []string{"zero", "a5", "orig"}
var insTLSTypes = []byte{0, 20, 21, 22, 23, 24, 0xff}

func drawInsertion(rt *rapid.T, proto string) insertion {
	in := insertion{count: 1}
	switch rapid.IntRange(0, 9).Draw(rt, "ins-len-class") {
	case 0, 1:
		in.n = 0
	case 2:
		in.n = 1
	case 3:
		in.n = 2
	case 4:
		in.n = rapid.IntRange(3, 31).Draw(rt, "ins-n")
	case 5:
		in.n = rapid.IntRange(32, 255).Draw(rt, "ins-n")
	case 6:
		in.n = rapid.IntRange(256, 16384).Draw(rt, "ins-n")
	case 7:
		in.n = rapid.SampledFrom([]int{16385, 16640, 16641, 65535}).Draw(rt, "ins-n")
	default:
		in.rel, in.n = true, rapid.IntRange(-1, 1).Draw(rt, "ins-delta")
	}
	in.fill = rapid.SampledFrom(insFills).Draw(rt, "ins-fill")
	if in.n == 0 && !in.rel {
		in.fill = "zero" // nothing to fill
	}
	if rapid.IntRange(0, 3).Draw(rt, "ins-many") == 0 {
		in.count = rapid.IntRange(2, 3).Draw(rt, "ins-count")
	}
	if proto == pTLS {
		in.typ = rapid.SampledFrom(insTLSTypes).Draw(rt, "ins-type")
	}
	return in
}

// insertEnumerated: every insertion position (in front of each handshake frame and behind the
// last one, both directions) x every length class representative x fill x (TLS) record type,
// key types / expected-peer setting / prologue rotating with the enumeration index.
func insertEnumerated(t *testing.T, proto string) {
	warm()
	name := t.Name()
	type ln struct {
		rel bool
		n   int
	}
	lens := []ln{{false, 0}, {false, 1}, {false, 2}, {false, 3}, {false, 31}, {false, 32}, {false, 33}, {false, 48}, {false, 255}, {false, 65535}, {true, -1}, {true, 0}, {true, 1}}
	fills := insFills
	types := []byte{0}
	if proto == pTLS {
		lens = hx.Pick(
			[]ln{{false, 0}, {false, 1}, {false, 2}, {false, 64}, {false, 16641}, {true, 0}},
			[]ln{{false, 0}, {false, 1}, {false, 2}, {false, 5}, {false, 64}, {false, 16384}, {false, 16385}, {false, 16641}, {false, 65535}, {true, -1}, {true, 0}, {true, 1}})
		fills = hx.Pick([]string{"orig"}, insFills)
		types = insTLSTypes
	}
	pairs := allPairs()
	n := hsFrames(proto)
	k := 0
	for d := wire.AtoB; d <= wire.BtoA; d++ {
		for idx := 0; idx <= n[d]; idx++ {
			for _, typ := range types {
				for _, l := range lens {
					for fi, fill := range fills {
						counts := []int{1}
						if !l.rel && l.n == 0 {
							if fi > 0 {
								continue
							}
							fill, counts = "zero", []int{1, 2, 3}
						}
						for _, cnt := range counts {
							k++
							if !hx.Mine(k) {
								continue
							}
							p := pairs[k%len(pairs)]
							c := editCase{proto: proto, ti: p[0], tr: p[1], respKind: []string{"match", "empty"}[(k/16)%2], prologue: (k/32)%2 == 1,
								op: "insert", dir: d, idx: idx, ins: insertion{typ: typ, rel: l.rel, n: l.n, fill: fill, count: cnt}}
							nt, labels := runEdit(t, nil, c)
							stats.CaseEnumerated(name, nt, labels...)
							if nt && stats.WantSample(name) {
								stats.Sample(name, map[string]any{"case": c.key(), "labels": labels})
							}
						}
					}
				}
			}
		}
	}
	stats.Exhaustive(name)
}

// TestNoiseInsertEnumerated: frames inserted at every position of the Noise XX handshake.
func TestNoiseInsertEnumerated(t *testing.T) { insertEnumerated(t, pNoise) }

// TestTLSInsertEnumerated: records inserted at every position of the TLS 1.3 handshake.
func TestTLSInsertEnumerated(t *testing.T) { insertEnumerated(t, pTLS) }
