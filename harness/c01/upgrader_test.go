package c01

import (
	"context"
	"fmt"
	"net"
	"testing"
	"testing/synctest"
	"time"

	"github.com/libp2p/go-libp2p/core/network"
	"github.com/libp2p/go-libp2p/core/peer"
	"github.com/libp2p/go-libp2p/core/transport"
	manet "github.com/multiformats/go-multiaddr/net"
	"pgregory.net/rapid"

	"verif/internal/hx"
	"verif/internal/keys"
	"verif/internal/memnet"
	"verif/internal/stats"
)

// TestUpgraderExpectedPeer: the upgrader itself (multistream-select + Noise/TLS + yamux), in
// either role, with and without a named peer. A side that names the peer it expects gets a
// connection only if the authenticated remote is that peer -- also in the server role, which
// is what a simultaneous-open (hole punch) TCP dial uses: the transport's Dial passes the
// dialled peer together with DirInbound. Whatever a side gets back reports the real remote.
func TestUpgraderExpectedPeer(t *testing.T) {
	warm()
	name := t.Name()
	secLists := [][]string{{pNoise}, {pTLS}, {pNoise, pTLS}, {pTLS, pNoise}}
	// the client role requires a named peer; "named" = a drawn non-empty byte string that is not the genuine
	// ID (truncated / stray byte / corrupted multihash header / flipped bit / label / arbitrary bytes)
	kinds := []string{"match", "match", "other", "named"}
	hx.Check(t, 300, 20000, 0, func(rt *rapid.T) {
		ta := rapid.SampledFrom(keys.Types).Draw(rt, "atype")
		tb := rapid.SampledFrom(keys.Types).Draw(rt, "btype")
		tc := rapid.SampledFrom(keys.Types).Draw(rt, "thirdtype")
		A, B, third := keys.Get(ta, 0), keys.Get(tb, 1), keys.Get(tc, 2)
		secs := rapid.SampledFrom(secLists).Draw(rt, "sec")
		// A is the multistream/security client, B the server (the roles are what the
		// direction argument selects; either may be "the dialer" at transport level)
		ka := rapid.SampledFrom(kinds).Draw(rt, "clientExpects")
		kb := rapid.SampledFrom([]string{"match", "other", "other", "empty", "named", "named"}).Draw(rt, "serverExpects")
		ea, eb := expectID(ka, A, B, third), expectID(kb, B, A, third)
		if ka == "named" {
			ka = rapid.SampledFrom(namedKinds).Draw(rt, "clientClass")
			ea = drawNamedID(rt, ka, B.ID, "client")
		}
		if kb == "named" {
			kb = rapid.SampledFrom(namedKinds).Draw(rt, "serverClass")
			eb = drawNamedID(rt, kb, A.ID, "server")
		}
		wrongA, wrongB := ea != "" && ea != B.ID, eb != "" && eb != A.ID
		type res struct {
			conn transport.CapableConn
			err  error
		}
		var ra, rb res
		hx.Bubble(t, rt, func() {
			nw := &memNetwork{at: map[string]*memTransport{}}
			at, err := newMemTransport(nw, A, secs)
			if err != nil {
				rt.Fatalf("transport: %v", err)
			}
			bt, err := newMemTransport(nw, B, secs)
			if err != nil {
				rt.Fatalf("transport: %v", err)
			}
			ca, cb := memnet.Pipe(memnet.Options{LocalAddr: &net.TCPAddr{IP: net.IPv4(10, 9, 0, 1), Port: 5555}, RemoteAddr: &net.TCPAddr{IP: net.IPv4(10, 9, 0, 2), Port: 4001}})
			mca, err := manet.WrapNetConn(ca)
			if err != nil {
				rt.Fatalf("wrap: %v", err)
			}
			mcb, err := manet.WrapNetConn(cb)
			if err != nil {
				rt.Fatalf("wrap: %v", err)
			}
			done := make(chan struct{})
			go func() {
				defer close(done)
				ctx, cancel := context.WithTimeout(context.Background(), 20*time.Second)
				defer cancel()
				rb.conn, rb.err = bt.up.Upgrade(ctx, bt, mcb, network.DirInbound, eb, &network.NullScope{})
				if rb.err != nil {
					cb.Close()
				}
			}()
			ctx, cancel := context.WithTimeout(context.Background(), 20*time.Second)
			ra.conn, ra.err = at.up.Upgrade(ctx, at, mca, network.DirOutbound, ea, &network.NullScope{})
			cancel()
			if ra.err != nil {
				ca.Close()
			}
			<-done
			synctest.Wait()
			cx := fmt.Sprintf("sec=%v client=%s(expects %s %x) server=%s(expects %s %x)", secs, ta, ka, string(ea), tb, kb, string(eb))
			judge := func(role string, r res, expect peer.ID, remote *keys.Identity) {
				if r.conn == nil {
					return
				}
				if got := r.conn.RemotePeer(); got != remote.ID {
					rt.Fatalf("%s: the %s's upgraded connection reports remote peer %s, the remote proved %s", cx, role, got, remote.ID)
				}
				if pk := r.conn.RemotePublicKey(); pk != nil {
					if id, err := peer.IDFromPublicKey(pk); err != nil || id != remote.ID {
						rt.Fatalf("%s: the %s's upgraded connection reports a public key of %s (%v), the remote proved %s", cx, role, id, err, remote.ID)
					}
				}
				if expect != "" && expect != remote.ID {
					rt.Fatalf("%s: the %s named %s as the peer it expects, yet Upgrade returned a connection to %s", cx, role, expect, remote.ID)
				}
			}
			judge("client", ra, ea, B)
			judge("server", rb, eb, A)
			if !wrongA && !wrongB && !noConverse {
				if ra.conn == nil || rb.conn == nil {
					rt.Fatalf("%s: honest baseline did not upgrade: client %v, server %v", cx, ra.err, rb.err)
				}
			}
			for _, r := range []res{ra, rb} {
				if r.conn != nil {
					r.conn.Close()
				}
			}
			ca.Close()
			cb.Close()
			synctest.Wait()
		})
		out := func(r res) string {
			if r.conn != nil {
				return "upgraded"
			}
			return "refused"
		}
		labels := []string{"sec:" + fmt.Sprint(secs), "client-expects:" + ka, "server-expects:" + kb, "client:" + out(ra), "server:" + out(rb)}
		if wrongA {
			labels = append(labels, "named-wrong:"+secs[0]+"/outbound/"+namedShape(ea))
		}
		if wrongB {
			labels = append(labels, "named-wrong:"+secs[0]+"/inbound/"+namedShape(eb))
		}
		stats.Case(name, fmt.Sprintf("%v|%s|%s|%s|%s|%s|%x|%x", secs, ta, tb, tc, ka, kb, string(ea), string(eb)), wrongA || wrongB, labels...)
		if stats.WantSample(name) {
			stats.Sample(name, map[string]any{"sec": secs, "client": ta, "server": tb, "clientExpects": ka, "serverExpects": kb, "clientResult": out(ra), "serverResult": out(rb)})
		}
	})
}
