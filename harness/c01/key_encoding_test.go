package c01

import (
	"bytes"
	"crypto/sha256"
	"fmt"
	"math/big"
	"strings"
	"sync"
	"testing"

	"github.com/flynn/noise"
	"github.com/libp2p/go-libp2p/core/peer"
	"google.golang.org/protobuf/encoding/protowire"
	"pgregory.net/rapid"

	"verif/internal/hx"
	"verif/internal/keys"
	"verif/internal/memnet"
	"verif/internal/stats"
)

// Domain G: the ENCODING of the identity key the remote presents.
//
// The statement speaks of "the peer ID derived from a public key whose private key the
// remote used". A peer ID is a function of the KEY (peer-ids spec: the multihash of the
// canonical protobuf encoding {Type, Data} of the key: identity hash up to 42 bytes,
// sha2-256 above), not of the bytes the remote chose to put on the wire. The remote here
// holds identity key M, signs correctly with M, behaves honestly in every other respect,
// but encodes the crypto.pb.PublicKey message inside the Noise handshake payload / the TLS
// certificate extension in another valid way: unknown fields, fields reordered, repeated
// fields (protobuf: the last occurrence wins), over-long varints in tags / lengths / values,
// high bits on the enum varint, another point format (secp256k1) or BER length form
// (PKIX keys) for Data; for Noise additionally the same operators on the payload message.
//
// Oracle (identity form only -- the statement neither promises acceptance nor rejection
// of such encodings): whatever completes reports RemotePeer() == the canonical ID of M,
// RemotePublicKey() equal to M's key, and the local expectation -- empty, M's ID, another
// peer's ID, or the "alias" ID one obtains by hashing the presented bytes instead of the
// key -- is satisfied by M's canonical ID. The unmodified encoding (control) must be
// accepted wherever the documentation promises acceptance.

// pbItem is one field occurrence of a hand-encoded protobuf message.
type pbItem struct {
	num                    protowire.Number
	wt                     protowire.Type
	u                      uint64 // varint / fixed value
	b                      []byte // bytes value (group: encoded content)
	padTag, padLen, padVal int    // extra continuation bytes on the tag / length / value varint
}

// appendPaddedVarint appends v with pad redundant continuation bytes (0x80 ... 0x00),
// never exceeding the 10 bytes a varint may occupy.
func appendPaddedVarint(b []byte, v uint64, pad int) []byte {
	start := len(b)
	b = protowire.AppendVarint(b, v)
	n := len(b) - start
	if n+pad > 10 {
		pad = 10 - n
	}
	if pad <= 0 {
		return b
	}
	b[len(b)-1] |= 0x80
	for i := 0; i < pad-1; i++ {
		b = append(b, 0x80)
	}
	return append(b, 0x00)
}

func encodeItems(items []pbItem) []byte {
	var b []byte
	for _, it := range items {
		b = appendPaddedVarint(b, protowire.EncodeTag(it.num, it.wt), it.padTag)
		switch it.wt {
		case protowire.VarintType:
			b = appendPaddedVarint(b, it.u, it.padVal)
		case protowire.Fixed32Type:
			b = protowire.AppendFixed32(b, uint32(it.u))
		case protowire.Fixed64Type:
			b = protowire.AppendFixed64(b, it.u)
		case protowire.BytesType:
			b = appendPaddedVarint(b, uint64(len(it.b)), it.padLen)
			b = append(b, it.b...)
		case protowire.StartGroupType:
			b = append(b, it.b...)
			b = protowire.AppendVarint(b, protowire.EncodeTag(it.num, protowire.EndGroupType))
		}
	}
	return b
}

// encOp is one re-encoding operator.
type encOp struct {
	kind string // unknown | reorder | pad-tag | pad-len | pad-val | dup-type | dup-data | type-high | data-alt
	at   int    // insertion point / item selector
	num  int    // unknown: field number
	wt   int    // unknown: wire type
	u    uint64 // unknown: scalar value
	b    []byte // unknown / dup-data: bytes value
	n    int    // pad amount / sub-variant
	cls  string // unknown: field-number class (label only)
}

func (o encOp) String() string {
	switch o.kind {
	case "unknown":
		return fmt.Sprintf("unknown(at=%d,num=%d,wt=%d,u=%d,b=%x)", o.at, o.num, o.wt, o.u, o.b)
	case "reorder":
		return "reorder"
	case "dup-data":
		return fmt.Sprintf("dup-data(%d,%x)", o.n, o.b)
	}
	return fmt.Sprintf("%s(at=%d,n=%d)", o.kind, o.at, o.n)
}

func (o encOp) label() string {
	switch o.kind {
	case "unknown":
		return "unknown-field/" + o.cls + "/" + wtName(protowire.Type(o.wt))
	case "dup-type":
		return "dup-type/" + []string{"same", "other-type", "other-type", "other-type", "undefined-enum"}[o.n]
	case "dup-data":
		return "dup-data/" + []string{"same", "other-key", "empty", "random"}[o.n]
	}
	return o.kind
}

func wtName(t protowire.Type) string {
	switch t {
	case protowire.VarintType:
		return "varint"
	case protowire.Fixed32Type:
		return "fixed32"
	case protowire.Fixed64Type:
		return "fixed64"
	case protowire.BytesType:
		return "bytes"
	case protowire.StartGroupType:
		return "group"
	}
	return "?"
}

func opsString(ops []encOp) string {
	s := make([]string, len(ops))
	for i, o := range ops {
		s[i] = o.String()
	}
	return strings.Join(s, "+")
}

func lastItem(items []pbItem, num protowire.Number, wt protowire.Type) int {
	for i := len(items) - 1; i >= 0; i-- {
		if items[i].num == num && items[i].wt == wt {
			return i
		}
	}
	return -1
}

func insertItem(items []pbItem, at int, it pbItem) []pbItem {
	out := make([]pbItem, 0, len(items)+1)
	out = append(out, items[:at]...)
	out = append(out, it)
	return append(out, items[at:]...)
}

// nthOfType returns the index of the k-th (mod count) item with wire type wt, -1 if none.
func nthOfType(items []pbItem, wt protowire.Type, k int) int {
	var idx []int
	for i, it := range items {
		if it.wt == wt {
			idx = append(idx, i)
		}
	}
	if len(idx) == 0 {
		return -1
	}
	return idx[k%len(idx)]
}

// applyOp applies op to a message. keyLevel: the message is crypto.pb.PublicKey of a key of
// type tm (type tag typ); other = raw bytes of another key of the same type.
func applyOp(items []pbItem, op encOp, keyLevel bool, tm string, typ int, other []byte) []pbItem {
	switch op.kind {
	case "unknown":
		it := pbItem{num: protowire.Number(op.num), wt: protowire.Type(op.wt), u: op.u, b: op.b}
		return insertItem(items, op.at%(len(items)+1), it)
	case "reorder":
		return append(append([]pbItem{}, items[1:]...), items[0])
	case "pad-tag":
		items[op.at%len(items)].padTag = op.n
	case "pad-len":
		if i := nthOfType(items, protowire.BytesType, op.at); i >= 0 {
			items[i].padLen = op.n
		}
	case "pad-val":
		if i := nthOfType(items, protowire.VarintType, op.at); i >= 0 {
			items[i].padVal = op.n
		}
	case "dup-type":
		if i := lastItem(items, 1, protowire.VarintType); keyLevel && i >= 0 {
			v := uint64(typ)
			switch {
			case op.n >= 1 && op.n <= 3:
				v = uint64((typ + op.n) % 4)
			case op.n == 4:
				v = 7
			}
			return insertItem(items, i, pbItem{num: 1, wt: protowire.VarintType, u: v})
		}
	case "dup-data":
		if i := lastItem(items, 2, protowire.BytesType); keyLevel && i >= 0 {
			var b []byte
			switch op.n {
			case 0:
				b = items[i].b
			case 1:
				b = other
			case 3:
				b = op.b
			}
			return insertItem(items, i, pbItem{num: 2, wt: protowire.BytesType, b: b})
		}
	case "type-high":
		if i := lastItem(items, 1, protowire.VarintType); keyLevel && i >= 0 {
			items[i].u |= 1 << (32 + uint(op.n)%32)
		}
	case "data-alt":
		if i := lastItem(items, 2, protowire.BytesType); keyLevel && i >= 0 {
			switch tm {
			case "secp256k1":
				items[i].b = secpExpand(items[i].b, op.n%2 == 1)
			case "rsa", "ecdsa":
				items[i].b = berLongLength(items[i].b)
			}
		}
	}
	return items
}

var secpP, _ = new(big.Int).SetString("fffffffffffffffffffffffffffffffffffffffffffffffffffffffefffffc2f", 16)

// secpExpand turns a compressed secp256k1 point (SEC1: 02/03 || X) into the uncompressed
// (04 || X || Y) or hybrid (06/07 || X || Y) encoding of the same point.
func secpExpand(comp []byte, hybrid bool) []byte {
	if len(comp) != 33 || (comp[0] != 2 && comp[0] != 3) {
		return comp
	}
	x := new(big.Int).SetBytes(comp[1:])
	y2 := new(big.Int).Exp(x, big.NewInt(3), secpP)
	y2.Add(y2, big.NewInt(7)).Mod(y2, secpP)
	e := new(big.Int).Add(secpP, big.NewInt(1))
	e.Rsh(e, 2)
	y := new(big.Int).Exp(y2, e, secpP) // p = 3 mod 4
	if y.Bit(0) != uint(comp[0]&1) {
		y.Sub(secpP, y)
	}
	out := make([]byte, 65)
	out[0] = 4
	if hybrid {
		out[0] = 6 | byte(y.Bit(0))
	}
	copy(out[1:33], comp[1:])
	y.FillBytes(out[33:])
	return out
}

// berLongLength re-encodes the length of the outer SEQUENCE of a DER value with one more
// length byte than necessary (valid BER, not DER).
func berLongLength(der []byte) []byte {
	if len(der) < 2 || der[0] != 0x30 {
		return der
	}
	l := der[1]
	if l < 0x80 {
		return append([]byte{0x30, 0x81, l}, der[2:]...)
	}
	n := int(l & 0x7f)
	if n == 0 || len(der) < 2+n {
		return der
	}
	out := []byte{0x30, 0x80 | byte(n+1), 0x00}
	return append(out, der[2:]...)
}

// specPeerID derives a peer ID from an ENCODED public key as the peer-ids specification
// prescribes (written from the specification: identity multihash up to 42 bytes,
// sha2-256 multihash above).
func specPeerID(enc []byte) peer.ID {
	if len(enc) <= 42 {
		return peer.ID(append([]byte{0x00, byte(len(enc))}, enc...))
	}
	h := sha256.Sum256(enc)
	return peer.ID(append([]byte{0x12, 0x20}, h[:]...))
}

var keyLevelKinds = map[string][]string{
	"ed25519":   {"unknown", "unknown", "unknown", "reorder", "pad-tag", "pad-len", "pad-val", "dup-type", "dup-data", "type-high"},
	"ecdsa":     {"unknown", "unknown", "unknown", "reorder", "pad-tag", "pad-len", "pad-val", "dup-type", "dup-data", "type-high", "data-alt"},
	"rsa":       {"unknown", "unknown", "unknown", "reorder", "pad-tag", "pad-len", "pad-val", "dup-type", "dup-data", "type-high", "data-alt"},
	"secp256k1": {"unknown", "unknown", "unknown", "reorder", "pad-tag", "pad-len", "pad-val", "dup-type", "dup-data", "type-high", "data-alt", "data-alt"},
}

var payloadLevelKinds = []string{"unknown", "unknown", "reorder", "pad-tag", "pad-len"}

// drawEncOp draws one operator. known = field numbers the message defines (an unknown field
// avoids them, or uses one of them with a wire type the schema does not give it).
func drawEncOp(rt *rapid.T, kinds []string, keyLevel bool, tag string) encOp {
	op := encOp{kind: rapid.SampledFrom(kinds).Draw(rt, tag+"-kind")}
	switch op.kind {
	case "unknown":
		op.at = rapid.IntRange(0, 3).Draw(rt, tag+"-at")
		op.cls = rapid.SampledFrom([]string{"small", "small", "medium", "large", "defined-number-other-wiretype"}).Draw(rt, tag+"-numclass")
		wts := []protowire.Type{protowire.VarintType, protowire.Fixed32Type, protowire.Fixed64Type, protowire.BytesType, protowire.StartGroupType}
		switch op.cls {
		case "small":
			op.num = rapid.IntRange(5, 15).Draw(rt, tag+"-num")
		case "medium":
			op.num = rapid.IntRange(16, 2047).Draw(rt, tag+"-num")
		case "large":
			op.num = rapid.IntRange(2048, 1<<29-1).Draw(rt, tag+"-num")
		default:
			op.num = rapid.IntRange(1, 2).Draw(rt, tag+"-num")
			if keyLevel && op.num == 1 { // Type is a varint
				wts = []protowire.Type{protowire.Fixed32Type, protowire.Fixed64Type, protowire.BytesType}
			} else { // Data, identity_key, identity_sig are bytes
				wts = []protowire.Type{protowire.VarintType, protowire.Fixed32Type, protowire.Fixed64Type}
			}
		}
		op.wt = int(rapid.SampledFrom(wts).Draw(rt, tag+"-wt"))
		switch protowire.Type(op.wt) {
		case protowire.BytesType:
			op.b = rapid.SliceOfN(rapid.Byte(), 0, 6).Draw(rt, tag+"-bytes")
		case protowire.StartGroupType: // empty group
		default:
			op.u = rapid.Uint64().Draw(rt, tag+"-val")
		}
	case "pad-tag", "pad-len", "pad-val":
		op.at = rapid.IntRange(0, 3).Draw(rt, tag+"-at")
		op.n = rapid.IntRange(1, 4).Draw(rt, tag+"-pad")
	case "dup-type":
		op.n = rapid.IntRange(0, 4).Draw(rt, tag+"-variant")
	case "dup-data":
		op.n = rapid.IntRange(0, 3).Draw(rt, tag+"-variant")
		if op.n == 3 {
			op.b = rapid.SliceOfN(rapid.Byte(), 1, 40).Draw(rt, tag+"-bytes")
		}
	case "type-high":
		op.n = rapid.IntRange(0, 31).Draw(rt, tag+"-bit")
	case "data-alt":
		op.n = rapid.IntRange(0, 1).Draw(rt, tag+"-variant")
	}
	return op
}

type encCase struct {
	proto      string
	tm         string // key type of the remote
	honestInit bool   // role of the verifying (honest) side
	expect     string // empty | match | alias | other | nocheck
	ops        []encOp
	outer      []encOp // noise: operators on the handshake payload message
}

func (c encCase) key() string {
	return fmt.Sprintf("%s|remote=%s|honestInit=%v|%s|key:%s|payload:%s", c.proto, c.tm, c.honestInit, c.expect, opsString(c.ops), opsString(c.outer))
}

func runKeyEncoding(t *testing.T, rt *rapid.T, c encCase) (nontrivial bool, labels []string) {
	f := fl(t, rt)
	M, other := keys.Get(c.tm, 2), keys.Get(c.tm, 0)
	canonical := pubKeyProto(typeTag(M), rawKey(M))
	// harness self-checks: the pool's ID is the canonical ID of the specification
	if specPeerID(canonical) != M.ID {
		f.Fatalf("harness: the specification-level peer ID of the %s pool key differs from the pool's ID", c.tm)
	}
	items := []pbItem{{num: 1, wt: protowire.VarintType, u: uint64(typeTag(M))}, {num: 2, wt: protowire.BytesType, b: rawKey(M)}}
	if !bytes.Equal(encodeItems(items), canonical) {
		f.Fatalf("harness: the item encoder does not reproduce the canonical encoding")
	}
	for _, op := range c.ops {
		items = applyOp(items, op, true, c.tm, typeTag(M), rawKey(other))
	}
	enc := encodeItems(items)
	alias := specPeerID(enc)

	h := &side{Me: keys.Get("ed25519", 1), Initiator: c.honestInit, Kind: c.expect}
	switch c.expect {
	case "match":
		h.Expect = M.ID
	case "alias":
		h.Expect = alias
	case "other":
		h.Expect = other.ID
	case "nocheck":
		h.Disable, h.Expect = true, other.ID
	}
	nonce := mkNonce(uint64(len(enc))*131 + uint64(len(c.ops)))
	o := &outcome{}
	var attDone, attEcho bool
	var attErr error
	payloadChanged := false
	bubble(t, rt, func() {
		ch, cm := memnet.Pipe(memnet.Options{})
		var wg sync.WaitGroup
		wg.Add(1)
		go func() {
			defer wg.Done()
			ctx, cancel := contextWithTimeout()
			defer cancel()
			h.run(ctx, c.proto, ch, nonce, o)
		}()
		switch c.proto {
		case pNoise:
			att := &noiseAttacker{initiator: !c.honestInit}
			att.payload = func(s noise.DHKey) []byte {
				sig := mustSign(M.Priv, append([]byte(noisePrefix), s.Public...))
				pl := []pbItem{{num: 1, wt: protowire.BytesType, b: enc}, {num: 2, wt: protowire.BytesType, b: sig}}
				plain := encodeItems(pl)
				for _, op := range c.outer {
					pl = applyOp(pl, op, false, c.tm, 0, nil)
				}
				out := encodeItems(pl)
				payloadChanged = !bytes.Equal(out, plain)
				return out
			}
			att.run(cm, nonce)
			attDone, attEcho, attErr = att.hsDone, att.echoOK, att.err
		case pTLS:
			k := newCertKey()
			att := &tlsAttacker{initiator: !c.honestInit, fg: single(k, p2pExt(extValue(enc, M.Priv, tlsPrefix, k.Public())))}
			att.run(cm, nonce)
			attDone, attEcho, attErr = att.hsDone, att.echoOK, att.err
		}
		cm.Close()
		wg.Wait()
		ch.Close()
	})
	ctx := c.key()
	keyChanged := !bytes.Equal(enc, canonical)
	// the only private key the remote holds and uses is M's: whatever completes is M, under M's canonical ID
	checkIdentity(f, ctx, c.proto, h, o, M, true)
	checkNoGarbage(f, ctx, h, o)
	if o.hsOK && o.remotePeer != specPeerID(canonical) {
		f.Fatalf("%s: completed with RemotePeer()=%s which is not the ID of the canonical encoding of the remote's key (%s); presented key bytes %x", ctx, o.remotePeer, M.ID, enc)
	}
	if !keyChanged && !payloadChanged && h.mustAccept(c.proto, M.ID) && !noConverse {
		if !o.hsOK || !o.echoOK || !attEcho {
			f.Fatalf("%s: a remote presenting the canonical encoding of its own key was not accepted: honest=%s remote: done=%v echo=%v err=%v", ctx, o, attDone, attEcho, attErr)
		}
	}
	exp := c.expect
	if exp == "alias" && alias == M.ID {
		exp = "match"
	}
	labels = []string{c.proto, "remote-key:" + c.tm, "expect:" + exp, "honest-err:" + errClass(o.hsErr)}
	if c.honestInit {
		labels = append(labels, "honest:initiator")
	} else {
		labels = append(labels, "honest:responder")
	}
	for _, op := range c.ops {
		labels = append(labels, "key-op:"+op.label())
	}
	if len(c.ops) == 1 && len(c.outer) == 0 && h.mustAccept(c.proto, M.ID) {
		// how the library treats each operator on its own (information only; either outcome is allowed)
		r := "rejected"
		if o.hsOK {
			r = "accepted"
		}
		labels = append(labels, "single-key-op-where-canonical-is-accepted:"+strings.SplitN(c.ops[0].label(), "/", 2)[0]+":"+r)
	}
	for _, op := range c.outer {
		labels = append(labels, "payload-op:"+op.label())
	}
	res := "rejected"
	if o.hsOK {
		res = "completed-as-canonical-id"
	}
	switch {
	case keyChanged:
		labels = append(labels, "key-encoding:non-canonical", "non-canonical-key/"+c.tm+"/expect:"+exp+":"+res)
	case payloadChanged:
		labels = append(labels, "key-encoding:canonical,payload-non-canonical:"+res)
	default:
		labels = append(labels, "key-encoding:canonical(control):"+res)
	}
	return keyChanged || payloadChanged, labels
}

// TestIdentityKeyEncodings draws protocol x remote key type x verifying role x
// expected-peer setting x 0-3 re-encoding operators on the identity key message (x 0-1 on
// the Noise payload message).
func TestIdentityKeyEncodings(t *testing.T) {
	warm()
	name := t.Name()
	hx.Check(t, 1200, 80000, 0, func(rt *rapid.T) {
		c := encCase{
			proto:      rapid.SampledFrom([]string{pNoise, pTLS}).Draw(rt, "proto"),
			tm:         rapid.SampledFrom([]string{"rsa", "rsa", "ed25519", "ecdsa", "secp256k1"}).Draw(rt, "remote-key"),
			honestInit: rapid.Bool().Draw(rt, "honest-initiator"),
		}
		if c.proto == pNoise {
			c.expect = rapid.SampledFrom([]string{"empty", "empty", "match", "alias", "other", "nocheck"}).Draw(rt, "expect")
		} else {
			c.expect = rapid.SampledFrom([]string{"empty", "empty", "match", "alias", "other"}).Draw(rt, "expect")
		}
		nops := rapid.SampledFrom([]int{0, 1, 1, 1, 1, 1, 2, 2, 2, 3, 3}).Draw(rt, "key-ops")
		for i := 0; i < nops; i++ {
			c.ops = append(c.ops, drawEncOp(rt, keyLevelKinds[c.tm], true, fmt.Sprintf("key-op%d", i)))
		}
		if c.proto == pNoise && rapid.IntRange(0, 2).Draw(rt, "payload-ops") == 0 {
			c.outer = append(c.outer, drawEncOp(rt, payloadLevelKinds, false, "payload-op"))
		}
		nt, labels := runKeyEncoding(t, rt, c)
		stats.Case(name, c.key(), nt, labels...)
		if nt && stats.WantSample(name) {
			stats.Sample(name, map[string]any{"case": c.key(), "labels": labels})
		}
	})
}
