package c08

import (
	"bytes"
	"crypto/ecdsa"
	"crypto/elliptic"
	"crypto/rand"
	"crypto/rsa"
	"crypto/x509"
	"encoding/base64"
	"errors"
	"fmt"
	"math/big"
	"strings"
	"sync"
	"testing"

	ic "github.com/libp2p/go-libp2p/core/crypto"
	"github.com/libp2p/go-libp2p/core/peer"
	"pgregory.net/rapid"

	"verif/internal/hx"
	"verif/internal/keys"
	"verif/internal/stats"
)

// ---------------------------------------------------------------------------
// Key classes: the SIZE / CURVE dimension of "every supported key type"
//
// The statement quantifies over every supported key type and freshly generated keys.
// Two of the four key types are families:
//   - ECDSA: GenerateECDSAKeyPairWithCurve / ECDSAKeyPairFromKey and the x509 based
//     (un)marshallers take any of the NIST curves P-224, P-256, P-384, P-521;
//   - RSA: every modulus size from MinRsaKeyBits (2048) to the documented maximum of
//     8192 bits ("rsa keys must be <= 8192 bits"), both bounds included.
// A class name is "<type>" for the two fixed-size types, "ecdsa/<curve>" and
// "rsa/<bits>" for the families.

const rsaDocMaxBits = 8192 // ErrRsaKeyTooBig: "rsa keys must be <= 8192 bits"

var ecdsaCurves = []struct {
	name  string
	curve elliptic.Curve
}{
	{"P-224", elliptic.P224()},
	{"P-256", elliptic.P256()},
	{"P-384", elliptic.P384()},
	{"P-521", elliptic.P521()},
}

func curveByName(name string) elliptic.Curve {
	for _, c := range ecdsaCurves {
		if c.name == name {
			return c.curve
		}
	}
	panic("harness: unknown curve " + name)
}

var defaultClass = map[string]string{"ed25519": "ed25519", "secp256k1": "secp256k1", "ecdsa": "ecdsa/P-256", "rsa": "rsa/2048"}

func classType(cls string) string {
	if i := strings.IndexByte(cls, '/'); i >= 0 {
		return cls[:i]
	}
	return cls
}

func classParam(cls string) string {
	if i := strings.IndexByte(cls, '/'); i >= 0 {
		return cls[i+1:]
	}
	return ""
}

func rsaClassBits(cls string) int {
	var bits int
	if _, err := fmt.Sscanf(classParam(cls), "%d", &bits); err != nil {
		panic("harness: bad rsa class " + cls)
	}
	return bits
}

// slowSigner: an RSA key of more than 4096 bits (about 0.1 s per signature).
func slowSigner(k *kp) bool { return k.typ == "rsa" && rsaClassBits(k.cls) > 4096 }

// rsaSupported: the modulus size is inside the documented bounds, both included.
func rsaSupported(bits int) bool { return bits >= ic.MinRsaKeyBits && bits <= rsaDocMaxBits }

// rsaBoundNote names the position of a size relative to the documented bounds (label).
func rsaBoundNote(bits int) string {
	switch bits {
	case 2047:
		return "rsa/2047(min-1)"
	case 2048:
		return "rsa/2048(min)"
	case 2049:
		return "rsa/2049(min+1)"
	case 8191:
		return "rsa/8191(max-1)"
	case 8192:
		return "rsa/8192(max)"
	case 8193:
		return "rsa/8193(max+1)"
	}
	return fmt.Sprintf("rsa/%d", bits)
}

// classLabel is the label under which a key class is counted in the evidence.
func classLabel(cls string) string {
	if classType(cls) == "rsa" {
		return "class:" + rsaBoundNote(rsaClassBits(cls))
	}
	return "class:" + cls
}

// rsaPrimeFixtures: the two primes (big endian, base64) of RSA keys whose modulus has
// EXACTLY the number of bits of the map key, made once with `openssl prime -generate`
// (an 8192-bit key takes minutes to generate with crypto/rsa). The keys are assembled
// by the harness with math/big (e = 65537), not by the library.
var rsaPrimeFixtures = map[int][2]string{
	2047: {
		"2KvGu0lOt+wWpQ7sqPbzVV0UXGLfbnreC4VzRPsf7J5zv0nr7izVMIEmG4ynooKBhgJko5ZvF4+1QNQLYCpyro7Bq1hEyCPQFvyK" +
		"Uu2rZDS/g58R5It0LM32nZ5+rSJGbrwtl9913qgov1YNJkRDAvOj73umk9Dak92sTxCnzkM=",
		"cnwuoG+ufEOtJgRcaXiW2RsnSh47RbsScJqm67n+MhRWL8Sunp5NPIZm2+zIBG4iFMppbz3zf/8Wa/TYejNs75OzbGWh9f1n6FiT" +
		"Qu4oJx28jxJumeRwsWeaF+4SxbU31Lx/2YOF8yq4/BCKt0jyosSK6ZOP1yPFlbs3yRYL/Hs=",
	},
	2049: {
		"AeocVMXbPP3reOEI5ZZM6YRavQ9DaiWGuoDRd+HZwnYB5cgD3e4JP2ztFKaJBOHYum8MuYfW5GWimSDVWqVIA018zP9jZRrF2fBv" +
		"FwtndCGy/oqA58Ikq4e2ErMqaIJ2cIZpXZfuvZXSD+S0FJGD6t1co+BpaO0yeoIwjmbBUXKZ",
		"zWnwP0r5iVw53JYw8f7dUCLRjiHgdYI4Xv6NTlO3U7Yd1ZQaJAQ6CxhXCjC1zpQj/U/96Yfph9zGw7tJOtbULub53Mxy9ourV+De" +
		"tQVvrLvoYpeWxBPFwfjl1VLYijcVv9XUYM/u29GD/3Fch6+lxwCqNNujp8ZDI5EX8tI6bJs=",
	},
	8191: {
		"8VOHjn6BaMJuTmt8kDngFSCM89iSkWDTuH+l9y50otKrV8GII2ktQaUJPRTLJ49QOWL1Z8Zq/I1Msf3hYHqukdemgpCA3yX8QShS" +
		"clze82D/xJ6ZsMy3LPcCpj3RC/xpV8jlmVUL7AlDj0E2i40jFbsXzrd9E+uw25tsOJuwfOenupq9GB8/yKujGkVG2T1Cs1ImEvxf" +
		"WHjFXcJLJkUK0H3xWr3iNVAToNaPq9ykJIUB9WwY5tRN041XXGHvQMRUg0ytfdrk2+d7qEmbv/4/F/zCWQmrZMfszsBfCZvFRZpx" +
		"LvRtzWYSBI4nEpvSMgBMzD2iMl3/zM9y1pXu3taKbHITUFB8tQX0RiekxawdnCj0jTCL7BpbfpHTkboMfei0ZlslPAOEoMkDRUkF" +
		"lC+U0yhfJUQQm5TV1V9J3msv4kW1MiWBodWzAITeKlKiBlRGmr1CtyN9eZOxODUWrIfIQf+iBwJ/oY/wxVKOjFaCn9RdqgJt/yM7" +
		"VRmWhh+kE92rUOisSrBZIZ3tD/IY3BCMaIxe70zE6hFuz+jzYNDNGawHKgLqwND7cemYv82EsMk03WrZ07+lcNGBTwUYjYGpqvqb" +
		"xR4M32iUuEg+DSH76NdEHpddGSmjaHNF4HV9OQsrAUuqexkZg3pH1uF5if3ewkaks046Qz+LIFV1jzeEsGk=",
		"ZwNj26AZAD0bQUTpnNM2kKi2TVBdTA6j3WWajIRJqy9Ijxvhkr2Nz3a9uFVxMdVbrHap9LxBBdMbo/qH0NFUna6zsmE3biz9Rl3N" +
		"aXQbuWc39U54CKNj+vLTFEwHkHSuDmnK2fs0yqiiJHP4HoQvlRq33llFGuTSfJDwuqyQgDsI4oLrvfaO4v9WUvA2nuUuzjbaFFLq" +
		"tozgq6hkwY+n4Zx5yFgeyEaJdHxC17hxmmedwcW4ggcWqpTEhlXsiJIfE+VKVgfDDm94oI/aLz/HtkgtOsu91KRrjCIjM77epzcH" +
		"MD+oVLhhm7KBNigWeBSjxqq/KDdcDElWdKTNJEs/lJ5YP/nCxawhD+1gfo3fvI0d7i/Z+23lg0/KZ4fDXIKJti/eXnnfPJJaixCM" +
		"Wcf6uqEjTHNugG8I6IrpnF+0fMMYgnugL880JOV1pPwaWRIoQHtr8qZb4nIS4EE4gL3e2tPbKXep9OCauDzxBNzhxYqJvrX92KGb" +
		"cc+o6Is+7tauirEN1FCswUujTHHYNbha/S8bJhOF+vaof6B3EvGqHOyzKQ7l8MZrC8Uy1Hussk1Jxd9KOHMVYQdBf5z7x13XcaLt" +
		"KsP8CSPxYP4c8BDgiZ8C+dW9Qa+vDIOkVxdSheiAYKW9pN6IpIuUp6AqkcyMhSoS38yLhVT5vJaUVkr0Rxk=",
	},
	8192: {
		"5O2iiACuiArrHlQngHp76WYgrSI2qrhc5JqKhvfzqwNofdsqpz/ywHK7RoHzoodKa3KVPDGXA2hBi8tUyKATTeLCx9TtzMmOK49p" +
		"edn3H+zVYoUBJqTMl/ft+oF5p+UQmtDu0luUb+nHfaxDuUxNuPPuVYmFYPjWetXftfHVxoPwa1k0VoMlt6JAp81O/vAByCQT9IYL" +
		"j0vaJfLJDTFHyN9kvS9I+bQrtjhLKhF2KxLh7u7kC3riLdLwOOjigHgFhF4Lkk+be78OtYHCpyxyJ4gccK4/KywZHyfcCFt0r6sA" +
		"5J8oTa6WiJq+1PklfK/g5hLINWbkLeQDf33GBo+JOw7ua02KWiuxwAgwBjt1FHfDX6M+o7Nf59j3v86IRjOqHCUn7bbCvhuzkYZc" +
		"qeCZ2tC7FJuIXy4jCje8UnNr76hUq1v68ntYRp638WRJs6Ioq7cj0ggINJ+VFSrcy0GeKMKHAwpWH4Caq2yxtouiLGbhYhN1yh2u" +
		"HPMFnQV9SQfQmxF0eb8gOuUvtN7ejkr8ubJ9xKPjyQPgCI0V73TOJkAMKcyGTYIqMIY8b4vBvJJ8Cwr6j8u0P8S3k2STiCN4pzNR" +
		"+vwg9C3YGfXmlnINxP/FHw5tUF+rghtlS11yG/8FRaASjwAq+Ob7WxrJ7mK+taUHYK4YAjLfxB7/rvTsXGk=",
		"/ZNY+onRqpwk8fsl6YLbaQJn4guR28qv5elESRxLdeXjqUFMpbNf07PYdVKFpH8bNabsidyZNX11Q4z09wGBiYfT3KPVNg0QAZ91" +
		"X6y4xI52x26Ip2znMx/pOoba3IlMYL3VDZm5VDE/ft8QBZv4qRTkhEbVzGeoXK6GyKUr2/JC8zqhh8xlN0kq81FjWZ16GbqRDfGb" +
		"s/x3jheJJ2AKDqmuByZSrnlQ2ojwAKWT+rxk800NYhclz/uJl/iWYXlzykKw1VmrHsgoqGyWswuVNLPdOugM2B66R+ZJZviccKJV" +
		"qmpC4vVSO5DE2J+2n0MhB7IL83ZeXGtncMOpmHElDh7QabeV8qC1suZUTlbsXGBvH5uVd4Yl8eRt88RyhV7ejTWnGczf2epHtZk4" +
		"fde9TxC1vDQdc/AFLj2/mTbHnrqK71Z2A3hm4Gw3Ni7+ykNIN5hHsodZ/hXfL9TGd+9Y7Ps2w3a+G2mpfKoenJMAGCR6oSWw5sY2" +
		"sJgakHElBrsL7hOMqwkEQHgFX/q/X+XVUAxjfiptedzf+KriF9fIey+YsOBLCJrEeL+F00MVb1JRf8emTjPYbkrFdk2jh4uMRn4o" +
		"hyMKIs+uUOTMb+T3jUUNAHFbv2dLxNh0NatoWdKI+Cax/hO5kCiNktssiW6SXbnZ1MDyCB7eUs8NG2mACqE=",
	},
	8193: {
		"AbzHaSA7GImMcTVBZUIL2YDH7panwmto4/IV5VHCJvoaw8oMVFEq4EiqcYWiGqCbIlSQph9jyrFPePHNhWPCnmneq5Q2ZlCrBr45" +
		"afjp63eAyvcCEouuoCXATjn9EghFcZkui2JOkeLOXs+Fw5GtxuXO7VXk8KQxeHKdKeJWFsBc0xztEjOt/WXP4lv8Gvx+470RXvuf" +
		"Jgx6TE3C2slNTrIJVnvN4UJ6ItiXZmXyHU9IyhOX4EJk2zIC5rQ6QbebJcDq+OHoHQCy4aYAM/1068qu3GnOa7NShBDy3v6AAxlX" +
		"kodDowNYCZSwmh7xr2i2lW/m6SR9ZTBCmb3VVYXeifrMUx6718/k5Ts2PV9R3G1S+Wi7rSK/WuQonVi10s84mJraq+lie+k0yu6I" +
		"GHFC3mYu/ZZEa4sTxS1AO6L0U78jgyOCJTw4QLnKiGT57+cAyq/jIzO6lACxpb0gR2M/5admxe3McWMCsRkrkENQhlXn+NY4cKB5" +
		"mR0Ot6+RSPU8kemt0c8PryGOUBknVbhN0/G0y8ISKWgg1y6ygz0ngqohRqlgs+MhfEaied5U/0SgJ3VxIXYc1pNsCNHaPS7nWTbS" +
		"c7T9544Y7E/CVy0YR/XZwI2vaHtFZ157waH/xne+UyJ31yhYeBqSoM8TQtFdLdCpLOswU7bSm4xXMoxNkwOp",
		"5RpHbFEUUhIVVtKzjdkcmk9WR4127BA3W3exhy3EcM0T82jnGSEQL9TGv3zW+92Ve5csb8mlyiagAeCmfI8gHOHndH371j2LH1j2" +
		"joicYR2LXCTLFBg5e2FN778KSuThOI/Y2Zx6EnWMdikv+BWlcEw3A+HOVp81pHrXsb69MH8HPYGH8A6sJ12iXFTRqUSJN+WZVn5v" +
		"k4W0BpAQ9LyODG0HyTt0+hss70/Qyh6deq8FJ+bt8AXqo9vTWuBTscK9J+FpYpuoj/F7pZHf0to1D+gs5OF6vhmftzBZvvJclr2X" +
		"/wuA0igSgmINe+Mjq6I42M000E+r0qrFW9fdwWnhMAfxgV60ckdpYoJcgWJUh6iSDlqLpBG53FR+6IHgQkOVjxiVXlvHqmY/16i0" +
		"DkNjR/oYVmVnLkrzhaSAaKWWppOJTlYgzrlUwVDY6I+uYKn9cl6smQSvS8GqvCIzh8yX7VXI3eR3326vlCmmBdCOUTsuYz5TPjsI" +
		"wz60ciTVGd+ub6gxm40T7Ky8bZP+tTN9V7tF+yvCr76v56JxGBGybfXvF92zSKScxZgXVmnekjg3vt84jlvaz4q2LKzVjNK+nN2w" +
		"WxScP10W06lWhRo9d3RrB23tdJC9DSqK8GBY636IOaY9EmHP+IKp94lixx/FFNIU/RLITCUm4pZ8UuY1CHk=",
	},
}

var (
	rsaStdMu    sync.Mutex
	rsaStdCache = map[int]*rsa.PrivateKey{}
)

// rsaStdKey returns the crypto/rsa key with a modulus of exactly bits bits: assembled
// from the fixture primes, or (2048) the embedded fixed key.
func rsaStdKey(bits int) *rsa.PrivateKey {
	rsaStdMu.Lock()
	defer rsaStdMu.Unlock()
	if k, ok := rsaStdCache[bits]; ok {
		return k
	}
	var sk *rsa.PrivateKey
	if f, ok := rsaPrimeFixtures[bits]; ok {
		dec := func(s string) *big.Int {
			b, err := base64.StdEncoding.DecodeString(s)
			if err != nil {
				panic(err)
			}
			return new(big.Int).SetBytes(b)
		}
		p, q := dec(f[0]), dec(f[1])
		one := big.NewInt(1)
		p1, q1 := new(big.Int).Sub(p, one), new(big.Int).Sub(q, one)
		lam := new(big.Int).Div(new(big.Int).Mul(p1, q1), new(big.Int).GCD(nil, nil, p1, q1))
		e := big.NewInt(65537)
		d := new(big.Int).ModInverse(e, lam)
		if d == nil {
			panic("harness: rsa fixture: e not invertible")
		}
		sk = &rsa.PrivateKey{PublicKey: rsa.PublicKey{N: new(big.Int).Mul(p, q), E: 65537}, D: d, Primes: []*big.Int{p, q}}
		sk.Precompute()
	} else if bits == 2048 {
		der, err := base64.StdEncoding.DecodeString(fixedRSA)
		if err != nil {
			panic(err)
		}
		if sk, err = x509.ParsePKCS1PrivateKey(der); err != nil {
			panic(err)
		}
	} else {
		panic(fmt.Sprintf("harness: no RSA fixture of %d bits", bits))
	}
	if err := sk.Validate(); err != nil {
		panic(fmt.Sprintf("harness: rsa fixture %d: %v", bits, err))
	}
	if sk.N.BitLen() != bits {
		panic(fmt.Sprintf("harness: rsa fixture %d has %d bits", bits, sk.N.BitLen()))
	}
	rsaStdCache[bits] = sk
	return sk
}

// ecdsaStdKey derives a crypto/ecdsa key on the named curve from a label (seeded
// scalar; the Generate functions randomise on purpose).
func ecdsaStdKey(curveName, label string) *ecdsa.PrivateKey {
	curve := curveByName(curveName)
	bits := curve.Params().N.BitLen()
	n := (bits + 7) / 8
	for ctr := 0; ; ctr++ {
		b := expand(fmt.Sprintf("c08/ecdsa/%s/%s/%d", curveName, label, ctr), n)
		if r := bits % 8; r != 0 {
			b[0] &= byte(1<<r) - 1 // P-521: 521 = 65*8 + 1
		}
		sk, err := ecdsa.ParseRawPrivateKey(curve, b)
		if err != nil {
			continue // zero or >= group order (probability < 2^-30 on every curve)
		}
		return sk
	}
}

// poolKey returns a per-process key of the class produced by the library's own
// Generate* function (Go randomises ECDSA / RSA / Secp256k1 generation on purpose; no
// verdict depends on the key bytes).
func poolKey(cls string, i int) *kp {
	k := fmt.Sprintf("%s/pool%d", cls, i)
	poolMu.Lock()
	defer poolMu.Unlock()
	if v, ok := poolCache[k]; ok {
		return v
	}
	var priv ic.PrivKey
	var err error
	typ := classType(cls)
	switch {
	case cls == defaultClass[typ]:
		priv = keys.Get(typ, 1000+i).Priv
	case typ == "ecdsa":
		priv, _, err = ic.GenerateECDSAKeyPairWithCurve(curveByName(classParam(cls)), rand.Reader)
	case typ == "rsa":
		priv, _, err = ic.GenerateRSAKeyPair(rsaClassBits(cls), rand.Reader)
	default:
		panic("harness: no pool for class " + cls)
	}
	v := mustKP(cls, fmt.Sprintf("pool%d", i), priv, err)
	poolCache[k] = v
	return v
}

func nRSA() int { return hx.Pick(2, 5) }

// freshKeyClass derives a key of the given class from seed.
//   - Ed25519 goes through GenerateEd25519Key with a deterministic reader;
//   - Secp256k1 and ECDSA (any curve) are built from a seeded scalar and handed to the
//     library (UnmarshalSecp256k1PrivateKey / ECDSAKeyPairFromKey); every eighth seed
//     uses a per-process key from the library's Generate function instead;
//   - RSA 2048 (= the minimum) and 2049 (one step inside) come from small per-process
//     pools made by GenerateRSAKeyPair; RSA 8191 and 8192 (one step inside / exactly at
//     the documented maximum) are fixtures handed to the library through
//     KeyPairFromStdKey (generation takes minutes).
func freshKeyClass(cls string, seed uint64) *kp {
	tag := fmt.Sprintf("%d", seed)
	switch typ := classType(cls); typ {
	case "ed25519":
		priv, _, err := ic.GenerateEd25519Key(keys.Reader("c08/ed/" + tag))
		return mustKP(cls, tag, priv, err)
	case "secp256k1":
		if seed%8 == 7 {
			return poolKey(cls, int(seed/8%4))
		}
		priv, err := ic.UnmarshalSecp256k1PrivateKey(expand("c08/secp/"+tag, 32))
		return mustKP(cls, tag, priv, err)
	case "ecdsa":
		if seed%8 == 7 {
			return poolKey(cls, int(seed/8%4))
		}
		priv, _, err := ic.ECDSAKeyPairFromKey(ecdsaStdKey(classParam(cls), tag))
		return mustKP(cls, tag, priv, err)
	case "rsa":
		switch bits := rsaClassBits(cls); bits {
		case 2048:
			return poolKey(cls, int(seed%uint64(nRSA())))
		case 2049:
			return poolKey(cls, 0) // one per process (generation of an RSA key: 0.05-0.5 s)
		default:
			return fixtureRSA(bits)
		}
	}
	panic("unknown key class " + cls)
}

// fixtureRSA: the fixture key of the given (supported) size as a library key.
func fixtureRSA(bits int) *kp {
	cls := fmt.Sprintf("rsa/%d", bits)
	poolMu.Lock()
	defer poolMu.Unlock()
	if v, ok := poolCache[cls+"/fixture"]; ok {
		return v
	}
	priv, _, err := ic.KeyPairFromStdKey(rsaStdKey(bits))
	v := mustKP(cls, "fixture", priv, err)
	poolCache[cls+"/fixture"] = v
	return v
}

// freshKey derives a key of the type's default class (ECDSA P-256, RSA 2048).
func freshKey(typ string, seed uint64) *kp { return freshKeyClass(defaultClass[typ], seed) }

// keyMix: how often the expensive classes are drawn at a call site. other = weight (of
// 32) of EACH of the curves P-224, P-384, P-521, the rest being P-256, the default
// curve (verification on P-384 / P-521 is 10-20 times slower than on P-256); big = how
// many of 256 RSA draws are keys of 8191 / 8192 bits, i.e. next to / exactly at the
// documented maximum (each signature with such a key costs ~0.1 s, so they are drawn
// only where a key signs once or a few times per case, and rarely;
// TestKeySizesAndCurves draws all classes with equal weights).
type keyMix struct{ other, big int }

var (
	mixAny      = keyMix{other: 2, big: 0} // drawKey: any curve, RSA 2048 / 2049
	mixSigner   = keyMix{other: 2, big: 2} // drawSigner: plus RSA 8191 / 8192
	mixEnvelope = keyMix{other: 1, big: 1} // signers of envelopes (each is verified some 20 times per case)
)

// drawUniform draws an index in [0, n) with (nearly) equal weights: rapid's own integer
// and SampledFrom generators favour small and extreme values on purpose, which would
// make the classes at the ends of a list many times more frequent than the others
// (and the expensive 8192-bit keys far more frequent than intended). The index is a
// fixed mixing function (splitmix64 finalizer) of four drawn bytes (one drawn integer
// is itself 0, 1 or the maximum too often), so a case is still a pure function of its
// draws.
func drawUniform(rt *rapid.T, label string, n int) int {
	var z uint64
	for _, b := range rapid.SliceOfN(rapid.Byte(), 4, 4).Draw(rt, label) {
		z = z<<8 | uint64(b)
	}
	z += 0x9e3779b97f4a7c15
	z = (z ^ (z >> 30)) * 0xbf58476d1ce4e5b9
	z = (z ^ (z >> 27)) * 0x94d049bb133111eb
	z ^= z >> 31
	return int(z % uint64(n))
}

// drawClass draws the class of a key of the given type. ECDSA: the four curves by
// mix.other. RSA: 2048 (= the minimum) and 2049 three to one, 8191 / 8192 by mix.big.
func drawClass(rt *rapid.T, typ, label string, mix keyMix) string {
	switch typ {
	case "ecdsa":
		switch v := drawUniform(rt, label+"-curve", 32); {
		case v < mix.other:
			return "ecdsa/P-224"
		case v < 2*mix.other:
			return "ecdsa/P-384"
		case v < 3*mix.other:
			return "ecdsa/P-521"
		}
		return "ecdsa/P-256"
	case "rsa":
		switch v := drawUniform(rt, label+"-size", 256); {
		case v >= 256-mix.big:
			// at the maximum itself twice as often as one step inside
			if drawUniform(rt, label+"-max", 3) == 0 {
				return "rsa/8191"
			}
			return "rsa/8192"
		case v%4 == 3:
			return "rsa/2049"
		}
		return "rsa/2048"
	}
	return typ
}

func drawKeyOpt(rt *rapid.T, label string, mix keyMix) *kp {
	typ := rapid.SampledFrom(keyTypes).Draw(rt, label+"-type")
	cls := drawClass(rt, typ, label, mix)
	seed := rapid.Uint64Range(0, 1<<20).Draw(rt, label+"-seed")
	return freshKeyClass(cls, seed)
}

// drawKey: any key type, any curve, RSA 2048/2049.
func drawKey(rt *rapid.T, label string) *kp { return drawKeyOpt(rt, label, mixAny) }

// drawSigner: as drawKey, plus the RSA sizes at and next to the documented maximum.
func drawSigner(rt *rapid.T, label string) *kp { return drawKeyOpt(rt, label, mixSigner) }

// drawKeyOfType: a key of the type, any class of it (another curve / size included).
func drawKeyOfType(rt *rapid.T, typ, label string) *kp {
	cls := drawClass(rt, typ, label, mixAny)
	return freshKeyClass(cls, rapid.Uint64Range(0, 1<<20).Draw(rt, label+"-seed"))
}

// drawKeyOfClass: another key of exactly the class (same curve / size).
func drawKeyOfClass(rt *rapid.T, cls, label string) *kp {
	return freshKeyClass(cls, rapid.Uint64Range(0, 1<<20).Draw(rt, label+"-seed"))
}

// ---------------------------------------------------------------------------
// TestKeySizesAndCurves: the class dimension on its own, every way a key of the class
// reaches the library.

type classCase struct {
	cls string
	via string // "generate": the library's Generate*; "std": KeyPairFromStdKey / ECDSAKeyPairFromKey; "wire": Unmarshal{Private,Public}Key of a serialization made with crypto/x509 + protowire
}

var classCases = func() []classCase {
	var out []classCase
	for _, c := range ecdsaCurves {
		for _, via := range []string{"generate", "std", "wire"} {
			out = append(out, classCase{"ecdsa/" + c.name, via})
		}
	}
	out = append(out,
		classCase{"rsa/2047", "wire"},
		classCase{"rsa/2048", "generate"}, classCase{"rsa/2048", "std"}, classCase{"rsa/2048", "wire"},
		classCase{"rsa/2049", "generate"}, classCase{"rsa/2049", "std"}, classCase{"rsa/2049", "wire"},
		classCase{"rsa/8191", "wire"},
		classCase{"rsa/8192", "std"}, classCase{"rsa/8192", "wire"},
		classCase{"rsa/8193", "wire"},
	)
	return out
}()

var errProbeReader = errors.New("c08: probe reader")

type probeReader struct{}

func (probeReader) Read([]byte) (int, error) { return 0, errProbeReader }

// generateTakesSize reports whether GenerateRSAKeyPair agrees to make a key of the
// size: with a reader that fails, a size check answers with its own error before any
// randomness is read, otherwise the reader's error comes back.
func generateTakesSize(bits int) bool {
	_, _, err := ic.GenerateRSAKeyPair(bits, probeReader{})
	return errors.Is(err, errProbeReader)
}

// tryKP is mustKP without the panic.
func tryKP(cls, tag string, priv ic.PrivKey) (*kp, error) {
	pub := priv.GetPublic()
	if pub == nil {
		return nil, errors.New("GetPublic() == nil")
	}
	m, err := ic.MarshalPublicKey(pub)
	if err != nil {
		return nil, fmt.Errorf("MarshalPublicKey: %w", err)
	}
	id, err := peer.IDFromPublicKey(pub)
	if err != nil {
		return nil, fmt.Errorf("IDFromPublicKey: %w", err)
	}
	return &kp{typ: classType(cls), cls: cls, tag: cls + "/" + tag, priv: priv, pub: pub, pubM: m, id: id}, nil
}

func TestKeySizesAndCurves(t *testing.T) {
	name := t.Name()
	hx.Check(t, 120, 5000, 0, func(rt *rapid.T) {
		peer.AdvancedEnableInlining = true
		cc := classCases[drawUniform(rt, "class", len(classCases))]
		typ := classType(cc.cls)
		seed := rapid.Uint64Range(0, 1<<20).Draw(rt, "seed")
		msg := drawBytes(rt, "msg", true)
		supported := true
		if typ == "rsa" {
			supported = rsaSupported(rsaClassBits(cc.cls))
		}
		labels := []string{classLabel(cc.cls), "via:" + cc.via, classLabel(cc.cls) + "/via:" + cc.via}
		finish := func(verdict string, nontrivial bool) {
			stats.Case(name, fp(cc.cls, cc.via, seed, msg), nontrivial, append(labels, verdict)...)
			if stats.WantSample(name) {
				stats.Sample(name, map[string]any{"class": cc.cls, "via": cc.via, "seed": seed, "msg": short(msg), "verdict": verdict})
			}
		}

		// 1. a key of the class reaches the library
		var k *kp
		var err error
		switch cc.via {
		case "generate":
			if cc.cls == "rsa/2049" {
				seed = 0
			}
			k = poolKey(cc.cls, int(seed%2))
		case "std":
			var priv ic.PrivKey
			if typ == "rsa" {
				priv, _, err = ic.KeyPairFromStdKey(rsaStdKey(rsaClassBits(cc.cls)))
			} else {
				priv, _, err = ic.ECDSAKeyPairFromKey(ecdsaStdKey(classParam(cc.cls), fmt.Sprint(seed)))
			}
			if err != nil {
				rt.Fatalf("%s: the library does not take a crypto/%s key of a supported class: %v", cc.cls, typ, err)
			}
			if k, err = tryKP(cc.cls, fmt.Sprintf("std%d", seed), priv); err != nil {
				rt.Fatalf("%s key from the standard library type: %v", cc.cls, err)
			}
		case "wire":
			// serialized forms made without the library: crypto/x509 DER inside the two-field protobuf
			var privDER, pubDER []byte
			var e1, e2 error
			if typ == "rsa" {
				sk := rsaStdKey(rsaClassBits(cc.cls))
				privDER = x509.MarshalPKCS1PrivateKey(sk)
				pubDER, e2 = x509.MarshalPKIXPublicKey(&sk.PublicKey)
			} else {
				sk := ecdsaStdKey(classParam(cc.cls), fmt.Sprint(seed))
				privDER, e1 = x509.MarshalECPrivateKey(sk)
				pubDER, e2 = x509.MarshalPKIXPublicKey(&sk.PublicKey)
			}
			if e1 != nil || e2 != nil {
				rt.Fatalf("harness: x509 marshalling of a %s key: %v %v", cc.cls, e1, e2)
			}
			wirePriv, wirePub := keyEnvelope(keyTypeNum[typ], privDER), keyEnvelope(keyTypeNum[typ], pubDER)
			priv, perr := ic.UnmarshalPrivateKey(wirePriv)
			pub, uerr := ic.UnmarshalPublicKey(wirePub)
			if supported && (perr != nil || uerr != nil) {
				rt.Fatalf("a serialized %s key (a supported class) is refused: UnmarshalPrivateKey: %v, UnmarshalPublicKey: %v", cc.cls, perr, uerr)
			}
			if !supported {
				// Outside the documented bounds the library may refuse. What it is not free to do:
				// generate keys of a size that it refuses to read back, and accept a key that
				// then does not round-trip.
				if generateTakesSize(rsaClassBits(cc.cls)) && (perr != nil || uerr != nil) {
					rt.Fatalf("GenerateRSAKeyPair agrees to make %d-bit keys, yet a serialized key of that size is refused (private: %v, public: %v): a generated key would not round-trip",
						rsaClassBits(cc.cls), perr, uerr)
				}
				if perr != nil && uerr != nil {
					finish("outside-bounds:refused", true)
					return
				}
				if perr != nil { // public half alone was accepted: it must survive its own round trip
					m2, err := ic.MarshalPublicKey(pub)
					if err != nil {
						rt.Fatalf("%s: accepted public key cannot be marshalled: %v", cc.cls, err)
					}
					if p2, err := ic.UnmarshalPublicKey(m2); err != nil || !p2.Equals(pub) || !pub.Equals(p2) {
						rt.Fatalf("%s: accepted public key does not round-trip (%v)", cc.cls, err)
					}
					finish("outside-bounds:public-only", true)
					return
				}
				labels = append(labels, "outside-bounds:accepted")
			}
			if k, err = tryKP(cc.cls, fmt.Sprintf("wire%d", seed), priv); err != nil {
				rt.Fatalf("%s key read from its serialized form: %v", cc.cls, err)
			}
			if pub != nil {
				if !pub.Equals(k.pub) || !k.pub.Equals(pub) {
					rt.Fatalf("%s: the unmarshalled public key is not Equal to the public half of the unmarshalled private key", cc.cls)
				}
			}
		}
		if typ == "rsa" && supported && !generateTakesSize(rsaClassBits(cc.cls)) {
			labels = append(labels, "generate-refuses-supported-size") // narrower than documented; not a statement violation
		}

		// 2. the key contract of the statement
		var sig []byte
		if slowSigner(k) {
			// 0.1 s per signature: the signature made by the re-read private key (verified under
			// the original public key) serves the checks below; the key object itself signs
			// the envelope of step 3
			var s string
			if s, sig = privRoundTripSig(k, msg, true); s != "" {
				rt.Fatalf("%s: %s", k.tag, s)
			}
		} else {
			if sig, err = k.priv.Sign(msg); err != nil {
				rt.Fatalf("%s: Sign: %v", k.tag, err)
			}
			if s := privRoundTrip(k, msg, false); s != "" {
				rt.Fatalf("%s: %s", k.tag, s)
			}
		}
		if ok, err := k.pub.Verify(msg, sig); !ok || err != nil {
			rt.Fatalf("%s: a %d-byte signature does not verify under the signer's key for the signed message (ok=%v err=%v)", k.tag, len(sig), ok, err)
		}
		if s := pubRoundTrip(k, msg, sig); s != "" {
			rt.Fatalf("%s: %s", k.tag, s)
		}
		if mm := drawMutation(rt, msg, "mm"); !bytes.Equal(mm.out, msg) {
			if ok, _ := k.pub.Verify(mm.out, sig); ok {
				rt.Fatalf("%s: signature over %s verifies for another message (%s)", k.tag, short(msg), mm.desc)
			}
		}
		o := drawKeyOfType(rt, typ, "o")
		if s := distinctKeys(k, o); s != "" {
			rt.Fatalf("%s", s)
		}
		if !bytes.Equal(o.pubM, k.pubM) {
			if ok, _ := o.pub.Verify(msg, sig); ok {
				rt.Fatalf("signature of %s verifies under another key %s", k.tag, o.tag)
			}
		}
		// peer ID: the independent definition, every text / binary form
		if k.id != refID(k.pubM) {
			rt.Fatalf("%s: IDFromPublicKey = %x, reference definition %x", k.tag, k.id, refID(k.pubM))
		}
		if !k.id.MatchesPublicKey(k.pub) || !k.id.MatchesPrivateKey(k.priv) {
			rt.Fatalf("%s: the peer ID does not match its own key", k.tag)
		}
		if s := idForms(k.id, true); s != "" {
			rt.Fatalf("%s: peer ID forms: %s", k.tag, s)
		}

		// 3. an envelope sealed by the key is accepted for exactly what was sealed (typed and
		// registry receivers, peer records additionally by both address books) and for
		// nothing else when asked under another domain
		s := drawSealedBy(rt, nil, "env", k)
		set := []*sealed{s}
		if j := judgeEnvelope(set, s.raw, s.domain, s, true); j.fail != "" {
			rt.Fatalf("%s envelope sealed by %s: %s", s.kind, k.tag, j.fail)
		} else if s.kind == "peerrec" && s.rec.(*peer.PeerRecord).PeerID == k.id {
			stores := 0
			for _, r := range j.accepted {
				if r == "pstoremem" || r == "pstoreds" {
					stores++
				}
			}
			if stores != 2 {
				rt.Fatalf("peer record of %s sealed by its own key: accepted only by %v", k.tag, j.accepted)
			}
		}
		if d, _ := otherDomain(rt, set, s); d != s.domain {
			if j := judgeEnvelope(set, s.raw, d, nil, true); j.fail != "" {
				rt.Fatalf("%s envelope sealed by %s asked under domain %q: %s", s.kind, k.tag, d, j.fail)
			}
		}
		labels = append(labels, "env:"+s.kind)
		finish("holds", cc.cls != defaultClass[typ])
	})
}
