package c08

import (
	"bytes"
	"fmt"
	"math/big"
	"testing"

	ic "github.com/libp2p/go-libp2p/core/crypto"
	"github.com/libp2p/go-libp2p/core/peer"
	"google.golang.org/protobuf/encoding/protowire"
	"pgregory.net/rapid"

	"verif/internal/hx"
	"verif/internal/stats"
)

// ---------------------------------------------------------------------------
// Equality of private keys: the metamorphic rule
//
// The statement says that unmarshalling a marshalled key yields an EQUAL key and that a
// signature verifies under the signer's public key and under no other key. "Equal"
// therefore has to mean "the same signer": whenever the library reports two accepted
// private keys as Equal (Equals in either direction, KeyEqual in either direction),
//   - the four answers agree,
//   - both keys have the same type, derive the same public key and the same peer ID,
//   - if at least one of them is a working signer (its own signature verifies under its
//     own public key; every harness-generated key is), a signature made by either key
//     verifies under the public key of the other,
//   - their byte representations (Raw) are identical. RSA is exempt from this clause
//     only: one RSA key has several valid PKCS#1 encodings (prime order, d modulo
//     lambda(n) or phi(n)), so for RSA "Equal with other bytes" is allowed when the
//     clauses above hold (counted under the label pair:equal-other-encoding).
// Conversely byte-identical keys are Equal, and for two keys that are NOT Equal and
// derive different public keys a signature made by one does not verify under the
// public key of the other ("under no other key").

type privView struct {
	key    ic.PrivKey
	typ    string
	raw    []byte // nil: Raw failed
	pub    ic.PubKey
	pubM   []byte // nil: no public key / not marshallable
	id     peer.ID
	idOK   bool
	signed bool
	sig    []byte // nil: Sign failed
	self   bool   // sig verifies under the key's own public key
}

func viewPriv(k ic.PrivKey) *privView {
	v := &privView{key: k, typ: k.Type().String(), raw: rawOf(k)}
	if pub := k.GetPublic(); pub != nil {
		v.pub = pub
		if m, err := ic.MarshalPublicKey(pub); err == nil {
			v.pubM = m
		}
	}
	if id, err := peer.IDFromPrivateKey(k); err == nil {
		v.id, v.idOK = id, true
	}
	return v
}

func (v *privView) sign(msg []byte) {
	if v.signed {
		return
	}
	v.signed = true
	sig, err := v.key.Sign(msg)
	if err != nil || v.pub == nil {
		return
	}
	v.sig = sig
	v.self = verifies(v.pub, msg, sig)
}

// privPairRule judges one pair of accepted private keys. rel classifies the pair for
// the label histogram.
func privPairRule(a, b *privView, msg []byte) (rel string, fail string) {
	e1, e2 := a.key.Equals(b.key), b.key.Equals(a.key)
	e3, e4 := ic.KeyEqual(a.key, b.key), ic.KeyEqual(b.key, a.key)
	if e1 != e2 || e1 != e3 || e1 != e4 {
		return "", fmt.Sprintf("equality of two private keys depends on the direction / entry point: a.Equals(b)=%v b.Equals(a)=%v KeyEqual(a,b)=%v KeyEqual(b,a)=%v", e1, e2, e3, e4)
	}
	sameBytes := a.typ == b.typ && a.raw != nil && bytes.Equal(a.raw, b.raw)
	samePub := a.pubM != nil && bytes.Equal(a.pubM, b.pubM)
	if !e1 {
		if sameBytes {
			return "", "private keys of the same type with identical Raw bytes are not Equal"
		}
		if samePub {
			return "unequal-same-pub", ""
		}
		if a.pubM == nil || b.pubM == nil {
			return "unequal-no-pub", ""
		}
		a.sign(msg)
		b.sign(msg)
		if a.sig != nil && verifies(b.pub, msg, a.sig) || b.sig != nil && verifies(a.pub, msg, b.sig) {
			return "", fmt.Sprintf("a signature made by one private key verifies under the different public key of another, unequal private key (%s vs %s)", short(a.pubM), short(b.pubM))
		}
		return "unequal-other-pub", ""
	}
	// the library says: the same key
	if a.typ != b.typ {
		return "", fmt.Sprintf("private keys of different types (%s, %s) compare Equal", a.typ, b.typ)
	}
	if !samePub {
		return "", fmt.Sprintf("private keys compare Equal although they derive different public keys (%s vs %s)", short(a.pubM), short(b.pubM))
	}
	if !a.idOK || !b.idOK || a.id != b.id {
		return "", fmt.Sprintf("private keys compare Equal although their peer IDs differ (%x/%v vs %x/%v)", a.id, a.idOK, b.id, b.idOK)
	}
	a.sign(msg)
	b.sign(msg)
	if a.self || b.self {
		if a.sig == nil || b.sig == nil {
			return "", "private keys compare Equal although only one of them can sign"
		}
		if !verifies(b.pub, msg, a.sig) || !verifies(a.pub, msg, b.sig) {
			return "", fmt.Sprintf("private keys compare Equal although they are not the same signer: a signature made by one is rejected by the public key of the other (a signs for itself: %v, b signs for itself: %v, a->b: %v, b->a: %v; Raw identical: %v)",
				a.self, b.self, verifies(b.pub, msg, a.sig), verifies(a.pub, msg, b.sig), sameBytes)
		}
	}
	if !sameBytes {
		if a.typ != "RSA" {
			return "", fmt.Sprintf("private keys compare Equal although their byte representations differ: Raw %s vs %s", short(a.raw), short(b.raw))
		}
		return "equal-other-encoding", ""
	}
	return "equal-identical", ""
}

// ---------------------------------------------------------------------------
// Structure of the Data field of a marshalled private key (harness-side, no library)

type region struct {
	name   string
	off, n int
}

type tlv struct {
	tag        byte
	off, hl, n int // tag at off, content at off+hl, n content bytes
}

func derRead(b []byte, off int) tlv {
	if off+2 > len(b) {
		panic("harness: DER walk out of range")
	}
	t := tlv{tag: b[off], off: off, hl: 2}
	l := int(b[off+1])
	if l&0x80 != 0 {
		nb := l & 0x7f
		if nb == 0 || nb > 3 || off+2+nb > len(b) {
			panic("harness: DER length")
		}
		l = 0
		for i := 0; i < nb; i++ {
			l = l<<8 | int(b[off+2+i])
		}
		t.hl += nb
	}
	if off+t.hl+l > len(b) {
		panic("harness: DER content out of range")
	}
	t.n = l
	return t
}

func derKids(b []byte, p tlv) []tlv {
	var out []tlv
	for off := p.off + p.hl; off < p.off+p.hl+p.n; {
		k := derRead(b, off)
		out = append(out, k)
		off += k.hl + k.n
	}
	return out
}

func derTLV(tag byte, content []byte) []byte {
	out := []byte{tag}
	switch n := len(content); {
	case n < 0x80:
		out = append(out, byte(n))
	case n < 0x100:
		out = append(out, 0x81, byte(n))
	default:
		out = append(out, 0x82, byte(n>>8), byte(n))
	}
	return append(out, content...)
}

func derInt(v *big.Int) []byte {
	b := v.Bytes()
	if len(b) == 0 || b[0]&0x80 != 0 {
		b = append([]byte{0}, b...)
	}
	return derTLV(0x02, b)
}

func (t tlv) content(b []byte) []byte { return b[t.off+t.hl : t.off+t.hl+t.n] }
func (t tlv) whole(b []byte) []byte   { return b[t.off : t.off+t.hl+t.n] }

var (
	ecdsaFieldNames = []string{"version", "scalar", "curve", "pubkey"}
	rsaFieldNames   = []string{"version", "N", "E", "D", "P", "Q", "Dp", "Dq", "Qinv"}
)

// privRegions names the parts of the Data field of a private key of the given type:
// Ed25519 = seed | public half; Secp256k1 = scalar; ECDSA = SEC1 DER fields; RSA =
// PKCS#1 DER integers; "framing" = DER tag/length bytes.
func privRegions(typ string, data []byte) []region {
	switch typ {
	case "ed25519":
		return []region{{"seed", 0, 32}, {"pub", 32, 32}}
	case "secp256k1":
		return []region{{"scalar", 0, len(data)}}
	}
	names := ecdsaFieldNames
	if typ == "rsa" {
		names = rsaFieldNames
	}
	outer := derRead(data, 0)
	out := []region{{"framing", 0, outer.hl}}
	for i, k := range derKids(data, outer) {
		name := "extra"
		if i < len(names) {
			name = names[i]
		}
		out = append(out, region{name, k.off + k.hl, k.n}, region{"framing", k.off, k.hl})
	}
	return out
}

var secpN, _ = new(big.Int).SetString("fffffffffffffffffffffffffffffffebaaedce6af48a03bbfd25e8cd0364141", 16)

func keyEnvelope(typNum uint64, data []byte) []byte {
	return encodeFields([]pbField{{1, protowire.VarintType, protowire.AppendVarint(nil, typNum)}, {2, protowire.BytesType, data}})
}

var keyTypeNum = map[string]uint64{"rsa": 0, "ed25519": 1, "secp256k1": 2, "ecdsa": 3}

type pcand struct {
	op, region, desc string
	out              []byte
}

// drawPrivCandidates produces one or two candidate serialized private keys from the
// marshalled private key m of k; o is another key of the same type (donor of foreign
// parts).
func drawPrivCandidates(rt *rapid.T, k, o *kp, m, om []byte) []pcand {
	data := fieldBytes(mustFields(m), 2)
	odata := fieldBytes(mustFields(om), 2)
	tn := keyTypeNum[k.typ]
	wrap := func(d []byte) []byte { return keyEnvelope(tn, d) }
	regs := privRegions(k.typ, data)
	switch choice := rapid.IntRange(0, 13).Draw(rt, "pop"); choice {
	case 0, 1, 2, 3, 4: // edit at a drawn position of a drawn part of the key
		r := regs[rapid.IntRange(0, len(regs)-1).Draw(rt, "region")]
		if r.n == 0 {
			break
		}
		pos := r.off + rapid.IntRange(0, r.n-1).Draw(rt, "pos")
		d := append([]byte(nil), data...)
		var op string
		switch rapid.IntRange(0, 3).Draw(rt, "edit") {
		case 0, 1:
			bit := rapid.IntRange(0, 7).Draw(rt, "bit")
			d[pos] ^= 1 << bit
			op = "flipbit"
		case 2:
			v := rapid.SampledFrom([]byte{0x00, 0xff, 0x7f, 0x80, 0x01}).Draw(rt, "val")
			if d[pos] == v {
				v ^= 0x55
			}
			d[pos] = v
			op = "setbyte"
		default:
			d[pos] ^= 0xff
			op = "flipbyte"
		}
		desc := fmt.Sprintf("%s at byte %d of Data (%s+%d)", op, pos, r.name, pos-r.off)
		if k.typ == "ed25519" && rapid.IntRange(0, 3).Draw(rt, "legacy") == 0 {
			// the edited key in the legacy 96-byte form, both public copies consistent
			d = append(d, d[32:64]...)
			desc += ", legacy 96-byte form"
			op += "+legacy"
		}
		return []pcand{{"part-" + op, r.name, desc, wrap(d)}}
	case 5, 6: // one part taken from another key of the same type
		var same []int
		oregs := privRegions(o.typ, odata)
		for i, r := range regs {
			if r.name != "framing" && i < len(oregs) && oregs[i].name == r.name && oregs[i].n == r.n && r.n > 0 {
				same = append(same, i)
			}
		}
		if len(same) == 0 {
			break
		}
		i := same[rapid.IntRange(0, len(same)-1).Draw(rt, "fregion")]
		d := append([]byte(nil), data...)
		copy(d[regs[i].off:regs[i].off+regs[i].n], odata[oregs[i].off:oregs[i].off+oregs[i].n])
		return []pcand{{"part-foreign", regs[i].name, fmt.Sprintf("%s of %s inside the key of %s", regs[i].name, o.tag, k.tag), wrap(d)}}
	case 7: // cut: truncation at a part boundary or a drawn length, of Data or of the whole
		if rapid.Bool().Draw(rt, "whole") {
			l := rapid.IntRange(0, len(m)-1).Draw(rt, "len")
			return []pcand{{"truncate", "", fmt.Sprintf("marshalled key cut %d -> %d", len(m), l), append([]byte(nil), m[:l]...)}}
		}
		l := rapid.IntRange(0, len(data)-1).Draw(rt, "len")
		if rapid.Bool().Draw(rt, "boundary") {
			r := regs[rapid.IntRange(0, len(regs)-1).Draw(rt, "region")]
			l = r.off + r.n
			if l >= len(data) {
				l = r.off
			}
		}
		return []pcand{{"data-truncate", "", fmt.Sprintf("Data cut %d -> %d", len(data), l), wrap(append([]byte(nil), data[:l]...))}}
	case 8, 9: // another valid or invalid encoding of the same key material
		if c := drawReencoding(rt, k, o, data, odata); len(c) > 0 {
			for i := range c {
				c[i].out = wrap(c[i].out)
			}
			return c
		}
	case 10: // the plain marshalled key of the other key / the key itself
		if rapid.Bool().Draw(rt, "self") {
			return []pcand{{"identity", "", "unchanged", append([]byte(nil), m...)}}
		}
		return []pcand{{"other-key", "", "marshalled private key of " + o.tag, append([]byte(nil), om...)}}
	case 11: // protobuf-level re-encoding that keeps Type and Data
		fs := mustFields(m)
		switch rapid.IntRange(0, 3).Draw(rt, "pbre") {
		case 0:
			fs[0], fs[1] = fs[1], fs[0]
			return []pcand{{"pb-reencode", "", "fields reordered", encodeFields(fs)}}
		case 1:
			fs = append(fs, pbField{protowire.Number(rapid.IntRange(3, 40).Draw(rt, "unum")), protowire.BytesType, []byte("x")})
			return []pcand{{"pb-reencode", "", "unknown field appended", encodeFields(fs)}}
		case 2:
			fs[0].val = []byte{byte(tn) | 0x80, 0x00} // overlong varint
			return []pcand{{"pb-reencode", "", "overlong Type varint", encodeFields(fs)}}
		default:
			fs = append(fs, pbField{fs[1].num, fs[1].typ, append([]byte(nil), fs[1].val...)})
			return []pcand{{"pb-reencode", "", "Data repeated", encodeFields(fs)}}
		}
	}
	mu := drawKeyCandidate(rt, k, m, true)
	return []pcand{{mu.op, "", mu.desc, mu.out}}
}

// drawReencoding: type-specific alternative forms of the Data field (returned
// unwrapped). Which of them the library accepts is not prescribed; the pair rule
// applies to whatever is accepted.
func drawReencoding(rt *rapid.T, k, o *kp, data, odata []byte) []pcand {
	switch k.typ {
	case "ed25519":
		d := append(append([]byte(nil), data...), data[32:]...)
		switch rapid.IntRange(0, 3).Draw(rt, "edre") {
		case 0:
			return []pcand{{"reencode-legacy96", "", "legacy 96-byte form", d}}
		case 1:
			p := rapid.IntRange(0, 31).Draw(rt, "p")
			d[p] ^= 1 << rapid.IntRange(0, 7).Draw(rt, "bit")
			return []pcand{{"reencode-legacy96+edit", "seed", fmt.Sprintf("legacy form, seed byte %d edited", p), d}}
		case 2:
			p := rapid.IntRange(0, 31).Draw(rt, "p")
			x := byte(1) << rapid.IntRange(0, 7).Draw(rt, "bit")
			d[32+p] ^= x
			d[64+p] ^= x
			return []pcand{{"reencode-legacy96+edit", "pub", fmt.Sprintf("legacy form, byte %d of both public copies edited", p), d}}
		default:
			p := rapid.IntRange(0, 31).Draw(rt, "p")
			d[64+p] ^= 1 << rapid.IntRange(0, 7).Draw(rt, "bit")
			return []pcand{{"reencode-legacy96+edit", "redundant-pub", fmt.Sprintf("legacy form, redundant copy byte %d edited", p), d}}
		}
	case "secp256k1":
		// a small scalar d and its alias d+n (both fit 32 bytes): the same key twice
		d := new(big.Int).SetUint64(rapid.Uint64Range(1, 1<<62).Draw(rt, "small"))
		if rapid.Bool().Draw(rt, "shift") {
			d.Lsh(d, uint(rapid.IntRange(1, 58).Draw(rt, "sh")))
		}
		a := d.FillBytes(make([]byte, 32))
		b := new(big.Int).Add(d, secpN).FillBytes(make([]byte, 32))
		return []pcand{
			{"reencode-alias-scalar", "scalar", fmt.Sprintf("small scalar %x", d), a},
			{"reencode-alias-scalar", "scalar", fmt.Sprintf("small scalar %x + group order", d), b},
		}
	case "ecdsa":
		kids := derKids(data, derRead(data, 0))
		okids := derKids(odata, derRead(odata, 0))
		if len(kids) != 4 || len(okids) != 4 {
			return nil
		}
		ver, sc, curve, pubk := kids[0].whole(data), kids[1].content(data), kids[2].whole(data), kids[3].whole(data)
		seq := func(parts ...[]byte) []byte { return derTLV(0x30, bytes.Join(parts, nil)) }
		switch rapid.IntRange(0, 4).Draw(rt, "ecre") {
		case 0:
			return []pcand{{"reencode-der", "pubkey", "SEC1 without the optional public key", seq(ver, derTLV(0x04, sc), curve)}}
		case 1:
			return []pcand{{"reencode-der", "pubkey", "SEC1 with the public key of " + o.tag, seq(ver, derTLV(0x04, sc), curve, okids[3].whole(odata))}}
		case 2:
			return []pcand{{"reencode-der", "scalar", "scalar with a leading zero octet", seq(ver, derTLV(0x04, append([]byte{0}, sc...)), curve, pubk)}}
		case 3:
			return []pcand{{"reencode-der", "curve", "SEC1 without the curve", seq(ver, derTLV(0x04, sc), pubk)}}
		default:
			return []pcand{{"reencode-der", "scalar", "scalar of " + o.tag + " with own public key", seq(ver, okids[1].whole(odata), curve, pubk)}}
		}
	case "rsa":
		kids := derKids(data, derRead(data, 0))
		if len(kids) != 9 {
			return nil
		}
		iv := make([]*big.Int, 9)
		for i, kd := range kids {
			iv[i] = new(big.Int).SetBytes(kd.content(data))
		}
		N, E, D, P, Q := iv[1], iv[2], iv[3], iv[4], iv[5]
		one := big.NewInt(1)
		p1, q1 := new(big.Int).Sub(P, one), new(big.Int).Sub(Q, one)
		seq := func(vs ...*big.Int) []byte {
			var c []byte
			for _, v := range vs {
				c = append(c, derInt(v)...)
			}
			return derTLV(0x30, c)
		}
		switch rapid.IntRange(0, 3).Draw(rt, "rsare") {
		case 0: // primes listed the other way round, CRT values recomputed
			return []pcand{{"reencode-der", "P,Q", "primes swapped, CRT values recomputed",
				seq(iv[0], N, E, D, Q, P, new(big.Int).Mod(D, q1), new(big.Int).Mod(D, p1), new(big.Int).ModInverse(P, Q))}}
		case 1:
			return []pcand{{"reencode-der", "Dp,Dq,Qinv", "optional CRT values omitted", seq(iv[0], N, E, D, P, Q)}}
		case 2: // another private exponent for the same key: d + lcm(p-1, q-1)
			g := new(big.Int).GCD(nil, nil, p1, q1)
			lam := new(big.Int).Div(new(big.Int).Mul(p1, q1), g)
			return []pcand{{"reencode-der", "D", "d + lcm(p-1,q-1)", seq(iv[0], N, E, new(big.Int).Add(D, lam), P, Q, iv[6], iv[7], iv[8])}}
		default:
			which := rapid.IntRange(6, 8).Draw(rt, "crt")
			vs := append([]*big.Int(nil), iv...)
			vs[which] = new(big.Int).Add(vs[which], one)
			return []pcand{{"reencode-der", rsaFieldNames[which], rsaFieldNames[which] + " + 1", seq(vs...)}}
		}
	}
	return nil
}

// TestPrivKeyEquality: a family of serialized private keys derived from one fresh key
// (edits of named parts at drawn positions, parts of another key, cuts, re-encodings)
// is unmarshalled; every pair of accepted keys, the original included, is judged by
// privPairRule.
func TestPrivKeyEquality(t *testing.T) {
	name := t.Name()
	hx.Check(t, 2400, 80000, 0, func(rt *rapid.T) {
		k := drawKey(rt, "k")
		// the donor of foreign parts: mostly the same class (same curve / modulus size, so that
		// parts are interchangeable), sometimes another class of the type
		var o *kp
		if rapid.IntRange(0, 3).Draw(rt, "o-other-class") == 0 {
			o = drawKeyOfType(rt, k.typ, "o")
		} else {
			o = drawKeyOfClass(rt, k.cls, "o")
		}
		if o.tag == k.tag {
			o = freshKey(k.typ, 1<<20+1)
			if o.tag == k.tag { // rsa pool
				o = fixedRSAKey()
			}
		}
		msg := drawBytes(rt, "msg", true)
		m, err := ic.MarshalPrivateKey(k.priv)
		if err != nil {
			rt.Fatalf("MarshalPrivateKey: %v", err)
		}
		om, err := ic.MarshalPrivateKey(o.priv)
		if err != nil {
			rt.Fatalf("MarshalPrivateKey: %v", err)
		}
		type member struct {
			c pcand
			v *privView
		}
		set := []member{{pcand{"original", "", "the key itself", m}, viewPriv(k.priv)}}
		n := rapid.IntRange(1, 3).Draw(rt, "ncand")
		var cands []pcand
		for i := 0; i < n; i++ {
			cands = append(cands, drawPrivCandidates(rt, k, o, m, om)...)
		}
		for _, c := range cands {
			verdict := "refused"
			k2, err := ic.UnmarshalPrivateKey(c.out)
			if err == nil {
				if k2 == nil {
					rt.Fatalf("%s, candidate [%s: %s] %s: UnmarshalPrivateKey returned (nil, nil)", k.tag, c.op, c.desc, short(c.out))
				}
				v := viewPriv(k2)
				rel, fail := privPairRule(set[0].v, v, msg)
				if fail != "" {
					rt.Fatalf("%s private key vs candidate [%s: %s] %s:\n  %s", k.tag, c.op, c.desc, short(c.out), fail)
				}
				verdict = "accepted-" + rel
				for _, prev := range set[1:] {
					prel, fail := privPairRule(prev.v, v, msg)
					if fail != "" {
						rt.Fatalf("%s: candidates [%s: %s] %s and [%s: %s] %s:\n  %s", k.tag, prev.c.op, prev.c.desc, short(prev.c.out), c.op, c.desc, short(c.out), fail)
					}
					stats.Label(name, "pair:"+prel)
				}
				set = append(set, member{c, v})
			}
			labels := []string{k.typ, classLabel(k.cls), "op:" + c.op, verdict}
			if c.region != "" {
				labels = append(labels, "part:"+k.typ+"/"+c.region)
			}
			if verdict == "accepted-equal-other-encoding" { // RSA only: which operators reach the exempted class
				labels = append(labels, "equal-other-encoding<-"+c.op+"/"+c.region)
			}
			stats.Case(name, fp(k.tag, c.out), !bytes.Equal(c.out, m), labels...)
			if stats.WantSample(name) {
				stats.Sample(name, map[string]any{"key": k.tag, "other": o.tag, "op": c.op, "desc": c.desc, "verdict": verdict})
			}
		}
	})
}
