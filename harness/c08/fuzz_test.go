package c08

import (
	"bytes"
	"sync"
	"testing"
	"time"

	ic "github.com/libp2p/go-libp2p/core/crypto"
	"github.com/libp2p/go-libp2p/core/peer"
	"github.com/libp2p/go-libp2p/core/record"
	circuitproto "github.com/libp2p/go-libp2p/p2p/protocol/circuitv2/proto"
	"google.golang.org/protobuf/encoding/protowire"
)

// The fuzz targets work against a fixed world that is identical in every worker
// process: deterministic keys (Ed25519 x2, Secp256k1, ECDSA from seeded scalars, one
// embedded RSA key) and a table of envelopes sealed with them. The oracle is the same
// acceptance rule as in the rapid properties, restricted to envelopes whose signer is
// one of these keys (nobody else can sign for them); the peerstore rule applies to
// any signer.

type fuzzWorld struct {
	keys    []*kp
	sealed  []*sealed
	domains []string
	msg     []byte
	sigs    [][]byte // signature of keys[i] over msg
	privM   [][]byte
}

var (
	fwOnce sync.Once
	fw     *fuzzWorld
)

func world() *fuzzWorld {
	fwOnce.Do(func() {
		w := &fuzzWorld{
			// indexes 0..4 are referred to below; keys of the other classes are appended
			keys: []*kp{freshKey("ed25519", 1), freshKey("ed25519", 2), freshKey("secp256k1", 1), freshKey("ecdsa", 1), fixedRSAKey(),
				freshKeyClass("ecdsa/P-384", 1), freshKeyClass("ecdsa/P-521", 1)},
			domains: []string{"c08-fuzz", peer.PeerRecordEnvelopeDomain, circuitproto.RecordDomain, "c08-fuzz2", "", "c08-fuz", "c08-fuzz\xf0"},
			msg:     []byte("c08 fuzz message"),
		}
		addrs := drawnAddrsFixed()
		for i, k := range w.keys {
			next := w.keys[(i+1)%len(w.keys)]
			recs := []struct {
				kind string
				rec  record.Record
			}{
				{"hrec", &hrec{domain: "c08-fuzz", codec: codecA, payload: []byte("hello fuzz")}},
				{"hrec", &hrec{domain: "c08-fuzz2", codec: codecB, payload: []byte{0x01, 'A', 0x0a, 'h', 'e', 'l', 'l', 'o'}}},
				{"hrec", &hrec{domain: "c08-fuzz", codec: peer.PeerRecordEnvelopePayloadType, payload: []byte{}}},
				{"peerrec", &peer.PeerRecord{PeerID: k.id, Seq: 10, Addrs: addrs}},
				{"peerrec", &peer.PeerRecord{PeerID: k.id, Seq: 3, Addrs: addrs[:1]}},
				{"peerrec", &peer.PeerRecord{PeerID: next.id, Seq: 99, Addrs: addrs}}, // validly signed, foreign PeerID
				{"voucher", &circuitproto.ReservationVoucher{Relay: k.id, Peer: next.id, Expiration: time.Unix(1900000000, 0)}},
			}
			for _, r := range recs {
				s, err := sealRecord(r.rec, k, r.kind)
				if err != nil {
					panic(err)
				}
				w.sealed = append(w.sealed, s)
			}
			sig, err := k.priv.Sign(w.msg)
			if err != nil {
				panic(err)
			}
			w.sigs = append(w.sigs, sig)
			pm, err := ic.MarshalPrivateKey(k.priv)
			if err != nil {
				panic(err)
			}
			w.privM = append(w.privM, pm)
		}
		fw = w
	})
	return fw
}

var hostile = [][]byte{
	{}, {0x00}, {0x0a}, {0x0a, 0x00}, {0x0a, 0xff, 0xff, 0xff, 0xff, 0x0f}, {0x08, 0x01, 0x12, 0x00}, {0x08, 0x00, 0x12, 0x00},
	{0x0a, 0x02, 0x08, 0x01}, {0x0a, 0x04, 0x08, 0x01, 0x12, 0x00, 0x12, 0x01, 0x01, 0x1a, 0x00, 0x2a, 0x00},
	{0x08, 0xff, 0xff, 0xff, 0xff, 0xff, 0xff, 0xff, 0xff, 0xff, 0x01, 0x12, 0x00},
	bytes.Repeat([]byte{0x0a, 0x02}, 64), bytes.Repeat([]byte{0xff}, 64),
	{0x00, 0x00}, {0x12, 0x20}, {0x12, 0x00}, {0x00, 0x24, 0x08, 0x01, 0x12, 0x20},
}

func domainIndex(w *fuzzWorld, d string) uint8 {
	for i, x := range w.domains {
		if x == d {
			return uint8(i)
		}
	}
	return 0
}

// FuzzEnvelope: arbitrary bytes presented to every envelope receiver under one of a
// few requested domains.
func FuzzEnvelope(f *testing.F) {
	w := world()
	for _, s := range w.sealed {
		f.Add(s.raw, domainIndex(w, s.domain))
		f.Add(s.raw, uint8(0))
		f.Add(s.raw, uint8(1))
	}
	// splices of two sealed envelopes and a forged concatenation collision
	for i := 0; i+1 < len(w.sealed); i += 3 {
		a, b := w.sealed[i], w.sealed[i+1]
		f.Add(buildEnvelope(a.key.pubM, b.ptype, b.payload, a.sig), domainIndex(w, b.domain))
		f.Add(buildEnvelope(b.key.pubM, a.ptype, a.payload, a.sig), domainIndex(w, a.domain))
		f.Add(buildEnvelope(a.key.pubM, a.ptype, a.payload, b.sig), domainIndex(w, a.domain))
		f.Add(buildEnvelope(a.key.pubM, append([]byte("z"), a.ptype...), a.payload, a.sig), uint8(5)) // "c08-fuz"+"z"||type
	}
	// a degenerate Ed25519 key (identity point) with the all-zero-S signature: anybody can "sign" for it
	weak := encodeFields([]pbField{{1, protowire.VarintType, protowire.AppendVarint(nil, 1)}, {2, protowire.BytesType, append([]byte{1}, make([]byte, 31)...)}})
	wid := refID(weak)
	wrec, _ := (&peer.PeerRecord{PeerID: w.keys[0].id, Seq: 1 << 40, Addrs: drawnAddrsFixed()}).MarshalRecord()
	f.Add(buildEnvelope(weak, peer.PeerRecordEnvelopePayloadType, wrec, append([]byte{1}, make([]byte, 63)...)), uint8(1))
	wrec2, _ := (&peer.PeerRecord{PeerID: wid, Seq: 1, Addrs: drawnAddrsFixed()}).MarshalRecord()
	f.Add(buildEnvelope(weak, peer.PeerRecordEnvelopePayloadType, wrec2, append([]byte{1}, make([]byte, 63)...)), uint8(1))
	for _, h := range hostile {
		f.Add(h, uint8(0))
		f.Add(h, uint8(1))
	}
	f.Fuzz(func(t *testing.T, data []byte, dom uint8) {
		peer.AdvancedEnableInlining = true
		domain := w.domains[int(dom)%len(w.domains)]
		j := judgeEnvelopeOpt(w.sealed, data, domain, nil, true, true)
		if j.fail != "" {
			t.Fatalf("domain %q, input %x:\n  %s", domain, data, j.fail)
		}
	})
}

// FuzzKeys: arbitrary bytes as a marshalled public / private key.
func FuzzKeys(f *testing.F) {
	w := world()
	for i, k := range w.keys {
		f.Add(k.pubM, false)
		f.Add(w.privM[i], true)
		f.Add(k.pubM, true)
		f.Add(w.privM[i], false)
	}
	for _, h := range hostile {
		f.Add(h, false)
		f.Add(h, true)
	}
	// secp256k1 private scalars 0, n, n+1; a 96-byte legacy Ed25519 key
	n := []byte{0xff, 0xff, 0xff, 0xff, 0xff, 0xff, 0xff, 0xff, 0xff, 0xff, 0xff, 0xff, 0xff, 0xff, 0xff, 0xfe, 0xba, 0xae, 0xdc, 0xe6, 0xaf, 0x48, 0xa0, 0x3b, 0xbf, 0xd2, 0x5e, 0x8c, 0xd0, 0x36, 0x41, 0x41}
	n1 := append([]byte(nil), n...)
	n1[31]++
	for _, scalar := range [][]byte{make([]byte, 32), n, n1} {
		f.Add(encodeFields([]pbField{{1, protowire.VarintType, protowire.AppendVarint(nil, 2)}, {2, protowire.BytesType, scalar}}), true)
	}
	edRaw := fieldBytes(mustFields(w.privM[0]), 2)
	f.Add(encodeFields([]pbField{{1, protowire.VarintType, protowire.AppendVarint(nil, 1)}, {2, protowire.BytesType, append(append([]byte(nil), edRaw...), edRaw[32:]...)}}), true)
	// private keys with an edited part: Ed25519 seed half / public half, Secp256k1 scalar
	for _, pos := range []int{3, 40} {
		mut := append([]byte(nil), edRaw...)
		mut[pos] ^= 0x40
		f.Add(keyEnvelope(1, mut), true)
	}
	scMut := append([]byte(nil), fieldBytes(mustFields(w.privM[2]), 2)...)
	scMut[31] ^= 0x01
	f.Add(keyEnvelope(2, scMut), true)
	f.Fuzz(func(t *testing.T, data []byte, private bool) {
		peer.AdvancedEnableInlining = true
		for i, k := range w.keys {
			var fail string
			if private {
				_, _, fail = acceptedPriv(k, w.privM[i], data, w.msg)
			} else {
				_, _, fail = acceptedPub(k, data, w.msg, w.sigs[i])
			}
			if fail != "" {
				t.Fatalf("input %x (private=%v) against %s: %s", data, private, k.tag, fail)
			}
		}
	})
}

// FuzzPeerID: arbitrary bytes as binary ID, text ID, JSON ID, AddrInfo JSON.
func FuzzPeerID(f *testing.F) {
	w := world()
	forms := []string{"binary", "text", "json", "addrinfo-json"}
	for _, k := range w.keys {
		f.Add([]byte(k.id), uint8(0))
		for _, form := range []string{"b58", "cid-b32", "cid-b58", "cid-b36", "cid-b16"} {
			f.Add(idForm(k.id, form), uint8(1))
		}
		f.Add(idForm(k.id, "json"), uint8(2))
		f.Add(idForm(k.id, "addrinfo-json"), uint8(3))
	}
	// bit 7 of the form byte: the local configuration option AdvancedEnableInlining is off;
	// IDs of both kinds (embedding the key / hashed) in every form under that setting
	for _, k := range w.keys {
		for _, x := range []peer.ID{refIDSetting(k.pubM, true), refIDSetting(k.pubM, false)} {
			f.Add([]byte(x), uint8(0x80))
			f.Add(idForm(x, "b58"), uint8(0x81))
			f.Add(idForm(x, "cid-b32"), uint8(0x81))
			f.Add(idForm(x, "json"), uint8(0x82))
			f.Add(idForm(x, "addrinfo-json"), uint8(0x83))
		}
	}
	for _, h := range hostile {
		f.Add(h, uint8(0))
		f.Add(h, uint8(1))
	}
	for _, s := range []string{"", "Qm", "1", "11", "z", "b", "bafz", "QmYyQSo1c1Ym7orWxLYvCrM2EmxFTANf8wXmmE7DWjhx5N", "12D3KooW", "null", `""`, `{"ID":null}`, `{"ID":"","Addrs":["/"]}`, "k", "f00", "f0172", "F0172"} {
		f.Add([]byte(s), uint8(1))
		f.Add([]byte(s), uint8(2))
		f.Add([]byte(s), uint8(3))
	}
	f.Fuzz(func(t *testing.T, data []byte, form uint8) {
		defer setInlining(form&0x80 == 0)()
		fm := forms[int(form&0x7f)%len(forms)]
		for _, k := range []*kp{w.keys[0], w.keys[3]} {
			if _, _, fail := judgeIDCandidate(k, fm, data); fail != "" {
				t.Fatalf("form %s input %q / %x: %s", fm, data, data, fail)
			}
		}
	})
}

// FuzzPeerRecordConsume: arbitrary bytes take the receiver's path ConsumeEnvelope ->
// ConsumePeerRecord into both address books, which already hold the genuine record
// of a victim.
func FuzzPeerRecordConsume(f *testing.F) {
	w := world()
	victim := w.keys[0]
	var genuine []*sealed // everything the victim ever sealed as a peer record about itself
	for _, s := range w.sealed {
		if pr, ok := s.rec.(*peer.PeerRecord); ok {
			f.Add(s.raw)
			if s.key == victim && pr.PeerID == victim.id {
				genuine = append(genuine, s)
			}
		}
	}
	for _, s := range w.sealed[:7] {
		f.Add(s.raw)
	}
	for _, h := range hostile {
		f.Add(h)
	}
	prior := genuine[1] // Seq 3; genuine[0] has Seq 10
	f.Fuzz(func(t *testing.T, data []byte) {
		peer.AdvancedEnableInlining = true
		env, rec, err := record.ConsumeEnvelope(data, peer.PeerRecordEnvelopeDomain)
		if err != nil {
			return
		}
		if signerInSet(w.sealed, env) {
			if s, msg := matchSealed(w.sealed, env, peer.PeerRecordEnvelopeDomain); s == nil {
				t.Fatalf("input %x: %s", data, msg)
			}
		}
		pr, ok := rec.(*peer.PeerRecord)
		if !ok {
			return
		}
		books, closeBooks := newBooks(4)
		defer closeBooks()
		for _, b := range books {
			penv, _, err := record.ConsumeEnvelope(prior.raw, peer.PeerRecordEnvelopeDomain)
			if err != nil {
				t.Fatalf("harness: %v", err)
			}
			if ok, err := b.ConsumePeerRecord(penv, time.Hour); !ok || err != nil {
				t.Fatalf("%s refused the victim's genuine record: %v %v", b.name, ok, err)
			}
			if _, fail := storeConsume(b, env, pr); fail != "" {
				t.Fatalf("input %x: %s", data, fail)
			}
			// whatever happened, what the book serves for the victim is something the victim sealed
			got := b.GetPeerRecord(victim.id)
			if got == nil {
				t.Fatalf("input %x: %s no longer serves a record for the victim", data, b.name)
			}
			if s, msg := matchSealed(genuine, got, peer.PeerRecordEnvelopeDomain); s == nil {
				t.Fatalf("input %x: %s serves a record for the victim that the victim never sealed: %s", data, b.name, msg)
			}
		}
	})
}
