package c08

import (
	"bytes"
	"encoding/json"
	"fmt"
	"math/big"
	"strings"
	"testing"

	ic "github.com/libp2p/go-libp2p/core/crypto"
	cpb "github.com/libp2p/go-libp2p/core/crypto/pb"
	"github.com/libp2p/go-libp2p/core/peer"
	ma "github.com/multiformats/go-multiaddr"
	mbase "github.com/multiformats/go-multibase"
	"pgregory.net/rapid"

	"verif/internal/hx"
	"verif/internal/stats"
)

const b58Alphabet = "123456789ABCDEFGHJKLMNPQRSTUVWXYZabcdefghijkmnopqrstuvwxyz"

// refB58Decode is an independent base58btc decoder.
func refB58Decode(s string) ([]byte, bool) {
	n := new(big.Int)
	radix := big.NewInt(58)
	zeros := 0
	leading := true
	for _, c := range []byte(s) {
		i := strings.IndexByte(b58Alphabet, c)
		if i < 0 {
			return nil, false
		}
		if leading && i == 0 {
			zeros++
			continue
		}
		leading = false
		n.Mul(n, radix)
		n.Add(n, big.NewInt(int64(i)))
	}
	return append(make([]byte, zeros), n.Bytes()...), true
}

var cidBases = []mbase.Encoding{mbase.Base32, mbase.Base58BTC, mbase.Base16, mbase.Base36, mbase.Base64url, mbase.Base32Upper, mbase.Base16Upper}

// idForms checks every serialized form of a valid peer ID for round-tripping.
// b58 says whether the base58 text form is required to round-trip (identity / sha2-256
// multihashes, i.e. text beginning with "1" or "Qm"; see peer.Decode).
func idForms(id peer.ID, b58 bool) string {
	if err := id.Validate(); err != nil {
		return "Validate: " + err.Error()
	}
	// binary
	bin, err := id.MarshalBinary()
	if err != nil || !bytes.Equal(bin, []byte(id)) {
		return fmt.Sprintf("MarshalBinary = %x, %v", bin, err)
	}
	var id2 peer.ID
	if err := id2.UnmarshalBinary(bin); err != nil || id2 != id {
		return fmt.Sprintf("UnmarshalBinary(MarshalBinary) = %x, %v", id2, err)
	}
	if id3, err := peer.IDFromBytes(bin); err != nil || id3 != id {
		return fmt.Sprintf("IDFromBytes = %x, %v", id3, err)
	}
	m, err := id.Marshal()
	var id4 peer.ID
	if err != nil || id4.Unmarshal(m) != nil || id4 != id || id.Size() != len(m) {
		return "Marshal/Unmarshal/Size do not round-trip"
	}
	buf := make([]byte, id.Size())
	if n, err := id.MarshalTo(buf); err != nil || n != len(buf) || !bytes.Equal(buf, bin) {
		return "MarshalTo differs from MarshalBinary"
	}
	// CID text, every multibase
	c := peer.ToCid(id)
	if !c.Defined() {
		return "ToCid returned the undefined CID"
	}
	if back, err := peer.FromCid(c); err != nil || back != id {
		return fmt.Sprintf("FromCid(ToCid) = %x, %v", back, err)
	}
	if back, err := peer.Decode(c.String()); err != nil || back != id {
		return fmt.Sprintf("Decode(ToCid.String()=%q) = %x, %v", c.String(), back, err)
	}
	for _, base := range cidBases {
		s, err := c.StringOfBase(base)
		if err != nil {
			return "StringOfBase: " + err.Error()
		}
		if back, err := peer.Decode(s); err != nil || back != id {
			return fmt.Sprintf("Decode(CID text %q) = %x, %v", s, back, err)
		}
	}
	if !b58 {
		return ""
	}
	// base58 text
	s := id.String()
	if raw, ok := refB58Decode(s); !ok || !bytes.Equal(raw, []byte(id)) {
		return fmt.Sprintf("String()=%q does not base58-decode to the ID bytes", s)
	}
	if back, err := peer.Decode(s); err != nil || back != id {
		return fmt.Sprintf("Decode(String()=%q) = %x, %v", s, back, err)
	}
	txt, err := id.MarshalText()
	var id5 peer.ID
	if err != nil || id5.UnmarshalText(txt) != nil || id5 != id {
		return "MarshalText/UnmarshalText do not round-trip"
	}
	js, err := json.Marshal(id)
	var id6 peer.ID
	if err != nil || json.Unmarshal(js, &id6) != nil || id6 != id {
		return fmt.Sprintf("JSON %s does not round-trip", js)
	}
	return ""
}

var addrTemplates = []string{
	"/ip4/1.2.3.4/tcp/4001", "/ip4/10.0.0.7/udp/4001/quic-v1", "/ip6/2001:db8::1/tcp/443/wss", "/dns4/example.com/tcp/443/tls/ws",
	"/ip4/127.0.0.1/udp/9090/quic-v1/webtransport", "/ip6/::1/tcp/1", "/dnsaddr/bootstrap.libp2p.io", "/ip4/203.0.113.9/tcp/65535",
}

func drawAddrs(rt *rapid.T, label string, minN int) []ma.Multiaddr {
	n := rapid.IntRange(minN, 4).Draw(rt, label+"-n")
	out := make([]ma.Multiaddr, 0, n)
	for i := 0; i < n; i++ {
		if rapid.Bool().Draw(rt, label+"-tmpl") {
			out = append(out, ma.StringCast(rapid.SampledFrom(addrTemplates).Draw(rt, label+"-t")))
		} else {
			out = append(out, ma.StringCast(fmt.Sprintf("/ip4/%d.%d.%d.%d/tcp/%d",
				rapid.IntRange(1, 223).Draw(rt, label+"-a"), rapid.IntRange(0, 255).Draw(rt, label+"-b"),
				rapid.IntRange(0, 255).Draw(rt, label+"-c"), rapid.IntRange(1, 254).Draw(rt, label+"-d"), rapid.IntRange(1, 65535).Draw(rt, label+"-p"))))
		}
	}
	return out
}

func addrInfoForms(id peer.ID, addrs []ma.Multiaddr) string {
	ai := peer.AddrInfo{ID: id, Addrs: addrs}
	js, err := json.Marshal(ai)
	if err != nil {
		return "AddrInfo.MarshalJSON: " + err.Error()
	}
	var back peer.AddrInfo
	if err := json.Unmarshal(js, &back); err != nil {
		return fmt.Sprintf("AddrInfo.UnmarshalJSON(%s): %v", js, err)
	}
	if back.ID != id || len(back.Addrs) != len(addrs) {
		return fmt.Sprintf("AddrInfo JSON %s decodes to another ID / address count", js)
	}
	for i := range addrs {
		if !back.Addrs[i].Equal(addrs[i]) {
			return fmt.Sprintf("AddrInfo JSON %s: address %d differs", js, i)
		}
	}
	p2p, err := peer.AddrInfoToP2pAddrs(&ai)
	if err != nil {
		return "AddrInfoToP2pAddrs: " + err.Error()
	}
	for i, a := range p2p {
		one, err := peer.AddrInfoFromP2pAddr(a)
		if err != nil || one.ID != id {
			return fmt.Sprintf("AddrInfoFromP2pAddr(%s): id %v err %v", a, one, err)
		}
		if len(addrs) > 0 && (len(one.Addrs) != 1 || !one.Addrs[0].Equal(addrs[i])) {
			return fmt.Sprintf("AddrInfoFromP2pAddr(%s): transport address differs", a)
		}
		if got, err := peer.IDFromP2PAddr(a); err != nil || got != id {
			return fmt.Sprintf("IDFromP2PAddr(%s) = %v, %v", a, got, err)
		}
		if one2, err := peer.AddrInfoFromString(a.String()); err != nil || one2.ID != id {
			return fmt.Sprintf("AddrInfoFromString(%s): %v", a, err)
		}
	}
	infos, err := peer.AddrInfosFromP2pAddrs(p2p...)
	if err != nil || len(infos) != 1 || infos[0].ID != id || len(infos[0].Addrs) != len(addrs) {
		return fmt.Sprintf("AddrInfosFromP2pAddrs: %v, %v", infos, err)
	}
	return ""
}

// embedsKey: the reference rule for "an ID that embeds its key" - an identity multihash
// (code 0x00) whose digest is the marshalled key. Independent of any local setting.
func embedsKey(id peer.ID, marshalledKey []byte) bool {
	return id == refIDSetting(marshalledKey, true) && len(marshalledKey) <= 42
}

// recoverKey checks the clause "the key is recoverable from IDs that embed it" for id,
// an ID of the key k: recovered exactly when embedded, whatever the local setting.
func recoverKey(k *kp, id peer.ID) string {
	ex, err := id.ExtractPublicKey()
	if embedsKey(id, k.pubM) {
		if err != nil {
			return fmt.Sprintf("ExtractPublicKey from the ID %s that embeds the key: %v", id, err)
		}
		if m, _ := ic.MarshalPublicKey(ex); !bytes.Equal(m, k.pubM) || !ex.Equals(k.pub) {
			return fmt.Sprintf("ExtractPublicKey from the ID %s returned another key", id)
		}
		return ""
	}
	if err == nil {
		return fmt.Sprintf("ExtractPublicKey returned a key (%v) from the ID %s that does not embed one", ex, id)
	}
	return ""
}

// viaForm sends the ID through one serialized form and decodes it again: an ID received
// from a remote peer, not one derived in this process.
func viaForm(id peer.ID, form string) (peer.ID, error) {
	raw := idForm(id, form)
	var out peer.ID
	var err error
	switch form {
	case "binary":
		out, err = peer.IDFromBytes(raw)
	case "json":
		err = json.Unmarshal(raw, &out)
	case "addrinfo-json":
		var ai peer.AddrInfo
		err = json.Unmarshal(raw, &ai)
		out = ai.ID
	default:
		out, err = peer.Decode(string(raw))
	}
	return out, err
}

func TestPeerID(t *testing.T) {
	name := t.Name()
	hx.Check(t, 2000, 60000, 0, func(rt *rapid.T) {
		// configuration dimension: the process-global option is the documented default (on)
		// or off; put back at the end of the case
		inl := drawInlining(rt)
		defer setInlining(inl)()
		k := drawKey(rt, "k")
		o := drawKey(rt, "other")
		addrs := drawAddrs(rt, "addrs", 0)
		form := rapid.SampledFrom(idFormNames).Draw(rt, "remote-form")

		id, err := peer.IDFromPublicKey(k.pub)
		if err != nil {
			rt.Fatalf("IDFromPublicKey: %v", err)
		}
		if want := refIDSetting(k.pubM, inl); id != want {
			rt.Fatalf("%s, %s: IDFromPublicKey = %x, reference definition gives %x (marshalled key has %d bytes)", k.tag, inlLabel(inl), id, want, len(k.pubM))
		}
		// deterministic: same ID through every route to the same key
		if again, _ := peer.IDFromPublicKey(k.pub); again != id {
			rt.Fatalf("%s: IDFromPublicKey is not deterministic", k.tag)
		}
		if viaPriv, err := peer.IDFromPrivateKey(k.priv); err != nil || viaPriv != id {
			rt.Fatalf("%s: IDFromPrivateKey = %x, %v", k.tag, viaPriv, err)
		}
		rk, err := ic.UnmarshalPublicKey(k.pubM)
		if err != nil {
			rt.Fatalf("UnmarshalPublicKey: %v", err)
		}
		if viaWire, err := peer.IDFromPublicKey(rk); err != nil || viaWire != id {
			rt.Fatalf("%s: ID of the unmarshalled key = %x, %v", k.tag, viaWire, err)
		}
		if !id.MatchesPublicKey(k.pub) || !id.MatchesPrivateKey(k.priv) {
			rt.Fatalf("%s, %s: ID does not match its own key", k.tag, inlLabel(inl))
		}
		differs := !bytes.Equal(o.pubM, k.pubM)
		// The IDs of this key: the one derived here and the ones a peer running with either
		// setting derives for it (k.id is one of them). All are valid IDs here: every form
		// round-trips, and the key comes back from exactly those that embed it - the option
		// governs how IDs are derived locally, not what a received ID contains.
		embedded := false
		for i, x := range []peer.ID{id, refIDSetting(k.pubM, true), refIDSetting(k.pubM, false)} {
			if i > 0 {
				// received from the remote peer in a drawn serialized form
				got, err := viaForm(x, form)
				if err != nil || got != x {
					rt.Fatalf("%s, %s: ID %s sent as %s decodes to %x, %v", k.tag, inlLabel(inl), x, form, got, err)
				}
				x = got
			}
			if s := idForms(x, true); s != "" {
				rt.Fatalf("%s, %s, id %x: %s", k.tag, inlLabel(inl), x, s)
			}
			if s := addrInfoForms(x, addrs); s != "" {
				rt.Fatalf("%s, %s, id %s: %s", k.tag, inlLabel(inl), x, s)
			}
			if s := recoverKey(k, x); s != "" {
				rt.Fatalf("%s, %s: %s", k.tag, inlLabel(inl), s)
			}
			embedded = embedded || embedsKey(x, k.pubM)
			if differs && (x.MatchesPublicKey(o.pub) || x.MatchesPrivateKey(o.priv) || o.id == x) {
				rt.Fatalf("%s: ID %s of %s matches another key %s", inlLabel(inl), x, k.tag, o.tag)
			}
		}
		emb := "hashed"
		if embedsKey(id, k.pubM) {
			emb = "inlined"
		}
		labels := []string{k.typ, classLabel(k.cls), emb, inlLabel(inl)}
		if !inl && embedded {
			labels = append(labels, "inlining:off+remote-id-embeds-key", "remote-form:"+form)
		}
		stats.Case(name, fp(k.tag, o.tag, fmt.Sprint(addrs), inl, form), differs, labels...)
		if stats.WantSample(name) {
			stats.Sample(name, map[string]any{"key": k.tag, "inlining": inl, "id": id.String(), "cid": peer.ToCid(id).String(), "other": o.tag})
		}
	})
}

// fakePub is a public key of arbitrary raw length: it lets the harness place the
// marshalled key length on both sides of the 42-byte inlining threshold.
type fakePub struct {
	typ cpb.KeyType
	raw []byte
}

func (f *fakePub) Equals(o ic.Key) bool             { return f.typ == o.Type() && bytes.Equal(f.raw, rawOf(o)) }
func (f *fakePub) Raw() ([]byte, error)             { return f.raw, nil }
func (f *fakePub) Type() cpb.KeyType                { return f.typ }
func (f *fakePub) Verify(_, _ []byte) (bool, error) { return false, nil }

// TestPeerIDThreshold enumerates marshalled key lengths across the inlining threshold,
// under both values of the configuration option.
func TestPeerIDThreshold(t *testing.T) {
	hx.Shard0(t)
	name := t.Name()
	seen := map[int]bool{}
	for _, inl := range []bool{true, false} {
		defer setInlining(inl)() // put back when the test returns (also on failure)
		for _, typ := range []cpb.KeyType{cpb.KeyType_RSA, cpb.KeyType_Ed25519, cpb.KeyType_Secp256k1, cpb.KeyType_ECDSA} {
			for l := 0; l <= 140; l++ {
				f := &fakePub{typ, expand(fmt.Sprintf("fake/%d/%d", typ, l), l)}
				m, err := ic.MarshalPublicKey(f)
				if err != nil {
					t.Fatal(err)
				}
				id, err := peer.IDFromPublicKey(f)
				if err != nil {
					t.Fatalf("IDFromPublicKey(raw len %d): %v", l, err)
				}
				if want := refIDSetting(m, inl); id != want {
					t.Fatalf("marshalled key of %d bytes, %s: IDFromPublicKey = %x, reference definition (identity iff inlining is on and <= 42 bytes, else sha2-256) = %x", len(m), inlLabel(inl), id, want)
				}
				// the ID a peer with the other setting derives is as valid here
				for _, x := range []peer.ID{id, refIDSetting(m, !inl)} {
					if s := idForms(x, true); s != "" {
						t.Fatalf("marshalled key of %d bytes, %s, id %x: %s", len(m), inlLabel(inl), x, s)
					}
				}
				seen[len(m)] = true
				cls := "len>42"
				if len(m) <= 42 {
					cls = "len<=42"
				}
				stats.CaseEnumerated(name, true, cls, inlLabel(inl))
			}
		}
	}
	for _, l := range []int{40, 41, 42, 43, 44} {
		if !seen[l] {
			t.Fatalf("harness: marshalled length %d was not produced", l)
		}
	}
}

// ---------------------------------------------------------------------------
// Mutated IDs

// acceptedID judges an ID obtained from a mutated serialized form.
func acceptedID(k *kp, id peer.ID) string {
	if id == "" {
		return "decoder accepted the input but returned the empty ID"
	}
	if _, err := peer.IDFromBytes([]byte(id)); err != nil {
		return fmt.Sprintf("decoder returned %x which IDFromBytes refuses: %v", id, err)
	}
	s := id.String()
	b58 := strings.HasPrefix(s, "Qm") || strings.HasPrefix(s, "1")
	if msg := idForms(id, b58); msg != "" {
		return msg
	}
	// the ID this process derives for the key under its current setting (reference definition)
	own := refIDSetting(k.pubM, peer.AdvancedEnableInlining)
	if id.MatchesPublicKey(k.pub) != (id == own) {
		return fmt.Sprintf("MatchesPublicKey(%s) = %v for ID %x (key's ID is %x)", k.tag, id.MatchesPublicKey(k.pub), id, own)
	}
	if embedsKey(id, k.pubM) || id == refIDSetting(k.pubM, false) {
		// the mutation led back to an ID of the key: recoverable iff embedded, under any setting
		return recoverKey(k, id)
	}
	_, _ = id.ExtractPublicKey() // must not panic
	return ""
}

// judgeIDCandidate feeds a candidate to the decoder of the given form.
func judgeIDCandidate(k *kp, form string, cand []byte) (accepted bool, id peer.ID, fail string) {
	var err error
	switch form {
	case "binary":
		id, err = peer.IDFromBytes(cand)
		if err == nil && !bytes.Equal([]byte(id), cand) {
			return true, id, "IDFromBytes returned other bytes than its input"
		}
	case "json":
		err = json.Unmarshal(cand, &id)
		if err == nil && id == "" {
			return false, "", "" // e.g. JSON null: nothing was decoded
		}
	case "addrinfo-json":
		var ai peer.AddrInfo
		err = json.Unmarshal(cand, &ai)
		id = ai.ID
		if err == nil && id == "" {
			return false, "", "" // JSON without an ID field: nothing was decoded
		}
	default: // text forms
		id, err = peer.Decode(string(cand))
		if err == nil {
			s := string(cand)
			if strings.HasPrefix(s, "Qm") || strings.HasPrefix(s, "1") {
				if raw, ok := refB58Decode(s); !ok || !bytes.Equal(raw, []byte(id)) {
					return true, id, fmt.Sprintf("Decode(%q) = %x but the text base58-decodes to %x", s, id, raw)
				}
			}
			var viaText peer.ID
			if e := viaText.UnmarshalText(cand); e != nil || viaText != id {
				return true, id, "UnmarshalText disagrees with Decode"
			}
		}
	}
	if err != nil {
		return false, "", ""
	}
	return true, id, acceptedID(k, id)
}

var idFormNames = []string{"binary", "b58", "cid-b32", "cid-b58", "cid-b36", "cid-b16", "json", "addrinfo-json"}

func idForm(id peer.ID, form string) []byte {
	c := peer.ToCid(id)
	switch form {
	case "binary":
		return []byte(id)
	case "b58":
		return []byte(id.String())
	case "cid-b32":
		return []byte(c.String())
	case "cid-b58":
		s, _ := c.StringOfBase(mbase.Base58BTC)
		return []byte(s)
	case "cid-b36":
		s, _ := c.StringOfBase(mbase.Base36)
		return []byte(s)
	case "cid-b16":
		s, _ := c.StringOfBase(mbase.Base16)
		return []byte(s)
	case "json":
		b, _ := json.Marshal(id)
		return b
	case "addrinfo-json":
		b, _ := json.Marshal(peer.AddrInfo{ID: id, Addrs: []ma.Multiaddr{ma.StringCast("/ip4/1.2.3.4/tcp/1")}})
		return b
	}
	panic(form)
}

func formAlphabet(form string) string {
	switch form {
	case "b58", "cid-b58", "json", "addrinfo-json":
		return b58Alphabet
	case "cid-b32":
		return "abcdefghijklmnopqrstuvwxyz234567"
	case "cid-b36":
		return "0123456789abcdefghijklmnopqrstuvwxyz"
	case "cid-b16":
		return "0123456789abcdef"
	}
	return ""
}

func TestPeerIDMutation(t *testing.T) {
	name := t.Name()
	hx.Check(t, 4000, 120000, 0, func(rt *rapid.T) {
		// configuration dimension: the local setting, and the setting of the peer that derived the ID
		inl := drawInlining(rt)
		defer setInlining(inl)()
		k := drawKey(rt, "k")
		form := rapid.SampledFrom(idFormNames).Draw(rt, "form")
		src := refIDSetting(k.pubM, drawInliningOf(rt, "creator-setting"))
		orig := idForm(src, form)
		n := rapid.IntRange(1, 8).Draw(rt, "nmut")
		for i := 0; i < n; i++ {
			var mu mutation
			alpha := formAlphabet(form)
			if alpha != "" && rapid.Bool().Draw(rt, "charlevel") {
				// stay inside the text alphabet so that the decoder gets past the character check
				lo, hi := 0, len(orig)-1
				if form == "json" {
					lo, hi = 1, len(orig)-2
				}
				if form == "addrinfo-json" {
					lo = bytes.Index(orig, []byte(src.String()))
					hi = lo + len(src.String()) - 1
				}
				pos := rapid.IntRange(lo, hi).Draw(rt, "cpos")
				ch := alpha[rapid.IntRange(0, len(alpha)-1).Draw(rt, "ch")]
				o := append([]byte(nil), orig...)
				if o[pos] == ch {
					ch = alpha[(strings.IndexByte(alpha, ch)+1)%len(alpha)]
				}
				o[pos] = ch
				mu = mutation{"setchar", fmt.Sprintf("char %d/%d := %q", pos, len(orig), ch), o}
			} else {
				mu = drawMutation(rt, orig, "m")
			}
			acc, id, fail := judgeIDCandidate(k, form, mu.out)
			if fail != "" {
				rt.Fatalf("%s id %s (%s) form %s, candidate [%s] %q / %x: %s", k.tag, src, inlLabel(inl), form, mu.desc, mu.out, mu.out, fail)
			}
			verdict := "refused"
			if acc && id == src {
				verdict = "accepted-same-id"
			} else if acc {
				verdict = "accepted-other-id"
			}
			labels := []string{k.typ, "form:" + form, "op:" + mu.op, verdict, inlLabel(inl)}
			if embedsKey(src, k.pubM) {
				labels = append(labels, inlLabel(inl)+"/id-embeds-key")
			}
			stats.Case(name, fp(k.tag, form, mu.out, inl), !bytes.Equal(mu.out, orig), labels...)
			if stats.WantSample(name) {
				stats.Sample(name, map[string]any{"key": k.tag, "inlining": inl, "id": src.String(), "form": form, "mutation": mu.desc, "verdict": verdict})
			}
		}
	})
}

// TestPeerIDEveryPosition: every bit of the binary form, every character position x
// every alphabet character of the text forms, every truncation, for one ID per key type.
func TestPeerIDEveryPosition(t *testing.T) {
	name := t.Name()
	defer setInlining(true)() // the sweep runs under the documented default
	idx := 0
	for ti, typ := range sweepTypes(hx.Pick(1, 3)) {
		k := freshKey(typ, uint64(777+ti))
		for _, form := range []string{"binary", "b58", "cid-b32", "cid-b58", "cid-b36"} {
			orig := idForm(k.id, form)
			judge := func(op string, cand []byte) {
				acc, id, fail := judgeIDCandidate(k, form, cand)
				if fail != "" {
					t.Fatalf("%s id %s form %s, %s -> %q / %x: %s", k.tag, k.id, form, op, cand, cand, fail)
				}
				verdict := "refused"
				if acc && id == k.id {
					verdict = "accepted-same-id"
				} else if acc {
					verdict = "accepted-other-id"
				}
				stats.CaseEnumerated(name, true, typ, "form:"+form, "op:"+op, verdict)
			}
			alpha := formAlphabet(form)
			for pos := range orig {
				if alpha == "" {
					for bit := 0; bit < 8; bit++ {
						idx++
						if !hx.Mine(idx) {
							continue
						}
						c := append([]byte(nil), orig...)
						c[pos] ^= 1 << bit
						judge("flipbit", c)
					}
					continue
				}
				for ci := 0; ci < len(alpha); ci++ {
					if alpha[ci] == orig[pos] {
						continue
					}
					idx++
					if !hx.Mine(idx) {
						continue
					}
					c := append([]byte(nil), orig...)
					c[pos] = alpha[ci]
					judge("setchar", c)
				}
			}
			for l := 0; l < len(orig); l++ {
				idx++
				if !hx.Mine(idx) {
					continue
				}
				judge("truncate", append([]byte(nil), orig[:l]...))
			}
		}
	}
}
