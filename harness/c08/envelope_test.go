package c08

import (
	"bytes"
	"fmt"
	"strings"
	"testing"
	"time"

	ic "github.com/libp2p/go-libp2p/core/crypto"
	"github.com/libp2p/go-libp2p/core/peer"
	"github.com/libp2p/go-libp2p/core/record"
	circuitproto "github.com/libp2p/go-libp2p/p2p/protocol/circuitv2/proto"
	ma "github.com/multiformats/go-multiaddr"
	"google.golang.org/protobuf/encoding/protowire"
	"pgregory.net/rapid"

	"verif/internal/hx"
	"verif/internal/stats"
)

// ---------------------------------------------------------------------------
// Generators for sealed envelopes

var knownDomains = []string{peer.PeerRecordEnvelopeDomain, circuitproto.RecordDomain, "libp2p-routing-state", "d", "ab", "libp2p-peer-recorD", "libp2p-peer-record\x00"}

func drawDomain(rt *rapid.T, label string) string {
	if rapid.IntRange(0, 2).Draw(rt, label+"-known") == 0 {
		return rapid.SampledFrom(knownDomains).Draw(rt, label)
	}
	return string(drawBytes(rt, label, false))
}

func drawCodec(rt *rapid.T, label string) []byte {
	switch rapid.IntRange(0, 5).Draw(rt, label+"-kind") {
	case 0:
		return codecA
	case 1:
		return codecB
	case 2:
		return peer.PeerRecordEnvelopePayloadType
	case 3:
		return circuitproto.RecordCodec
	default:
		n := rapid.IntRange(1, 6).Draw(rt, label+"-n")
		b := make([]byte, n)
		for i := range b {
			b[i] = rapid.Byte().Draw(rt, label+"-b")
		}
		return b
	}
}

func drawPeerRecord(rt *rapid.T, signer *kp, label string) *peer.PeerRecord {
	id := signer.id
	if rapid.IntRange(0, 9).Draw(rt, label+"-foreign-id") == 0 {
		id = drawKey(rt, label+"-idkey").id
	}
	return &peer.PeerRecord{PeerID: id, Addrs: drawAddrs(rt, label+"-addrs", 0), Seq: rapid.Uint64().Draw(rt, label+"-seq")}
}

func drawVoucher(rt *rapid.T, signer *kp, label string) *circuitproto.ReservationVoucher {
	return &circuitproto.ReservationVoucher{
		Relay:      signer.id,
		Peer:       drawKey(rt, label+"-peer").id,
		Expiration: time.Unix(rapid.Int64Range(0, 1<<40).Draw(rt, label+"-exp"), 0),
	}
}

// drawSealed seals one record; with prev != nil it is related to prev (same key,
// same domain, same type or same payload) so that splices are near misses.
func drawSealed(rt *rapid.T, prev *sealed, label string) *sealed {
	return drawSealedBy(rt, prev, label, nil)
}

// drawSealedBy: as drawSealed; k != nil fixes the signing key. Otherwise the signer is
// drawn from every key class (curves, RSA sizes up to the documented maximum).
func drawSealedBy(rt *rapid.T, prev *sealed, label string, k *kp) *sealed {
	switch {
	case k != nil:
	case prev != nil && rapid.Bool().Draw(rt, label+"-samekey"):
		k = prev.key
	default:
		k = drawKeyOpt(rt, label+"-key", mixEnvelope)
	}
	var rec record.Record
	kind := rapid.SampledFrom([]string{"hrec", "hrec", "hrec", "hrec", "hrec", "peerrec", "peerrec", "peerrec", "voucher", "voucher"}).Draw(rt, label+"-kind")
	switch kind {
	case "peerrec":
		rec = drawPeerRecord(rt, k, label)
	case "voucher":
		rec = drawVoucher(rt, k, label)
	default:
		h := &hrec{}
		rel := 4
		if prev != nil {
			rel = rapid.IntRange(0, 4).Draw(rt, label+"-rel")
		}
		if rel == 4 {
			h.domain, h.codec = drawDomain(rt, label+"-dom"), drawCodec(rt, label+"-codec")
			switch rapid.IntRange(0, 5).Draw(rt, label+"-pk") {
			case 0: // a well-formed peer record as opaque payload
				h.payload, _ = drawPeerRecord(rt, k, label+"-inner").MarshalRecord()
			case 1:
				h.payload, _ = drawVoucher(rt, k, label+"-inner").MarshalRecord()
			default:
				h.payload = drawBytes(rt, label+"-payload", true)
			}
		} else {
			h.domain, h.codec, h.payload = prev.domain, prev.ptype, prev.payload
			switch rel {
			case 1:
				h.payload = drawBytes(rt, label+"-payload", true)
			case 2:
				h.codec = drawCodec(rt, label+"-codec")
			case 3:
				h.domain = drawDomain(rt, label+"-dom")
			}
		}
		rec = h
	}
	s, err := sealRecord(rec, k, kind)
	if err != nil {
		rt.Fatalf("sealing %s record with %s: %v", kind, k.tag, err)
	}
	return s
}

// ---------------------------------------------------------------------------
// Receivers and the acceptance oracle

func samePeerRecord(a, b *peer.PeerRecord) bool {
	if a.PeerID != b.PeerID || a.Seq != b.Seq || len(a.Addrs) != len(b.Addrs) {
		return false
	}
	for i := range a.Addrs {
		if !a.Addrs[i].Equal(b.Addrs[i]) {
			return false
		}
	}
	return true
}

func sameVoucher(a, b *circuitproto.ReservationVoucher) bool {
	return a.Relay == b.Relay && a.Peer == b.Peer && a.Expiration.Unix() == b.Expiration.Unix()
}

// sameContent compares a decoded record with the record that was sealed.
func sameContent(s *sealed, got record.Record) string {
	switch want := s.rec.(type) {
	case *peer.PeerRecord:
		if g, ok := got.(*peer.PeerRecord); ok && !samePeerRecord(want, g) {
			return fmt.Sprintf("decoded peer record %+v differs from the sealed one %+v", g, want)
		}
	case *circuitproto.ReservationVoucher:
		if g, ok := got.(*circuitproto.ReservationVoucher); ok && !sameVoucher(want, g) {
			return fmt.Sprintf("decoded voucher %+v differs from the sealed one %+v", g, want)
		}
	}
	var p []byte
	switch g := got.(type) {
	case *hrec:
		p = g.payload
	case *regRecA:
		p = g.payload
	case *regRecB:
		p = g.payload
	default:
		return ""
	}
	if !bytes.Equal(p, s.payload) {
		return fmt.Sprintf("decoded payload %s differs from the sealed one %s", short(p), short(s.payload))
	}
	return ""
}

type judgement struct {
	accepted []string // receivers that accepted
	fail     string
}

func registered(ptype []byte) bool {
	return bytes.Equal(ptype, codecA) || bytes.Equal(ptype, codecB)
}

// judgeEnvelope presents cand to every receiver. domain is the domain asked for by
// the domain-parametric receivers; the typed PeerRecord / voucher receivers ask for
// their own fixed domain. Every acceptance must decode to exactly a sealed tuple.
// plain != nil says cand is the untouched envelope of that sealed record requested
// under its own domain: the round trip must then succeed.
func judgeEnvelope(set []*sealed, cand []byte, domain string, plain *sealed, withStores bool) judgement {
	return judgeEnvelopeOpt(set, cand, domain, plain, withStores, false)
}

var unknownSigner = &sealed{kind: "unknown-signer"}

func signerInSet(set []*sealed, env *record.Envelope) bool {
	if env == nil || env.PublicKey == nil {
		return true // let matchSealed report it
	}
	km, err := ic.MarshalPublicKey(env.PublicKey)
	if err != nil {
		return true
	}
	for _, s := range set {
		if bytes.Equal(km, s.key.pubM) {
			return true
		}
	}
	return false
}

// judgeEnvelopeOpt: with poolOnly (fuzzing, where the input may carry any key, e.g. a
// degenerate one for which signatures are trivial to produce) the tuple rule is
// applied only to envelopes whose signer is one of the harness' keys; the peerstore
// rule (record.PeerID == ID of the signing key) applies to every signer.
func judgeEnvelopeOpt(set []*sealed, cand []byte, domain string, plain *sealed, withStores, poolOnly bool) judgement {
	var j judgement
	accept := func(recv string, env *record.Envelope, dom string, rec record.Record) *sealed {
		j.accepted = append(j.accepted, recv)
		if poolOnly && !signerInSet(set, env) {
			return unknownSigner
		}
		s, msg := matchSealed(set, env, dom)
		if s == nil {
			j.fail = recv + ": " + msg
			return nil
		}
		if msg := sameContent(s, rec); msg != "" {
			j.fail = recv + ": " + msg
			return nil
		}
		return s
	}
	// R1: ConsumeTypedEnvelope with a record type of the requested domain. Every typed
	// receiver hands over a destination record that already HAS content (a caller that
	// re-uses one record value); a refused envelope must leave it as it was (typed_test.go).
	dest := &hrec{domain: domain, codec: destCodec, payload: destPayload}
	env, err := record.ConsumeTypedEnvelope(cand, dest)
	if err == nil {
		if accept("typed", env, domain, dest) == nil {
			return j
		}
	} else if plain != nil {
		j.fail = fmt.Sprintf("typed: the untouched envelope is refused under its own domain: %v", err)
		return j
	} else if dest.domain != domain || !bytes.Equal(dest.codec, destCodec) || !bytes.Equal(dest.payload, destPayload) {
		j.fail = fmt.Sprintf("typed: the envelope is refused (%v) but the destination record was overwritten: payload %s -> %s", err, short(destPayload), short(dest.payload))
		return j
	}
	// R2: ConsumeEnvelope (registry decides the record type)
	env, rec, err := record.ConsumeEnvelope(cand, domain)
	if err == nil {
		if rec == nil {
			j.fail = "ConsumeEnvelope returned a nil record without error"
			return j
		}
		s := accept("registry", env, domain, rec)
		if s == nil {
			return j
		}
		if pr, ok := rec.(*peer.PeerRecord); ok && withStores && domain == peer.PeerRecordEnvelopeDomain {
			books, closeBooks := newBooks(0)
			for _, b := range books {
				acc, fail := storeConsume(b, env, pr)
				if fail != "" {
					j.fail = fail
				}
				if acc {
					j.accepted = append(j.accepted, b.name)
				}
			}
			closeBooks()
			if j.fail != "" {
				return j
			}
		}
	} else if plain != nil && (plain.kind != "hrec" || registered(plain.ptype)) {
		j.fail = fmt.Sprintf("registry: the untouched %s envelope is refused under its own domain: %v", plain.kind, err)
		return j
	}
	// R3 / R4: the real record types
	pr, prWas := destPeerRecord()
	if env, err := record.ConsumeTypedEnvelope(cand, pr); err == nil {
		if accept("typed-peerrec", env, peer.PeerRecordEnvelopeDomain, pr) == nil {
			return j
		}
	} else if plain != nil && plain.kind == "peerrec" {
		j.fail = fmt.Sprintf("typed-peerrec: the untouched peer record envelope is refused: %v", err)
		return j
	} else if !samePeerRecord(pr, prWas) {
		j.fail = fmt.Sprintf("typed-peerrec: the envelope is refused (%v) but the destination record was overwritten: %+v -> %+v", err, prWas, pr)
		return j
	}
	rv, rvWas := destVoucher()
	if env, err := record.ConsumeTypedEnvelope(cand, rv); err == nil {
		if accept("typed-voucher", env, circuitproto.RecordDomain, rv) == nil {
			return j
		}
	} else if plain != nil && plain.kind == "voucher" {
		j.fail = fmt.Sprintf("typed-voucher: the untouched voucher envelope is refused: %v", err)
		return j
	} else if !sameVoucher(rv, rvWas) && !authenticUnder(set, env, circuitproto.RecordDomain, poolOnly) {
		// (ReservationVoucher.UnmarshalRecord fills its fields one by one: an AUTHENTIC payload that
		// does not decode as a voucher may leave some behind; nothing unauthenticated may)
		j.fail = fmt.Sprintf("typed-voucher: the envelope is refused (%v) but the destination record was overwritten: %+v -> %+v", err, rvWas, rv)
		return j
	}
	// UnmarshalEnvelope performs no validation but must not panic
	_, _ = record.UnmarshalEnvelope(cand)
	return j
}

// ---------------------------------------------------------------------------
// Candidate construction

type candidate struct {
	op     string
	mut    string // byte-level operator used inside, if any
	desc   string
	data   []byte
	domain string
	plain  *sealed
}

func otherDomain(rt *rapid.T, set []*sealed, base *sealed) (string, string) {
	d := base.domain
	switch rapid.IntRange(0, 8).Draw(rt, "dom-kind") {
	case 0:
		if len(set) > 1 {
			o := set[rapid.IntRange(0, len(set)-1).Draw(rt, "dom-of")]
			if o.domain != d {
				return o.domain, "domain of another sealed envelope"
			}
		}
		return d + "x", "domain+x"
	case 1:
		return "", "empty domain"
	case 2:
		return d[:len(d)-1], "domain minus last byte"
	case 3:
		return d + string(base.ptype[:1]), "domain + first byte of payload type"
	case 4:
		return d + string(rune(len(base.ptype))), "domain + length byte of payload type"
	case 5:
		if u := strings.ToUpper(d); u != d {
			return u, "upper-cased domain"
		}
		return d + "\x00", "domain+NUL"
	case 6:
		for _, k := range knownDomains {
			if k != d {
				return k, "well-known other domain"
			}
		}
	case 7:
		return d + d, "domain twice"
	}
	b := []byte(d)
	b[rapid.IntRange(0, len(b)-1).Draw(rt, "dom-pos")] ^= 1 << rapid.IntRange(0, 7).Draw(rt, "dom-bit")
	return string(b), "bit flip in domain"
}

func drawCandidate(rt *rapid.T, set []*sealed) candidate {
	bi := rapid.IntRange(0, len(set)-1).Draw(rt, "base")
	base := set[bi]
	fs := mustFields(base.raw)
	c := candidate{domain: base.domain}
	pick := func() int { return rapid.IntRange(0, len(fs)-1).Draw(rt, "field") }
	fname := func(i int) string { return envFieldName[fs[i].num] }
	done := func(op, desc string) candidate {
		c.op, c.desc, c.data = op, fmt.Sprintf("base %d: %s", bi, desc), encodeFields(fs)
		return c
	}
	switch rapid.IntRange(0, 17).Draw(rt, "op") {
	case 0:
		c.op, c.desc, c.data, c.plain = "identity", fmt.Sprintf("base %d untouched", bi), base.raw, base
		return c
	case 1, 2:
		mu := drawMutation(rt, base.raw, "raw")
		c.op, c.mut, c.desc, c.data = "raw", mu.op, fmt.Sprintf("base %d: %s", bi, mu.desc), mu.out
		return c
	case 3, 4, 5: // edit inside one field, framing intact
		i := pick()
		mu := drawMutation(rt, fs[i].val, "fv")
		fs[i].val = mu.out
		c.mut = mu.op
		return done("field-"+fname(i), fname(i)+": "+mu.desc)
	case 6, 16, 17: // nested key edits
		var ki = -1
		for i := range fs {
			if fs[i].num == envKey {
				ki = i
			}
		}
		switch rapid.IntRange(0, 2).Draw(rt, "keyop") {
		case 0:
			o := drawKey(rt, "foreign-key")
			fs[ki].val = o.pubM
			return done("foreign-key", "key := "+o.tag)
		case 1:
			o := drawKeyOfType(rt, base.key.typ, "foreign-key")
			fs[ki].val = o.pubM
			return done("foreign-key-same-type", "key := "+o.tag)
		default:
			mu := drawKeyCandidate(rt, base.key, base.key.pubM, false)
			fs[ki].val = mu.out
			c.mut = mu.op
			return done("key-inner", "key: "+mu.desc)
		}
	case 7:
		if len(fs) >= 2 {
			i := pick()
			j := pick()
			if i == j {
				j = (i + 1) % len(fs)
			}
			fs[i].val, fs[j].val = fs[j].val, fs[i].val
			return done("swap-contents", fname(i)+" <-> "+fname(j))
		}
	case 8:
		i := pick()
		old := fs[i].num
		nn := protowire.Number(rapid.IntRange(1, 7).Draw(rt, "newnum"))
		if nn == old {
			nn = old%7 + 1
		}
		fs[i].num = nn
		return done("tag-change", fmt.Sprintf("%s: field %d -> %d", envFieldName[old], old, nn))
	case 9:
		i := pick()
		dup := pbField{fs[i].num, fs[i].typ, append([]byte(nil), fs[i].val...)}
		edited := rapid.Bool().Draw(rt, "dup-edited")
		if edited && len(dup.val) > 0 {
			dup.val[rapid.IntRange(0, len(dup.val)-1).Draw(rt, "dup-pos")] ^= 0x04
		}
		nm := fname(i)
		if rapid.Bool().Draw(rt, "dup-front") {
			fs = append([]pbField{dup}, fs...)
		} else {
			fs = append(fs, dup)
		}
		return done("dup-field", fmt.Sprintf("duplicate %s edited=%v", nm, edited))
	case 10:
		if rapid.Bool().Draw(rt, "drop") {
			i := pick()
			nm := fname(i)
			fs = append(fs[:i:i], fs[i+1:]...)
			return done("drop-field", "drop "+nm)
		}
		for i, j := 0, len(fs)-1; i < j; i, j = i+1, j-1 {
			fs[i], fs[j] = fs[j], fs[i]
		}
		return done("reorder", "reverse field order")
	case 11, 12: // splice fields of another sealed envelope
		if len(set) >= 2 {
			oi := (bi + 1 + rapid.IntRange(0, len(set)-2).Draw(rt, "splice-from")) % len(set)
			ofs := mustFields(set[oi].raw)
			mask := rapid.IntRange(1, 14).Draw(rt, "splice-mask") // non-empty proper subset of the four fields
			var names []string
			for bit, num := range []protowire.Number{envKey, envType, envPayload, envSig} {
				if mask&(1<<bit) == 0 {
					continue
				}
				names = append(names, envFieldName[num])
				for i := range fs {
					if fs[i].num == num {
						fs[i].val = append([]byte(nil), fieldBytes(ofs, num)...)
					}
				}
			}
			if rapid.Bool().Draw(rt, "splice-domain") {
				c.domain = set[oi].domain
			}
			return done("splice", fmt.Sprintf("%s from sealed %d, domain %q", strings.Join(names, "+"), oi, c.domain))
		}
	case 13: // foreign domain, bytes untouched
		d, what := otherDomain(rt, set, base)
		if d != base.domain {
			c.domain = d
			c.op, c.desc, c.data = "foreign-domain", fmt.Sprintf("base %d untouched, asked under %s", bi, what), base.raw
			return c
		}
	case 14: // harmless re-encodings
		switch rapid.IntRange(0, 1).Draw(rt, "harmless") {
		case 0:
			fs = append(fs, pbField{protowire.Number(rapid.IntRange(6, 30).Draw(rt, "unum")), protowire.BytesType, []byte("extra")})
			return done("unknown-field", "append unknown field")
		default:
			// non-minimal varint for one length prefix
			i := pick()
			var out []byte
			for k, f := range fs {
				out = protowire.AppendTag(out, f.num, f.typ)
				if k == i {
					l := len(f.val)
					out = append(out, byte(l)|0x80, byte(l>>7)|0x80, byte(l>>14)|0x80, 0x00)
					out = append(out, f.val...)
				} else {
					out = protowire.AppendBytes(out, f.val)
				}
			}
			c.op, c.desc, c.data = "nonminimal-length", fmt.Sprintf("base %d: padded length varint of %s", bi, fname(i)), out
			return c
		}
	case 15: // edit inside the payload's own protobuf structure (peer records, vouchers)
		pfs, ok := parseFields(base.payload)
		if ok && len(pfs) > 0 {
			i := rapid.IntRange(0, len(pfs)-1).Draw(rt, "pfield")
			switch {
			case pfs[i].typ == protowire.BytesType && rapid.Bool().Draw(rt, "foreign-id"):
				pfs[i].val = []byte(drawKey(rt, "pid").id)
			case pfs[i].typ == protowire.BytesType:
				pfs[i].val = drawMutation(rt, pfs[i].val, "pv").out
			default:
				v, _ := protowire.ConsumeVarint(pfs[i].val)
				pfs[i].val = protowire.AppendVarint(nil, v+uint64(rapid.IntRange(1, 1000).Draw(rt, "delta")))
			}
			for k := range fs {
				if fs[k].num == envPayload {
					fs[k].val = encodeFields(pfs)
				}
			}
			return done("payload-inner", fmt.Sprintf("payload field %d edited", pfs[i].num))
		}
	}
	mu := drawMutation(rt, base.raw, "raw")
	c.op, c.mut, c.desc, c.data = "raw", mu.op, fmt.Sprintf("base %d: %s", bi, mu.desc), mu.out
	return c
}

func setKinds(set []*sealed) string {
	var k []string
	for _, s := range set {
		k = append(k, s.kind+"/"+s.key.typ)
	}
	return strings.Join(k, ",")
}

func TestEnvelopeMutation(t *testing.T) {
	name := t.Name()
	hx.Check(t, 6000, 160000, 0, func(rt *rapid.T) {
		peer.AdvancedEnableInlining = true
		n := rapid.IntRange(1, 3).Draw(rt, "nsealed")
		var set []*sealed
		for i := 0; i < n; i++ {
			var prev *sealed
			if i > 0 {
				prev = set[rapid.IntRange(0, i-1).Draw(rt, "rel-to")]
			}
			set = append(set, drawSealed(rt, prev, fmt.Sprintf("s%d", i)))
		}
		ncand := rapid.IntRange(1, 10).Draw(rt, "ncand")
		for i := 0; i < ncand; i++ {
			c := drawCandidate(rt, set)
			alsoForeign := false
			if c.op != "foreign-domain" && c.op != "splice" && c.op != "identity" && rapid.IntRange(0, 9).Draw(rt, "also-foreign-domain") == 0 {
				c.domain, _ = otherDomain(rt, set, set[0])
				alsoForeign = true
			}
			j := judgeEnvelope(set, c.data, c.domain, c.plain, true)
			if j.fail != "" {
				rt.Fatalf("sealed set [%s], candidate [%s: %s] asked under domain %q:\n  %s\n  candidate bytes: %x", setKinds(set), c.op, c.desc, c.domain, j.fail, c.data)
			}
			verdict := "refused"
			if len(j.accepted) > 0 {
				verdict = "accepted(content=sealed)"
			}
			labels := []string{"op:" + c.op, verdict}
			if c.mut != "" {
				labels = append(labels, "byteop:"+c.mut)
			}
			if alsoForeign {
				labels = append(labels, "plus-foreign-domain")
			}
			for _, s := range set {
				labels = append(labels, "kind:"+s.kind, "key:"+s.key.typ, classLabel(s.key.cls))
			}
			for _, r := range j.accepted {
				labels = append(labels, "accepted-by:"+r)
			}
			stats.Case(name, fp(c.data, c.domain), c.plain == nil, labels...)
			if stats.WantSample(name) {
				stats.Sample(name, map[string]any{"sealed": setKinds(set), "op": c.op, "desc": c.desc, "domain": c.domain, "accepted_by": j.accepted})
			}
		}
	})
}

// ---------------------------------------------------------------------------
// Colliding (domain, payload type, payload) triples

type triple struct {
	d    string
	t, p []byte
}

func nonEmpty(rt *rapid.T, label string, max int) []byte {
	n := rapid.IntRange(1, max).Draw(rt, label+"-n")
	b := make([]byte, n)
	for i := range b {
		b[i] = rapid.Byte().Draw(rt, label)
	}
	return b
}

func maybeEmpty(rt *rapid.T, label string, max int) []byte {
	n := rapid.IntRange(0, max).Draw(rt, label+"-n")
	b := make([]byte, n)
	for i := range b {
		b[i] = rapid.Byte().Draw(rt, label)
	}
	return b
}

func cat(parts ...[]byte) []byte { return bytes.Join(parts, nil) }

// drawCollision returns two different triples that have the same pre-image under a
// weaker encoding than the specified one (uvarint length prefix on each of the three
// fields). The weaker encodings are:
//
//	concat       d || t || p
//	no-len-d     d || L(t) t || L(p) p
//	no-len-t     L(d) d || t || L(p) p
//	no-len-tp    L(d) d || t || p
//	no-len-dt    d || t || L(p) p
//	separator    d sep t sep p
//	len-mod-128  one length byte, len mod 128      (breaks for fields >= 128 bytes)
//	len-mod-256  one length byte, len mod 256      (breaks for fields >= 256 bytes)
//
// (dropping only the LAST field's prefix stays injective, so there is no such class.)
func drawCollision(rt *rapid.T) (kind string, a, b triple) {
	kind = rapid.SampledFrom([]string{"concat", "no-len-d", "no-len-t", "no-len-tp", "no-len-dt", "separator", "len-mod-128", "len-mod-256"}).Draw(rt, "weak")
	switch kind {
	case "concat":
		x := nonEmpty(rt, "x", 20)
		for len(x) < 3 {
			x = append(x, rapid.Byte().Draw(rt, "x"))
		}
		n := len(x)
		cut := func(l string) (int, int) {
			i := rapid.IntRange(1, n-1).Draw(rt, l+"i")
			j := rapid.IntRange(i+1, n).Draw(rt, l+"j")
			return i, j
		}
		i, j := cut("a")
		i2, j2 := cut("b")
		if i == i2 && j == j2 {
			if j < n {
				j2 = j + 1
			} else if i > 1 {
				i2 = i - 1
			} else {
				i2 = i + 1 // n >= 3, i == 1, j == n
			}
		}
		a = triple{string(x[:i]), x[i:j], x[j:]}
		b = triple{string(x[:i2]), x[i2:j2], x[j2:]}
	case "no-len-d":
		d := nonEmpty(rt, "d", 12)
		t2 := nonEmpty(rt, "t", 100)
		p := maybeEmpty(rt, "p", 12)
		al := byte(len(t2))
		a = triple{string(d), cat([]byte{al}, t2), p}
		b = triple{string(cat(d, []byte{al + 1})), t2, p}
	case "no-len-t":
		d := nonEmpty(rt, "d", 12)
		t2 := nonEmpty(rt, "t", 8)
		p := maybeEmpty(rt, "p", 40)
		k := rapid.IntRange(1, 8).Draw(rt, "k")
		s2 := make([]byte, k-1)
		for i := range s2 {
			s2[i] = rapid.Byte().Draw(rt, "s")
		}
		a = triple{string(d), cat(t2, []byte{byte(k + len(p))}, s2), p}
		b = triple{string(d), t2, cat(s2, []byte{byte(len(p))}, p)}
	case "no-len-tp":
		d := nonEmpty(rt, "d", 12)
		x := nonEmpty(rt, "x", 16)
		for len(x) < 2 {
			x = append(x, rapid.Byte().Draw(rt, "x"))
		}
		i := rapid.IntRange(1, len(x)).Draw(rt, "i")
		j := rapid.IntRange(1, len(x)).Draw(rt, "j")
		if i == j {
			j = i%len(x) + 1
		}
		a = triple{string(d), x[:i], x[i:]}
		b = triple{string(d), x[:j], x[j:]}
	case "no-len-dt":
		p := maybeEmpty(rt, "p", 12)
		x := nonEmpty(rt, "x", 16)
		for len(x) < 3 {
			x = append(x, rapid.Byte().Draw(rt, "x"))
		}
		i := rapid.IntRange(1, len(x)-1).Draw(rt, "i")
		j := rapid.IntRange(1, len(x)-1).Draw(rt, "j")
		if i == j {
			j = i%(len(x)-1) + 1
		}
		a = triple{string(x[:i]), x[i:], p}
		b = triple{string(x[:j]), x[j:], p}
	case "separator":
		sep := rapid.SampledFrom([][]byte{{0}, {':'}, {'/'}, {'\n'}, {'|'}, {':', ':'}}).Draw(rt, "sep")
		u, v, w, z := nonEmpty(rt, "u", 6), nonEmpty(rt, "v", 6), nonEmpty(rt, "w", 6), maybeEmpty(rt, "z", 6)
		if rapid.Bool().Draw(rt, "boundary-dt") {
			a = triple{string(cat(u, sep, v)), w, z}
			b = triple{string(u), cat(v, sep, w), z}
		} else {
			a = triple{string(u), cat(v, sep, w), z}
			b = triple{string(u), v, cat(w, sep, z)}
		}
	case "len-mod-128", "len-mod-256":
		m := 128
		if kind == "len-mod-256" {
			m = 256
		}
		d := nonEmpty(rt, "d", 12)
		t2 := nonEmpty(rt, "t", 8)
		p := maybeEmpty(rt, "p", 40)
		r := expand(fmt.Sprintf("r/%d", rapid.Uint64().Draw(rt, "rseed")), m-1)
		a = triple{string(d), cat(t2, []byte{byte(len(p))}, r), p}
		b = triple{string(d), t2, cat(r, []byte{byte(len(p))}, p)}
	}
	return
}

// weakEncodings recomputes the weaker pre-images; used only to self-check that the
// generator really produces collisions of the advertised class.
func weakEncode(kind string, x triple) []byte {
	l := func(b []byte) []byte { return protowire.AppendVarint(nil, uint64(len(b))) }
	d := []byte(x.d)
	switch kind {
	case "concat":
		return cat(d, x.t, x.p)
	case "no-len-d":
		return cat(d, l(x.t), x.t, l(x.p), x.p)
	case "no-len-t":
		return cat(l(d), d, x.t, l(x.p), x.p)
	case "no-len-tp":
		return cat(l(d), d, x.t, x.p)
	case "no-len-dt":
		return cat(d, x.t, l(x.p), x.p)
	case "len-mod-128":
		return cat([]byte{byte(len(d) % 128)}, d, []byte{byte(len(x.t) % 128)}, x.t, []byte{byte(len(x.p) % 128)}, x.p)
	case "len-mod-256":
		return cat([]byte{byte(len(d))}, d, []byte{byte(len(x.t))}, x.t, []byte{byte(len(x.p))}, x.p)
	}
	return nil
}

func TestEnvelopeCollisions(t *testing.T) {
	name := t.Name()
	hx.Check(t, 5000, 120000, 0, func(rt *rapid.T) {
		kind, a, b := drawCollision(rt)
		if a.d == b.d && bytes.Equal(a.t, b.t) && bytes.Equal(a.p, b.p) {
			rt.Fatalf("harness: %s collision generator produced identical triples", kind)
		}
		if a.d == "" || b.d == "" || len(a.t) == 0 || len(b.t) == 0 {
			rt.Fatalf("harness: %s collision generator produced an empty domain / type", kind)
		}
		if kind != "separator" && !bytes.Equal(weakEncode(kind, a), weakEncode(kind, b)) {
			rt.Fatalf("harness: %s triples do not collide: %+v %+v", kind, a, b)
		}
		if rapid.Bool().Draw(rt, "mirror") {
			a, b = b, a
		}
		k := drawKeyOpt(rt, "k", keyMix{other: 1}) // the signer is verified ~12 times per case
		s, err := sealRecord(&hrec{domain: a.d, codec: a.t, payload: a.p}, k, "hrec")
		if err != nil {
			rt.Fatalf("Seal: %v", err)
		}
		set := []*sealed{s}
		// the genuine envelope is accepted under its own domain ...
		if j := judgeEnvelope(set, s.raw, a.d, s, false); j.fail != "" {
			rt.Fatalf("%s: %s", kind, j.fail)
		}
		// ... and its signature must not carry over to the colliding triple
		forged := buildEnvelope(k.pubM, b.t, b.p, s.sig)
		j := judgeEnvelope(set, forged, b.d, nil, false)
		if j.fail != "" {
			rt.Fatalf("collision class %s: sealed (domain=%q type=%x payload=%x) with %s; envelope claiming (type=%x payload=%x) with the same signature, asked under domain %q:\n  %s",
				kind, a.d, a.t, a.p, k.tag, b.t, b.p, b.d, j.fail)
		}
		// the genuine bytes under the colliding domain
		if j := judgeEnvelope(set, s.raw, b.d, nil, false); j.fail != "" && a.d != b.d {
			rt.Fatalf("collision class %s: genuine envelope asked under foreign domain %q: %s", kind, b.d, j.fail)
		}
		stats.Case(name, fp(kind, a.d, a.t, a.p, b.d, b.t, b.p, k.tag), true, "weak:"+kind, "key:"+k.typ, classLabel(k.cls))
		if stats.WantSample(name) {
			stats.Sample(name, map[string]any{"class": kind, "sealed": fmt.Sprintf("%q %x %x", a.d, a.t, a.p), "claimed": fmt.Sprintf("%q %x %x", b.d, b.t, b.p), "key": k.tag})
		}
	})
}

// ---------------------------------------------------------------------------
// Every position of one envelope per key type x record kind

func TestEnvelopeEveryPosition(t *testing.T) {
	name := t.Name()
	peer.AdvancedEnableInlining = true
	idx := 0
	for ti, typ := range sweepTypes(hx.Pick(1, 2)) {
		k := freshKeyClass(sweepClass(typ, ti/len(keyTypes)), uint64(9000+ti))
		other := freshKey(typ, uint64(9100+ti))
		recs := []struct {
			kind string
			rec  record.Record
		}{
			{"hrec", &hrec{domain: "c08-sweep", codec: codecA, payload: []byte("payload of the sweep sample \x00\x01\x02")}},
			{"peerrec", &peer.PeerRecord{PeerID: k.id, Seq: 77, Addrs: drawnAddrsFixed()}},
			{"voucher", &circuitproto.ReservationVoucher{Relay: k.id, Peer: other.id, Expiration: time.Unix(1900000000, 0)}},
		}
		for _, r := range recs {
			s, err := sealRecord(r.rec, k, r.kind)
			if err != nil {
				t.Fatal(err)
			}
			set := []*sealed{s}
			if j := judgeEnvelope(set, s.raw, s.domain, s, true); j.fail != "" {
				t.Fatalf("%s/%s: %s", typ, r.kind, j.fail)
			}
			judge := func(op string, pos int, cand []byte) {
				j := judgeEnvelope(set, cand, s.domain, nil, true)
				if j.fail != "" {
					t.Fatalf("%s/%s envelope %x: %s at %d -> %x:\n  %s", typ, r.kind, s.raw, op, pos, cand, j.fail)
				}
				verdict := "refused"
				if len(j.accepted) > 0 {
					verdict = "accepted(content=sealed)"
				}
				stats.CaseEnumerated(name, true, "key:"+typ, "kind:"+r.kind, "op:"+op, verdict)
			}
			for pos := range s.raw {
				for bit := 0; bit < 8; bit++ {
					idx++
					if !hx.Mine(idx) {
						continue
					}
					c := append([]byte(nil), s.raw...)
					c[pos] ^= 1 << bit
					judge("flipbit", pos, c)
				}
			}
			for l := 0; l < len(s.raw); l++ {
				idx++
				if !hx.Mine(idx) {
					continue
				}
				judge("truncate", l, append([]byte(nil), s.raw[:l]...))
			}
			for pos := range s.raw {
				idx++
				if !hx.Mine(idx) {
					continue
				}
				judge("delete-byte", pos, append(append([]byte(nil), s.raw[:pos]...), s.raw[pos+1:]...))
			}
		}
	}
}

func drawnAddrsFixed() []ma.Multiaddr {
	return []ma.Multiaddr{ma.StringCast("/ip4/203.0.113.5/tcp/4001"), ma.StringCast("/ip6/2001:db8::5/udp/4001/quic-v1")}
}
