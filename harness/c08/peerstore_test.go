package c08

import (
	"bytes"
	"context"
	"crypto/sha256"
	"encoding/binary"
	"fmt"
	"testing"
	"time"

	ds "github.com/ipfs/go-datastore"
	dssync "github.com/ipfs/go-datastore/sync"
	ic "github.com/libp2p/go-libp2p/core/crypto"
	"github.com/libp2p/go-libp2p/core/peer"
	"github.com/libp2p/go-libp2p/core/peerstore"
	"github.com/libp2p/go-libp2p/core/record"
	"github.com/libp2p/go-libp2p/p2p/host/peerstore/pstoreds"
	"github.com/libp2p/go-libp2p/p2p/host/peerstore/pstoremem"
	ma "github.com/multiformats/go-multiaddr"
	"pgregory.net/rapid"

	"verif/internal/hx"
	"verif/internal/stats"
)

type book interface {
	peerstore.AddrBook
	peerstore.CertifiedAddrBook
	Close() error
}

type namedBook struct {
	name string
	book
}

// newBooks creates one fresh address book of each implementation (no GC timers for
// the datastore one; the memory one is closed by the caller before any tick matters).
func newBooks(dsCache uint) ([]namedBook, func()) {
	mem := pstoremem.NewAddrBook()
	opts := pstoreds.DefaultOpts()
	opts.GCPurgeInterval = 0
	opts.CacheSize = dsCache
	dsb, err := pstoreds.NewAddrBook(context.Background(), dssync.MutexWrap(ds.NewMapDatastore()), opts)
	if err != nil {
		mem.Close()
		panic(fmt.Sprintf("harness: pstoreds.NewAddrBook: %v", err))
	}
	return []namedBook{{"pstoremem", mem}, {"pstoreds", dsb}}, func() { mem.Close(); dsb.Close() }
}

func sameAddrSet(a, b []ma.Multiaddr) bool {
	if len(a) != len(b) {
		return false
	}
	m := map[string]int{}
	for _, x := range a {
		m[string(x.Bytes())]++
	}
	for _, x := range b {
		m[string(x.Bytes())]--
	}
	for _, v := range m {
		if v != 0 {
			return false
		}
	}
	return true
}

// storeConsume feeds an envelope that a receiver obtained from ConsumeEnvelope to a
// book and applies the statement: accepted only if the record's peer ID is the ID of
// the signing key. signerID is computed by the harness from the envelope's key bytes.
func storeConsume(b namedBook, env *record.Envelope, rec *peer.PeerRecord) (accepted bool, fail string) {
	km, err := ic.MarshalPublicKey(env.PublicKey)
	if err != nil {
		return false, "cannot marshal envelope key: " + err.Error()
	}
	signerID := refID(km)
	ok, err := b.ConsumePeerRecord(env, time.Hour)
	accepted = ok && err == nil
	if ok && err != nil {
		return true, fmt.Sprintf("%s: ConsumePeerRecord returned (true, %v)", b.name, err)
	}
	if accepted && rec.PeerID != signerID {
		return true, fmt.Sprintf("%s accepted a peer record for %s signed by the key of %s", b.name, rec.PeerID, signerID)
	}
	return accepted, ""
}

// TestPeerstoreConsume: validly signed peer records whose PeerID is / is not the
// signer's ID, consumed by both address books, optionally after a genuine record of
// the victim is already stored.
func TestPeerstoreConsume(t *testing.T) {
	name := t.Name()
	hx.Check(t, 3000, 60000, 0, func(rt *rapid.T) {
		peer.AdvancedEnableInlining = true
		signer := drawSigner(rt, "signer")
		kind := rapid.SampledFrom([]string{"match", "match", "other-key", "other-key-same-type", "other-hash", "bitflip-id", "identity-of-prefix", "truncated-digest"}).Draw(rt, "claim")
		var claimed peer.ID
		var victim *kp
		switch kind {
		case "match":
			claimed = signer.id
		case "other-key":
			victim = drawKey(rt, "victim")
			claimed = victim.id
		case "other-key-same-type":
			victim = drawKeyOfType(rt, signer.typ, "victim")
			claimed = victim.id
		case "other-hash":
			// the signer's own key under the other multihash: not the ID of the key
			if signer.id[0] == 0x00 {
				h := sha256.Sum256(signer.pubM)
				claimed = peer.ID(append([]byte{0x12, 0x20}, h[:]...))
			} else {
				claimed = peer.ID(append(binary.AppendUvarint([]byte{0x00}, uint64(len(signer.pubM))), signer.pubM...))
			}
		case "bitflip-id":
			b := []byte(signer.id)
			pos := rapid.IntRange(2, len(b)-1).Draw(rt, "pos") // keep the multihash header valid
			b[pos] ^= 1 << rapid.IntRange(0, 7).Draw(rt, "bit")
			claimed = peer.ID(b)
		case "identity-of-prefix":
			n := rapid.IntRange(0, min(len(signer.pubM)-1, 60)).Draw(rt, "n")
			claimed = peer.ID(append([]byte{0x00, byte(n)}, signer.pubM[:n]...))
		case "truncated-digest":
			b := []byte(signer.id)
			n := rapid.IntRange(0, len(b)-3).Draw(rt, "n")
			claimed = peer.ID(append([]byte{b[0], byte(n)}, b[2:2+n]...))
		}
		if victim != nil && bytes.Equal(victim.pubM, signer.pubM) {
			kind, claimed = "match", signer.id
		}
		matches := claimed == signer.id
		prior := victim != nil && rapid.Bool().Draw(rt, "victim-has-record")
		addrs := drawAddrs(rt, "addrs", 1)
		seq := rapid.Uint64Range(0, 1<<40).Draw(rt, "seq")
		dsCache := uint(rapid.SampledFrom([]int{0, 8}).Draw(rt, "dscache"))

		rec := &peer.PeerRecord{PeerID: claimed, Addrs: addrs, Seq: seq}
		env, err := record.Seal(rec, signer.priv)
		if err != nil {
			rt.Fatalf("Seal: %v", err)
		}
		raw, err := env.Marshal()
		if err != nil {
			rt.Fatalf("Marshal: %v", err)
		}
		// the receiver's path: bytes -> ConsumeEnvelope -> ConsumePeerRecord
		renv, rrec, err := record.ConsumeEnvelope(raw, peer.PeerRecordEnvelopeDomain)
		if err != nil {
			if matches {
				rt.Fatalf("a validly sealed peer record of the signer itself is refused by ConsumeEnvelope: %v", err)
			}
			// the claimed ID does not even decode: refused before any book is involved
			stats.Case(name, fp(signer.tag, kind, []byte(claimed), seq, fmt.Sprint(addrs)), true, signer.typ, classLabel(signer.cls), "claim:"+kind, "refused-at-decode")
			return
		}
		prec, ok := rrec.(*peer.PeerRecord)
		if !ok || prec.PeerID != claimed {
			rt.Fatalf("ConsumeEnvelope decoded %T with PeerID %v, sealed PeerID %x", rrec, prec, claimed)
		}

		books, closeBooks := newBooks(dsCache)
		defer closeBooks()
		for _, b := range books {
			var victimRaw []byte
			var victimAddrs []ma.Multiaddr
			if prior {
				victimAddrs = []ma.Multiaddr{ma.StringCast("/ip4/198.51.100.1/tcp/1"), ma.StringCast("/ip4/198.51.100.2/udp/2/quic-v1")}
				vrec := &peer.PeerRecord{PeerID: victim.id, Addrs: victimAddrs, Seq: seq / 2}
				venv, err := record.Seal(vrec, victim.priv)
				if err != nil {
					rt.Fatalf("Seal: %v", err)
				}
				victimRaw, _ = venv.Marshal()
				cenv, _, err := record.ConsumeEnvelope(victimRaw, peer.PeerRecordEnvelopeDomain)
				if err != nil {
					rt.Fatalf("victim's own record refused by ConsumeEnvelope: %v", err)
				}
				if ok, err := b.ConsumePeerRecord(cenv, time.Hour); !ok || err != nil {
					rt.Fatalf("%s refused the victim's own first record: %v %v", b.name, ok, err)
				}
			}
			accepted, fail := storeConsume(b, renv, prec)
			if fail != "" {
				rt.Fatalf("claim=%s signer=%s: %s", kind, signer.tag, fail)
			}
			if matches {
				// plain round trip on a fresh book: the signer's own record is taken and served back intact
				if !accepted {
					rt.Fatalf("%s refused a record whose PeerID is the signer's ID (signer %s)", b.name, signer.tag)
				}
				got := b.GetPeerRecord(signer.id)
				if got == nil {
					rt.Fatalf("%s: GetPeerRecord returns nothing after accepting the record", b.name)
				}
				if s, msg := matchSealed([]*sealed{{key: signer, domain: peer.PeerRecordEnvelopeDomain, ptype: peer.PeerRecordEnvelopePayloadType, payload: renv.RawPayload}}, got, peer.PeerRecordEnvelopeDomain); s == nil {
					rt.Fatalf("%s: stored record differs from the consumed one: %s", b.name, msg)
				}
				continue
			}
			// refused: nothing may have been learnt about either peer
			if accepted {
				rt.Fatalf("unreachable")
			}
			if got := b.GetPeerRecord(signer.id); got != nil {
				rt.Fatalf("%s: refused record left a signed record for the signer", b.name)
			}
			if a := b.Addrs(signer.id); len(a) != 0 {
				rt.Fatalf("%s: refused record left addresses %v for the signer", b.name, a)
			}
			if prior {
				got := b.GetPeerRecord(victim.id)
				if got == nil {
					rt.Fatalf("%s: victim's genuine record vanished after a refused forged one", b.name)
				}
				graw, _ := got.Marshal()
				if s, msg := matchSealed([]*sealed{{key: victim, domain: peer.PeerRecordEnvelopeDomain, ptype: peer.PeerRecordEnvelopePayloadType, payload: mustFieldsPayload(victimRaw)}}, got, peer.PeerRecordEnvelopeDomain); s == nil {
					rt.Fatalf("%s: victim's stored record changed after a refused forged one (%x): %s", b.name, graw, msg)
				}
				if !sameAddrSet(b.Addrs(victim.id), victimAddrs) {
					rt.Fatalf("%s: victim's addresses changed to %v after a refused forged record", b.name, b.Addrs(victim.id))
				}
			} else {
				if got := b.GetPeerRecord(claimed); got != nil {
					rt.Fatalf("%s: refused record is served for the claimed peer", b.name)
				}
				if a := b.Addrs(claimed); len(a) != 0 {
					rt.Fatalf("%s: refused record left addresses %v for the claimed peer", b.name, a)
				}
			}
		}
		pr := "fresh-book"
		if prior {
			pr = "victim-record-present"
		}
		stats.Case(name, fp(signer.tag, kind, []byte(claimed), seq, fmt.Sprint(addrs), prior, dsCache), !matches, signer.typ, classLabel(signer.cls), "claim:"+kind, pr)
		if stats.WantSample(name) {
			stats.Sample(name, map[string]any{"signer": signer.tag, "claim": kind, "claimedID": fmt.Sprintf("%x", claimed), "prior": prior})
		}
	})
}

func mustFieldsPayload(envRaw []byte) []byte { return fieldBytes(mustFields(envRaw), envPayload) }
