package c08

import (
	"bytes"
	"fmt"
	"testing"

	"github.com/decred/dcrd/dcrec/secp256k1/v4"
	ic "github.com/libp2p/go-libp2p/core/crypto"
	"github.com/libp2p/go-libp2p/core/peer"
	"google.golang.org/protobuf/encoding/protowire"
	"pgregory.net/rapid"

	"verif/internal/hx"
	"verif/internal/stats"
)

// ---------------------------------------------------------------------------
// Round trips

func rawOf(k ic.Key) []byte {
	b, err := k.Raw()
	if err != nil {
		return nil
	}
	return b
}

// pubRoundTrip: marshal/unmarshal of the public key through every exported path.
// Equality is judged three ways: Equals (both directions), identical byte
// representation, and "verifies what the original signed".
func pubRoundTrip(k *kp, msg, sig []byte) string {
	m, err := ic.MarshalPublicKey(k.pub)
	if err != nil {
		return "MarshalPublicKey: " + err.Error()
	}
	if m2, _ := ic.MarshalPublicKey(k.pub); !bytes.Equal(m, m2) {
		return "MarshalPublicKey is not deterministic"
	}
	check := func(path string, k2 ic.PubKey, err error) string {
		if err != nil {
			return path + ": " + err.Error()
		}
		if !k2.Equals(k.pub) || !k.pub.Equals(k2) || !ic.KeyEqual(k2, k.pub) {
			return path + ": unmarshalled key is not Equal to the original"
		}
		if k2.Type() != k.pub.Type() || !bytes.Equal(rawOf(k2), rawOf(k.pub)) {
			return path + ": unmarshalled key has another type / raw bytes"
		}
		if mm, err := ic.MarshalPublicKey(k2); err != nil || !bytes.Equal(mm, m) {
			return path + ": re-marshalled key differs"
		}
		if ok, err := k2.Verify(msg, sig); !ok || err != nil {
			return fmt.Sprintf("%s: unmarshalled key does not verify the original's signature (ok=%v err=%v)", path, ok, err)
		}
		return ""
	}
	k2, err := ic.UnmarshalPublicKey(m)
	if s := check("UnmarshalPublicKey", k2, err); s != "" {
		return s
	}
	pm, err := ic.PublicKeyToProto(k.pub)
	if err != nil {
		return "PublicKeyToProto: " + err.Error()
	}
	k3, err := ic.PublicKeyFromProto(pm)
	if s := check("PublicKeyFromProto", k3, err); s != "" {
		return s
	}
	um, ok := ic.PubKeyUnmarshallers[k.pub.Type()]
	if !ok {
		return "no PubKeyUnmarshaller for type"
	}
	k4, err := um(rawOf(k.pub))
	if s := check("PubKeyUnmarshallers[type](Raw)", k4, err); s != "" {
		return s
	}
	dec, err := ic.ConfigDecodeKey(ic.ConfigEncodeKey(m))
	if err != nil || !bytes.Equal(dec, m) {
		return "ConfigEncodeKey/ConfigDecodeKey does not round-trip"
	}
	return ""
}

// privRoundTrip: marshal/unmarshal of the private key through both exported paths. The
// second path (PrivKeyUnmarshallers) is what the first one dispatches to; with
// signOnce the key it yields is compared but does not sign again (RSA keys of ~8192
// bits: 0.1 s per signature).
func privRoundTrip(k *kp, msg []byte, signOnce bool) string {
	s, _ := privRoundTripSig(k, msg, signOnce)
	return s
}

// privRoundTripSig also returns the signature over msg made by the re-read private key
// of the first path (verified under the original public key).
func privRoundTripSig(k *kp, msg []byte, signOnce bool) (fail string, firstSig []byte) {
	signed := false
	m, err := ic.MarshalPrivateKey(k.priv)
	if err != nil {
		return "MarshalPrivateKey: " + err.Error(), nil
	}
	check := func(path string, k2 ic.PrivKey, err error) string {
		if err != nil {
			return path + ": " + err.Error()
		}
		if !k2.Equals(k.priv) || !k.priv.Equals(k2) || !ic.KeyEqual(k2, k.priv) {
			return path + ": unmarshalled private key is not Equal to the original"
		}
		if k2.Type() != k.priv.Type() || !bytes.Equal(rawOf(k2), rawOf(k.priv)) {
			return path + ": unmarshalled private key has another type / raw bytes"
		}
		if pm, err := ic.MarshalPublicKey(k2.GetPublic()); err != nil || !bytes.Equal(pm, k.pubM) {
			return path + ": public half of the unmarshalled private key differs"
		}
		if !k2.GetPublic().Equals(k.pub) {
			return path + ": GetPublic of the unmarshalled key is not Equal to the original public key"
		}
		if !signed || !signOnce {
			signed = true
			sig, err := k2.Sign(msg)
			if err != nil {
				return path + ": Sign with unmarshalled key: " + err.Error()
			}
			if ok, err := k.pub.Verify(msg, sig); !ok || err != nil {
				return fmt.Sprintf("%s: signature of the unmarshalled key does not verify under the original public key (ok=%v err=%v)", path, ok, err)
			}
			if firstSig == nil {
				firstSig = sig
			}
		}
		if id, err := peer.IDFromPrivateKey(k2); err != nil || id != k.id {
			return path + ": IDFromPrivateKey differs after the round trip"
		}
		return ""
	}
	k2, err := ic.UnmarshalPrivateKey(m)
	if s := check("UnmarshalPrivateKey", k2, err); s != "" {
		return s, nil
	}
	um, ok := ic.PrivKeyUnmarshallers[k.priv.Type()]
	if !ok {
		return "no PrivKeyUnmarshaller for type", nil
	}
	k3, err := um(rawOf(k.priv))
	if s := check("PrivKeyUnmarshallers[type](Raw)", k3, err); s != "" {
		return s, nil
	}
	return "", firstSig
}

// distinctKeys: two different keys are not Equal (in any direction, public or private).
func distinctKeys(a, b *kp) string {
	if bytes.Equal(a.pubM, b.pubM) {
		return ""
	}
	if a.pub.Equals(b.pub) || b.pub.Equals(a.pub) || ic.KeyEqual(a.pub, b.pub) {
		return fmt.Sprintf("different public keys %s and %s are Equal", a.tag, b.tag)
	}
	if a.priv.Equals(b.priv) || b.priv.Equals(a.priv) || ic.KeyEqual(a.priv, b.priv) {
		return fmt.Sprintf("different private keys %s and %s are Equal", a.tag, b.tag)
	}
	if a.id == b.id {
		return fmt.Sprintf("different keys %s and %s have the same peer ID", a.tag, b.tag)
	}
	return ""
}

func TestKeyRoundTrip(t *testing.T) {
	name := t.Name()
	hx.Check(t, 1500, 40000, 0, func(rt *rapid.T) {
		k := drawSigner(rt, "k")
		o := drawKey(rt, "other")
		msg := drawBytes(rt, "msg", true)
		sig, err := k.priv.Sign(msg)
		if err != nil {
			rt.Fatalf("%s: Sign: %v", k.tag, err)
		}
		if s := pubRoundTrip(k, msg, sig); s != "" {
			rt.Fatalf("%s: %s", k.tag, s)
		}
		if s := privRoundTrip(k, msg, slowSigner(k)); s != "" {
			rt.Fatalf("%s: %s", k.tag, s)
		}
		if s := distinctKeys(k, o); s != "" {
			rt.Fatalf("%s", s)
		}
		rel := "other-type"
		if o.typ == k.typ {
			rel = "same-type"
		}
		if o.tag == k.tag {
			rel = "same-key"
		}
		// a second key is compared: that part is the non-trivial one (not a plain round trip)
		stats.Case(name, fp(k.tag, o.tag, msg), o.tag != k.tag, k.typ, classLabel(k.cls), "other:"+rel)
		if stats.WantSample(name) {
			stats.Sample(name, map[string]any{"key": k.tag, "other": o.tag, "msg": short(msg)})
		}
	})
}

// ---------------------------------------------------------------------------
// Sign / verify

func verifies(pub ic.PubKey, msg, sig []byte) bool {
	ok, err := pub.Verify(msg, sig)
	return ok && err == nil
}

func TestSignVerify(t *testing.T) {
	name := t.Name()
	hx.Check(t, 3000, 80000, 0, func(rt *rapid.T) {
		k := drawSigner(rt, "k")
		msg := drawBytes(rt, "msg", true)
		sig, err := k.priv.Sign(msg)
		if err != nil {
			rt.Fatalf("%s: Sign: %v", k.tag, err)
		}
		if ok, err := k.pub.Verify(msg, sig); !ok || err != nil {
			rt.Fatalf("%s: signature does not verify under the signer's key for the signed message (ok=%v err=%v)", k.tag, ok, err)
		}
		// a key obtained through the wire form is the same signer
		if rk, err := ic.UnmarshalPublicKey(k.pubM); err != nil || !verifies(rk, msg, sig) {
			rt.Fatalf("%s: signature does not verify under the unmarshalled signer key (%v)", k.tag, err)
		}
		n := rapid.IntRange(1, 6).Draw(rt, "nprobes")
		for i := 0; i < n; i++ {
			kind := rapid.SampledFrom([]string{"other-key", "other-key-same-type", "other-msg", "mut-sig", "mut-sig+other-msg", "mut-sig+other-key", "junk-sig"}).Draw(rt, "probe")
			var desc string
			switch kind {
			case "other-key", "other-key-same-type":
				var o *kp
				if kind == "other-key" {
					o = drawKey(rt, "o")
				} else {
					o = drawKeyOfType(rt, k.typ, "o")
				}
				desc = o.tag
				if !bytes.Equal(o.pubM, k.pubM) {
					if ok, _ := o.pub.Verify(msg, sig); ok {
						rt.Fatalf("signature of %s over %s verifies under another key %s", k.tag, short(msg), o.tag)
					}
				}
			case "other-msg":
				m := drawMutation(rt, msg, "mm")
				desc = m.desc
				if !bytes.Equal(m.out, msg) {
					if ok, _ := k.pub.Verify(m.out, sig); ok {
						rt.Fatalf("%s: signature over %s verifies for another message (%s): %s", k.tag, short(msg), m.desc, short(m.out))
					}
				}
			case "mut-sig":
				// acceptance of a re-encoded signature for the SAME key and message is not a violation; it must not panic
				m := drawMutation(rt, sig, "ms")
				desc = m.desc
				_, _ = k.pub.Verify(msg, m.out)
			case "mut-sig+other-msg":
				ms := drawMutation(rt, sig, "ms")
				mm := drawMutation(rt, msg, "mm")
				desc = ms.desc + " & " + mm.desc
				if !bytes.Equal(mm.out, msg) {
					if ok, _ := k.pub.Verify(mm.out, ms.out); ok {
						rt.Fatalf("%s: mutated signature (%s) verifies for another message (%s)", k.tag, ms.desc, mm.desc)
					}
				}
			case "mut-sig+other-key":
				ms := drawMutation(rt, sig, "ms")
				o := drawKeyOfType(rt, k.typ, "o")
				desc = ms.desc + " & " + o.tag
				if !bytes.Equal(o.pubM, k.pubM) {
					if ok, _ := o.pub.Verify(msg, ms.out); ok {
						rt.Fatalf("mutated signature (%s) of %s verifies under another key %s", ms.desc, k.tag, o.tag)
					}
				}
			case "junk-sig":
				junk := drawBytes(rt, "junk", true)
				desc = short(junk)
				if ok, _ := k.pub.Verify(msg, junk); ok {
					rt.Fatalf("%s: arbitrary bytes %s verify as a signature over %s", k.tag, short(junk), short(msg))
				}
			}
			stats.Case(name, fp(k.tag, msg, kind, desc), true, k.typ, classLabel(k.cls), kind)
		}
		if stats.WantSample(name) {
			stats.Sample(name, map[string]any{"key": k.tag, "msg": short(msg), "probes": n})
		}
	})
}

// ---------------------------------------------------------------------------
// Mutated marshalled keys

// acceptedPub judges one candidate marshalled public key derived from orig.
func acceptedPub(orig *kp, cand, msg, sig []byte) (accepted, same bool, fail string) {
	k2, err := ic.UnmarshalPublicKey(cand)
	if err != nil {
		return false, false, ""
	}
	if k2 == nil {
		return true, false, "UnmarshalPublicKey returned (nil, nil)"
	}
	m2, err := ic.MarshalPublicKey(k2)
	if err != nil {
		return true, false, "accepted key cannot be marshalled: " + err.Error()
	}
	k3, err := ic.UnmarshalPublicKey(m2)
	if err != nil {
		return true, false, fmt.Sprintf("accepted key's own marshalled form %s is refused: %v", short(m2), err)
	}
	if !k3.Equals(k2) || !k2.Equals(k3) {
		return true, false, "accepted key is not Equal to itself after marshal+unmarshal"
	}
	same = bytes.Equal(m2, orig.pubM)
	if e1, e2 := k2.Equals(orig.pub), orig.pub.Equals(k2); e1 != same || e2 != same {
		return true, same, fmt.Sprintf("Equals (%v/%v) disagrees with the byte representation (identical=%v): %s vs %s", e1, e2, same, short(m2), short(orig.pubM))
	}
	ok, _ := k2.Verify(msg, sig)
	if ok && !same {
		return true, same, fmt.Sprintf("signature of %s verifies under a different accepted key %s", orig.tag, short(m2))
	}
	if !ok && same {
		return true, same, "candidate decodes to the signer's key but does not verify its signature"
	}
	id, err := peer.IDFromPublicKey(k2)
	if err != nil {
		return true, same, "IDFromPublicKey(accepted key): " + err.Error()
	}
	if id != refID(m2) {
		return true, same, fmt.Sprintf("IDFromPublicKey(accepted key)=%x differs from the reference definition %x", id, refID(m2))
	}
	return true, same, ""
}

// acceptedPriv judges one candidate marshalled private key derived from orig.
func acceptedPriv(orig *kp, origM, cand, msg []byte) (accepted, same bool, fail string) {
	k2, err := ic.UnmarshalPrivateKey(cand)
	if err != nil {
		return false, false, ""
	}
	if k2 == nil {
		return true, false, "UnmarshalPrivateKey returned (nil, nil)"
	}
	m2, err := ic.MarshalPrivateKey(k2)
	if err != nil {
		return true, false, "accepted private key cannot be marshalled: " + err.Error()
	}
	k3, err := ic.UnmarshalPrivateKey(m2)
	if err != nil {
		return true, false, fmt.Sprintf("accepted private key's own marshalled form is refused: %v", err)
	}
	if !k3.Equals(k2) || !k2.Equals(k3) {
		return true, false, "accepted private key is not Equal to itself after marshal+unmarshal"
	}
	same = bytes.Equal(m2, origM)
	e1, e2 := k2.Equals(orig.priv), orig.priv.Equals(k2)
	if same && (!e1 || !e2) {
		return true, same, "byte-identical private keys are not Equal"
	}
	pub2 := k2.GetPublic()
	if pub2 == nil {
		return true, same, "GetPublic() == nil"
	}
	pm2, err := ic.MarshalPublicKey(pub2)
	if (e1 || e2) && (err != nil || !bytes.Equal(pm2, orig.pubM)) {
		return true, same, fmt.Sprintf("private keys compare Equal (%v/%v) although their public halves differ", e1, e2)
	}
	_, _ = k2.Sign(msg) // must not panic
	// the full equality rule for private keys (privkeys_test.go): Equal <=> the same
	// signer, in both directions and through KeyEqual
	if _, fail := privPairRule(viewPriv(orig.priv), viewPriv(k2), msg); fail != "" {
		return true, same, fail
	}
	return true, same, ""
}

// drawKeyCandidate produces a candidate serialized key from the marshalled form m.
func drawKeyCandidate(rt *rapid.T, k *kp, m []byte, private bool) mutation {
	fs := mustFields(m)
	choice := rapid.IntRange(0, 11).Draw(rt, "kop")
	switch choice {
	case 0, 1, 2:
		return drawMutation(rt, m, "raw")
	case 3, 4, 5: // edit inside Data, framing intact
		for i := range fs {
			if fs[i].num == 2 {
				mu := drawMutation(rt, fs[i].val, "data")
				fs[i].val = mu.out
				return mutation{"data-" + mu.op, "Data: " + mu.desc, encodeFields(fs)}
			}
		}
	case 6: // another Type value
		v := rapid.SampledFrom([]uint64{0, 1, 2, 3, 4, 127, 128, 1 << 32, 1<<63 + 1}).Draw(rt, "type")
		for i := range fs {
			if fs[i].num == 1 {
				old, _ := protowire.ConsumeVarint(fs[i].val)
				if old == v {
					v = (v + 1) % 4
				}
				fs[i].val = protowire.AppendVarint(nil, v)
				return mutation{"type-change", fmt.Sprintf("Type %d -> %d", old, v), encodeFields(fs)}
			}
		}
	case 7: // duplicate a field, possibly with an edited copy first / last
		i := rapid.IntRange(0, len(fs)-1).Draw(rt, "dupi")
		dup := pbField{fs[i].num, fs[i].typ, append([]byte(nil), fs[i].val...)}
		edited := rapid.Bool().Draw(rt, "dup-edited")
		if edited && len(dup.val) > 0 {
			dup.val[len(dup.val)-1] ^= 0x01
		}
		if rapid.Bool().Draw(rt, "dup-front") {
			fs = append([]pbField{dup}, fs...)
		} else {
			fs = append(fs, dup)
		}
		return mutation{"dup-field", fmt.Sprintf("duplicate field %d edited=%v", dup.num, edited), encodeFields(fs)}
	case 8: // drop or reorder
		if rapid.Bool().Draw(rt, "drop") {
			i := rapid.IntRange(0, len(fs)-1).Draw(rt, "dropi")
			d := fs[i].num
			fs = append(fs[:i:i], fs[i+1:]...)
			return mutation{"drop-field", fmt.Sprintf("drop field %d", d), encodeFields(fs)}
		}
		for i, j := 0, len(fs)-1; i < j; i, j = i+1, j-1 {
			fs[i], fs[j] = fs[j], fs[i]
		}
		return mutation{"reorder", "reverse field order", encodeFields(fs)}
	case 9: // unknown field / tag change
		if rapid.Bool().Draw(rt, "unknown") {
			fs = append(fs, pbField{protowire.Number(rapid.IntRange(3, 40).Draw(rt, "unum")), protowire.BytesType, []byte("x")})
			return mutation{"unknown-field", "append unknown field", encodeFields(fs)}
		}
		i := rapid.IntRange(0, len(fs)-1).Draw(rt, "tagi")
		old := fs[i].num
		fs[i].num = protowire.Number(rapid.IntRange(1, 6).Draw(rt, "newnum"))
		if fs[i].num == old {
			fs[i].num = old + 2
		}
		return mutation{"tag-change", fmt.Sprintf("field %d -> %d", old, fs[i].num), encodeFields(fs)}
	case 10: // type-specific alternative encodings of Data
		raw := fieldBytes(fs, 2)
		var alt []byte
		var what string
		switch {
		case k.typ == "secp256k1" && !private:
			pk, err := secp256k1.ParsePubKey(raw)
			if err != nil {
				rt.Fatalf("harness: %v", err)
			}
			alt = pk.SerializeUncompressed()
			what = "uncompressed"
			if rapid.Bool().Draw(rt, "hybrid") {
				alt[0] = 0x06 | (alt[64] & 1)
				what = "hybrid"
			}
		case k.typ == "ed25519" && private:
			alt = append(append([]byte(nil), raw...), raw[32:]...) // legacy 96-byte form
			what = "legacy 96-byte form"
			if rapid.Bool().Draw(rt, "bad-redundant") {
				alt[64+rapid.IntRange(0, 31).Draw(rt, "rp")] ^= 0x10
				what = "legacy 96-byte form with wrong redundant key"
			}
		case k.typ == "ed25519" && !private:
			alt = append([]byte(nil), raw...)
			alt[31] ^= 0x80 // sign bit of x
			what = "x sign bit"
		default:
			alt = append([]byte{0x00}, raw...)
			what = "leading zero"
		}
		for i := range fs {
			if fs[i].num == 2 {
				fs[i].val = alt
			}
		}
		return mutation{"alt-encoding", what, encodeFields(fs)}
	default: // Data of another key (same or other type) under this Type
		o := drawKey(rt, "foreign")
		var od []byte
		if private {
			om, _ := ic.MarshalPrivateKey(o.priv)
			od = fieldBytes(mustFields(om), 2)
		} else {
			od = fieldBytes(mustFields(o.pubM), 2)
		}
		for i := range fs {
			if fs[i].num == 2 {
				fs[i].val = od
			}
		}
		return mutation{"foreign-data", "Data of " + o.tag, encodeFields(fs)}
	}
	return drawMutation(rt, m, "raw")
}

func TestKeyMutation(t *testing.T) {
	name := t.Name()
	hx.Check(t, 4000, 120000, 0, func(rt *rapid.T) {
		k := drawKey(rt, "k")
		private := rapid.Bool().Draw(rt, "private")
		msg := []byte("c08 key mutation " + k.tag)
		side := "pub"
		var m, sig []byte
		var err error
		if private {
			side = "priv"
			if m, err = ic.MarshalPrivateKey(k.priv); err != nil {
				rt.Fatalf("MarshalPrivateKey: %v", err)
			}
		} else {
			m = k.pubM
			if sig, err = k.priv.Sign(msg); err != nil {
				rt.Fatalf("Sign: %v", err)
			}
		}
		n := rapid.IntRange(1, 8).Draw(rt, "nmut")
		for i := 0; i < n; i++ {
			mu := drawKeyCandidate(rt, k, m, private)
			var acc, same bool
			var fail string
			if private {
				acc, same, fail = acceptedPriv(k, m, mu.out, msg)
			} else {
				acc, same, fail = acceptedPub(k, mu.out, msg, sig)
			}
			if fail != "" {
				rt.Fatalf("%s %s key, candidate [%s: %s] %s: %s", k.tag, side, mu.op, mu.desc, short(mu.out), fail)
			}
			verdict := "refused"
			if acc && same {
				verdict = "accepted-same-key"
			} else if acc {
				verdict = "accepted-other-key"
			}
			stats.Case(name, fp(k.tag, side, mu.out), !bytes.Equal(mu.out, m), k.typ+"/"+side, classLabel(k.cls), "op:"+mu.op, verdict)
			if stats.WantSample(name) {
				stats.Sample(name, map[string]any{"key": k.tag, "side": side, "op": mu.op, "desc": mu.desc, "verdict": verdict})
			}
		}
	})
}

// TestKeyEveryPosition flips every bit (quick: RSA private keys every third byte) and
// tries every truncation length of one marshalled public and private key per type.
func TestKeyEveryPosition(t *testing.T) {
	name := t.Name()
	idx := 0
	for ti, typ := range sweepTypes(hx.Pick(1, 3)) {
		k := freshKeyClass(sweepClass(typ, ti/len(keyTypes)), uint64(4242+ti))
		msg := []byte("c08 sweep " + k.tag)
		sig, err := k.priv.Sign(msg)
		if err != nil {
			t.Fatal(err)
		}
		privM, err := ic.MarshalPrivateKey(k.priv)
		if err != nil {
			t.Fatal(err)
		}
		for _, private := range []bool{false, true} {
			m, side := k.pubM, "pub"
			if private {
				m, side = privM, "priv"
			}
			stride := 1
			if typ == "rsa" && private && !hx.Thorough() {
				stride = 3
			}
			judge := func(op string, cand []byte, pos int) {
				var acc, same bool
				var fail string
				if private {
					acc, same, fail = acceptedPriv(k, m, cand, msg)
				} else {
					acc, same, fail = acceptedPub(k, cand, msg, sig)
				}
				if fail != "" {
					t.Fatalf("%s %s key, %s at %d of %x: %s", k.tag, side, op, pos, m, fail)
				}
				verdict := "refused"
				if acc && same {
					verdict = "accepted-same-key"
				} else if acc {
					verdict = "accepted-other-key"
				}
				stats.CaseEnumerated(name, true, typ+"/"+side, "op:"+op, verdict)
			}
			for pos := 0; pos < len(m); pos += stride {
				for bit := 0; bit < 8; bit++ {
					idx++
					if !hx.Mine(idx) {
						continue
					}
					c := append([]byte(nil), m...)
					c[pos] ^= 1 << bit
					judge("flipbit", c, pos)
				}
			}
			for l := 0; l < len(m); l += stride {
				idx++
				if !hx.Mine(idx) {
					continue
				}
				judge("truncate", append([]byte(nil), m[:l]...), l)
			}
		}
	}
}

// sweepClass: the class of the round-th sample key of a type in the every-position
// sweeps: the default class first (the only round of the quick tier), then other
// curves / the RSA size one step above the minimum.
func sweepClass(typ string, round int) string {
	switch typ {
	case "ecdsa":
		return []string{"ecdsa/P-256", "ecdsa/P-384", "ecdsa/P-521", "ecdsa/P-224"}[round%4]
	case "rsa":
		return []string{"rsa/2048", "rsa/2049"}[round%2]
	}
	return typ
}

// sweepTypes lists the key types n times (n sample keys per type in the sweeps).
func sweepTypes(n int) []string {
	var out []string
	for i := 0; i < n; i++ {
		out = append(out, keyTypes...)
	}
	return out
}
