package c08

import (
	"bytes"
	"fmt"
	"strings"
	"testing"
	"time"

	ic "github.com/libp2p/go-libp2p/core/crypto"
	"github.com/libp2p/go-libp2p/core/peer"
	"github.com/libp2p/go-libp2p/core/record"
	circuitproto "github.com/libp2p/go-libp2p/p2p/protocol/circuitv2/proto"
	ma "github.com/multiformats/go-multiaddr"
	"pgregory.net/rapid"

	"verif/internal/hx"
	"verif/internal/stats"
)

// ---------------------------------------------------------------------------
// Envelopes used as they come from Seal, while the sealer goes on using its record.
//
// The statement binds an envelope to "the payload ... it was sealed with". An envelope
// is also an in-memory object: the one Seal returns is handed to address books, compared
// and asked for its Record() without ever being serialized. What it reports there must
// be the content its signature covers - the record AS IT WAS WHEN SEALED - whatever the
// sealer does afterwards with the record value it passed to Seal (a host keeps one
// PeerRecord, bumps Seq / Addrs and seals again). The generated dimension: after every
// Seal the live record object is modified (any field) and / or sealed again, possibly
// with another key; Record() is read before and / or after the modifications.
//
// Oracle, per envelope, from a snapshot of the field values the harness took at Seal:
// RawPayload never changes; Record(), TypedRecord(fresh) and an independent decode of
// RawPayload all give the snapshot; the marshalled envelope is accepted under the
// seal-time domain with the snapshot content; an address book fed the envelope object
// accepts it iff the SNAPSHOT peer ID is the ID of the signing key and then serves the
// snapshot addresses for that peer and nothing for the ID the live object names now.

// render gives the canonical text of a record's content (any type used here).
func render(r any) string {
	switch v := r.(type) {
	case *peer.PeerRecord:
		var a []string
		for _, m := range v.Addrs {
			a = append(a, fmt.Sprintf("%x", m.Bytes()))
		}
		return fmt.Sprintf("peerrec id=%x seq=%d addrs=[%s]", []byte(v.PeerID), v.Seq, strings.Join(a, " "))
	case *circuitproto.ReservationVoucher:
		return fmt.Sprintf("voucher relay=%x peer=%x exp=%d", []byte(v.Relay), []byte(v.Peer), v.Expiration.Unix())
	case *vrec:
		return fmt.Sprintf("vrec tag=%x body=%x", v.tag, v.body)
	case *regRecA:
		return fmt.Sprintf("regA payload=%x", v.payload)
	}
	return fmt.Sprintf("unexpected record type %T", r)
}

func freshOf(r record.Record) record.Record {
	switch r.(type) {
	case *peer.PeerRecord:
		return &peer.PeerRecord{}
	case *circuitproto.ReservationVoucher:
		return &circuitproto.ReservationVoucher{}
	case *vrec:
		return &vrec{}
	}
	return &regRecA{}
}

type sealedLive struct {
	env       *record.Envelope
	key       *kp
	domain    string // Domain() of the record when sealed
	snap      string // render of the record when sealed
	snapID    peer.ID
	snapAddrs []ma.Multiaddr
	payload   []byte // copy of RawPayload right after Seal
	readEarly bool
}

func shortRender(s string) string {
	if len(s) > 400 {
		return s[:400] + "..."
	}
	return s
}

// checkSealedLive applies the oracle to one envelope; live is the sealer's record value now.
func checkSealedLive(s *sealedLive, live record.Record, withBooks bool, dsCache uint) string {
	env := s.env
	if !bytes.Equal(env.RawPayload, s.payload) {
		return fmt.Sprintf("RawPayload changed after Seal: %s -> %s", short(s.payload), short(env.RawPayload))
	}
	indep := freshOf(live)
	if err := indep.UnmarshalRecord(s.payload); err != nil {
		return fmt.Sprintf("the sealed payload does not decode: %v", err)
	}
	if g := render(indep); g != s.snap {
		return fmt.Sprintf("the signed payload decodes to\n    %s\n  but the record sealed was\n    %s", shortRender(g), shortRender(s.snap))
	}
	r, err := env.Record()
	if err != nil {
		return fmt.Sprintf("Record() of the envelope Seal returned fails: %v", err)
	}
	if g := render(r); g != s.snap {
		return fmt.Sprintf("Record() of the envelope Seal returned reports\n    %s\n  but its signature covers\n    %s", shortRender(g), shortRender(s.snap))
	}
	tr := freshOf(live)
	if err := env.TypedRecord(tr); err != nil {
		return fmt.Sprintf("TypedRecord fails: %v", err)
	}
	if g := render(tr); g != s.snap {
		return fmt.Sprintf("TypedRecord reports\n    %s\n  but the signature covers\n    %s", shortRender(g), shortRender(s.snap))
	}
	raw, err := env.Marshal()
	if err != nil {
		return fmt.Sprintf("Marshal: %v", err)
	}
	cenv, crec, err := record.ConsumeEnvelope(raw, s.domain)
	if err != nil {
		return fmt.Sprintf("the marshalled envelope is refused under the domain it was sealed with (%q): %v", s.domain, err)
	}
	if g := render(crec); g != s.snap {
		return fmt.Sprintf("the marshalled envelope is consumed as\n    %s\n  sealed was\n    %s", shortRender(g), shortRender(s.snap))
	}
	if km, err := ic.MarshalPublicKey(cenv.PublicKey); err != nil || !bytes.Equal(km, s.key.pubM) {
		return "the marshalled envelope carries another key than the one that sealed it"
	}
	if _, isPR := live.(*peer.PeerRecord); !isPR || !withBooks {
		return ""
	}
	// the envelope object itself goes to the address books (what a host does with its own record)
	signerID := refID(s.key.pubM)
	want := s.snapID == signerID
	nowID := live.(*peer.PeerRecord).PeerID
	books, closeBooks := newBooks(dsCache)
	defer closeBooks()
	for _, b := range books {
		ok, err := b.ConsumePeerRecord(env, time.Hour)
		if ok && err != nil {
			return fmt.Sprintf("%s: ConsumePeerRecord returned (true, %v)", b.name, err)
		}
		switch {
		case ok && !want:
			return fmt.Sprintf("%s accepted an envelope whose signed payload names peer %s, signed by the key of %s (the sealer's record value names %s now)", b.name, s.snapID, signerID, nowID)
		case !ok && want:
			return fmt.Sprintf("%s refused an envelope whose signed payload names its signer %s (the sealer's record value names %s now): %v", b.name, signerID, nowID, err)
		}
		if ok {
			if got := b.Addrs(signerID); !sameAddrSet(dedupAddrs(got), dedupAddrs(s.snapAddrs)) {
				return fmt.Sprintf("%s serves %v for %s, the signed record lists %v", b.name, got, signerID, s.snapAddrs)
			}
			if got := b.GetPeerRecord(signerID); got != nil && !bytes.Equal(got.RawPayload, s.payload) {
				return fmt.Sprintf("%s: stored record's payload %s is not the sealed one %s", b.name, short(got.RawPayload), short(s.payload))
			}
		} else if a := b.Addrs(signerID); len(a) != 0 {
			return fmt.Sprintf("%s: refused envelope left addresses %v for the signer", b.name, a)
		}
		for _, id := range []peer.ID{nowID, s.snapID} {
			if id == signerID && ok {
				continue
			}
			if a := b.Addrs(id); len(a) != 0 {
				return fmt.Sprintf("%s: addresses %v appeared for %s, which is not the peer the accepted signed payload names", b.name, a, id)
			}
			if b.GetPeerRecord(id) != nil {
				return fmt.Sprintf("%s serves a signed record for %s, which is not the peer the accepted signed payload names", b.name, id)
			}
		}
	}
	return ""
}

func dedupAddrs(in []ma.Multiaddr) []ma.Multiaddr {
	seen := map[string]bool{}
	var out []ma.Multiaddr
	for _, a := range in {
		if !seen[string(a.Bytes())] {
			seen[string(a.Bytes())] = true
			out = append(out, a)
		}
	}
	return out
}

// mutateLive modifies the sealer's record value in place (the object, and for address
// lists also the backing array, stay the same) and names what it did.
func mutateLive(rt *rapid.T, live record.Record, cur, next *kp, label string) string {
	switch v := live.(type) {
	case *peer.PeerRecord:
		switch rapid.IntRange(0, 7).Draw(rt, label+"-field") {
		case 0:
			v.Seq++
			return "seq+1"
		case 1:
			v.Seq = rapid.Uint64().Draw(rt, label+"-seq")
			return "seq-set"
		case 2:
			v.Addrs = drawAddrs(rt, label+"-addrs", 0)
			return "addrs-replace"
		case 3:
			v.Addrs = append(v.Addrs, drawAddrs(rt, label+"-addrs", 1)...)
			return "addrs-append"
		case 4:
			if len(v.Addrs) > 0 {
				v.Addrs[rapid.IntRange(0, len(v.Addrs)-1).Draw(rt, label+"-i")] = drawAddrs(rt, label+"-addrs", 1)[0]
				return "addrs-overwrite-element"
			}
			v.Addrs = drawAddrs(rt, label+"-addrs", 1)
			return "addrs-replace"
		case 5:
			if len(v.Addrs) > 0 {
				v.Addrs = v.Addrs[:rapid.IntRange(0, len(v.Addrs)-1).Draw(rt, label+"-k")]
				return "addrs-shrink"
			}
			v.Seq++
			return "seq+1"
		case 6: // the value now names the key that sealed / will seal next
			if rapid.Bool().Draw(rt, label+"-next") {
				v.PeerID = next.id
				return "peerid:=next-signer"
			}
			v.PeerID = cur.id
			return "peerid:=signer"
		default:
			v.PeerID = drawKey(rt, label+"-id").id
			return "peerid:=other"
		}
	case *circuitproto.ReservationVoucher:
		switch rapid.IntRange(0, 2).Draw(rt, label+"-field") {
		case 0:
			v.Expiration = v.Expiration.Add(time.Duration(rapid.IntRange(1, 100000).Draw(rt, label+"-d")) * time.Second)
			return "expiration"
		case 1:
			v.Peer = drawKey(rt, label+"-id").id
			return "voucher-peer"
		default:
			v.Relay = next.id
			return "voucher-relay"
		}
	case *vrec:
		if rapid.Bool().Draw(rt, label+"-field") {
			v.tag = otherTagNoSet(rt, v.tag, label+"-tag") // changes Domain()
			return "vrec-tag"
		}
		v.body = append(drawBytes(rt, label+"-body", true), 1)
		return "vrec-body"
	case *regRecA:
		v.payload = append(drawBytes(rt, label+"-payload", true), 1) // a new slice: MarshalRecord hands out the slice itself
		return "payload"
	}
	return "none"
}

func TestSealedRecordIdentity(t *testing.T) {
	name := t.Name()
	hx.Check(t, 2400, 60000, 0, func(rt *rapid.T) {
		peer.AdvancedEnableInlining = true
		mix := keyMix{other: 1}
		cur := drawKeyOpt(rt, "k0", mix)
		kind := rapid.SampledFrom([]string{"peerrec", "peerrec", "peerrec", "peerrec", "peerrec", "voucher", "vrec", "regA"}).Draw(rt, "kind")
		var live record.Record
		switch kind {
		case "peerrec":
			pr := &peer.PeerRecord{PeerID: cur.id, Addrs: drawAddrs(rt, "addrs", 0), Seq: rapid.Uint64().Draw(rt, "seq")}
			if rapid.IntRange(0, 3).Draw(rt, "names-other") == 0 {
				pr.PeerID = drawKey(rt, "named").id
			}
			live = pr
		case "voucher":
			live = drawVoucher(rt, cur, "v")
		case "vrec":
			live = &vrec{tag: drawTag(rt, "tag"), body: drawBytes(rt, "body", true)}
		default:
			live = &regRecA{hrec{domain: drawDomain(rt, "dom"), payload: drawBytes(rt, "payload", true)}}
		}
		nsteps := rapid.IntRange(1, 3).Draw(rt, "nseals")
		dsCache := uint(rapid.SampledFrom([]int{0, 8}).Draw(rt, "dscache"))
		var envs []*sealedLive
		var muts []string
		nmut, rekeyed := 0, false
		for step := 0; step < nsteps; step++ {
			// snapshot of the field values, taken by the harness before the library sees the record
			s := &sealedLive{key: cur, domain: live.Domain(), snap: render(live)}
			if pr, ok := live.(*peer.PeerRecord); ok {
				s.snapID, s.snapAddrs = pr.PeerID, append([]ma.Multiaddr(nil), pr.Addrs...)
			}
			env, err := record.Seal(live, cur.priv)
			if err != nil {
				rt.Fatalf("Seal #%d of %s with %s: %v", step, s.snap, cur.tag, err)
			}
			s.env, s.payload = env, append([]byte(nil), env.RawPayload...)
			if s.readEarly = rapid.Bool().Draw(rt, fmt.Sprintf("read-early%d", step)); s.readEarly {
				if r, err := env.Record(); err != nil || render(r) != s.snap {
					rt.Fatalf("Record() right after Seal #%d: %v, %v; sealed %s", step, r, err, s.snap)
				}
			}
			envs = append(envs, s)
			// the key of the next Seal
			next := cur
			if step+1 < nsteps && rapid.IntRange(0, 3).Draw(rt, fmt.Sprintf("rekey%d", step)) == 0 {
				next = drawKeyOpt(rt, fmt.Sprintf("k%d", step+1), mix)
				rekeyed = rekeyed || !bytes.Equal(next.pubM, cur.pubM)
			}
			for i, n := 0, rapid.IntRange(0, 3).Draw(rt, fmt.Sprintf("nmut%d", step)); i < n; i++ {
				muts = append(muts, mutateLive(rt, live, cur, next, fmt.Sprintf("m%d.%d", step, i)))
				nmut++
			}
			cur = next
		}
		for i, s := range envs {
			if fail := checkSealedLive(s, live, true, dsCache); fail != "" {
				rt.Fatalf("%s record sealed %d time(s), record value modified after sealing: %v\n  envelope #%d (sealed by %s, Record() read before the modifications: %v):\n  %s",
					kind, nsteps, muts, i, s.key.tag, s.readEarly, fail)
			}
		}
		changed := render(live) != envs[0].snap
		labels := []string{"kind:" + kind, fmt.Sprintf("seals:%d", nsteps), "key:" + envs[0].key.typ}
		if changed {
			labels = append(labels, "record-value-differs-from-first-sealed")
		} else {
			labels = append(labels, "record-value-as-first-sealed")
		}
		if rekeyed {
			labels = append(labels, "resealed-with-another-key")
		}
		seen := map[string]bool{}
		for _, m := range muts {
			if !seen[m] {
				seen[m] = true
				labels = append(labels, "after-seal:"+m)
			}
		}
		for _, s := range envs {
			if s.readEarly {
				labels = append(labels, "record-read-before-modification")
				break
			}
		}
		if pr, ok := live.(*peer.PeerRecord); ok {
			for _, s := range envs {
				signer := refID(s.key.pubM)
				switch {
				case s.snapID != signer && pr.PeerID == signer:
					labels = append(labels, "signed-id-foreign/value-now-names-signer")
				case s.snapID == signer && pr.PeerID != signer:
					labels = append(labels, "signed-id-signer/value-now-names-other")
				}
			}
		}
		stats.Case(name, fp(kind, envs[0].key.tag, envs[0].snap, strings.Join(muts, ","), nsteps, render(live)), changed, labels...)
		if stats.WantSample(name) {
			stats.Sample(name, map[string]any{"kind": kind, "seals": nsteps, "after_seal": muts, "first_signer": envs[0].key.tag, "changed": changed})
		}
	})
}
