package c08

import (
	"bytes"
	"encoding/binary"
	"errors"
	"fmt"
	"sync"
	"testing"
	"time"

	"github.com/libp2p/go-libp2p/core/peer"
	"github.com/libp2p/go-libp2p/core/record"
	circuitproto "github.com/libp2p/go-libp2p/p2p/protocol/circuitv2/proto"
	ma "github.com/multiformats/go-multiaddr"
	"pgregory.net/rapid"

	"verif/internal/hx"
	"verif/internal/stats"
)

// ---------------------------------------------------------------------------
// ConsumeTypedEnvelope with caller-provided destination records.
//
// The statement: an envelope "is accepted only if the domain asked for, the payload
// type, the payload and the signing key are exactly those it was sealed with". For the
// typed entry point the domain asked for is the destination record's Domain() AT THE
// CALL, and what the receiver "accepts" is what ends up in its destination record. So
//
//	(a) a call that returns an error leaves the destination record as it was (nothing
//	    of a refused envelope is taken), and
//	(b) the domain that is verified is the one the destination named when it was handed
//	    over, whatever the (not yet authenticated) payload would make it say.
//
// (a) is applied by every receiver of judgeEnvelopeOpt (pre-filled destinations below),
// i.e. to every candidate of every envelope test and fuzz target; (b) needs a record
// type whose Domain() is a function of its decoded content: vrec.

var (
	destCodec   = []byte{0xf0, 0x7e}
	destPayload = []byte("c08: content the destination record held before the call")
	destOnce    sync.Once
	destIDs     [2]peer.ID
	destAddrs   = []ma.Multiaddr{ma.StringCast("/ip4/192.0.2.77/tcp/7"), ma.StringCast("/dns4/dest.example/udp/7/quic-v1")}
)

func destPeerIDs() [2]peer.ID {
	destOnce.Do(func() {
		destIDs = [2]peer.ID{freshKey("ed25519", 880001).id, freshKey("ed25519", 880002).id}
	})
	return destIDs
}

// destPeerRecord: a destination that already holds a record, and a copy to compare with.
func destPeerRecord() (dest, was *peer.PeerRecord) {
	id := destPeerIDs()[0]
	mk := func() *peer.PeerRecord {
		return &peer.PeerRecord{PeerID: id, Seq: 0xc08c08, Addrs: append([]ma.Multiaddr(nil), destAddrs...)}
	}
	return mk(), mk()
}

func destVoucher() (dest, was *circuitproto.ReservationVoucher) {
	ids := destPeerIDs()
	mk := func() *circuitproto.ReservationVoucher {
		return &circuitproto.ReservationVoucher{Relay: ids[0], Peer: ids[1], Expiration: time.Unix(0xc08c08, 0)}
	}
	return mk(), mk()
}

// authenticUnder: the (key, payload type, payload) of the envelope a typed receiver got
// back together with its error is a tuple the harness sealed under that domain (with
// poolOnly: or signed by a key the harness does not know, where it cannot tell).
func authenticUnder(set []*sealed, env *record.Envelope, domain string, poolOnly bool) bool {
	if env == nil || env.PublicKey == nil {
		return false
	}
	if poolOnly && !signerInSet(set, env) {
		return true
	}
	s, _ := matchSealed(set, env, domain)
	return s != nil
}

// vrec is a record whose signing domain is a function of its content: the payload
// starts with a (length-prefixed) format tag and the domain is vrecDomain(tag) - a
// versioned record format, "x-v1" / "x-v2". A receiver that wants version v1 hands over
// &vrec{tag: "v1"}.
type vrec struct {
	tag  []byte
	body []byte
}

const vrecPrefix = "c08-vrec/"

var codecV = []byte{0xf0, 0x02}

func vrecDomain(tag []byte) string { return vrecPrefix + string(tag) }

func vrecPayload(tag, body []byte) []byte {
	out := binary.AppendUvarint(nil, uint64(len(tag)))
	out = append(out, tag...)
	return append(out, body...)
}

// vrecDecode is the reference decoder of the payload format (used by the oracle; the
// record's own UnmarshalRecord is written separately below).
func vrecDecode(p []byte) (tag, body []byte, ok bool) {
	l, n := binary.Uvarint(p)
	if n <= 0 || l > uint64(len(p)-n) {
		return nil, nil, false
	}
	return p[n : n+int(l)], p[n+int(l):], true
}

func (r *vrec) Domain() string                 { return vrecDomain(r.tag) }
func (r *vrec) Codec() []byte                  { return codecV }
func (r *vrec) MarshalRecord() ([]byte, error) { return vrecPayload(r.tag, r.body), nil }
func (r *vrec) UnmarshalRecord(b []byte) error {
	if len(b) == 0 {
		return errors.New("vrec: empty payload")
	}
	if b[0] >= 0x80 {
		return errors.New("vrec: tag too long")
	}
	l := int(b[0])
	if l > len(b)-1 {
		return errors.New("vrec: short payload")
	}
	r.tag = append([]byte{}, b[1:1+l]...)
	r.body = append([]byte{}, b[1+l:]...)
	return nil
}

func init() { record.RegisterType(&vrec{}) }

var vrecTags = []string{"v1", "v2", "v10", "", "v1/", "V1", "v"}

func drawTag(rt *rapid.T, label string) []byte {
	if rapid.IntRange(0, 4).Draw(rt, label+"-free") == 0 {
		return maybeEmpty(rt, label, 6)
	}
	return []byte(rapid.SampledFrom(vrecTags).Draw(rt, label))
}

// otherTag: a tag different from t, mostly a near miss of it.
func otherTag(rt *rapid.T, t []byte, set []*sealed, label string) []byte {
	var o []byte
	switch rapid.IntRange(0, 5).Draw(rt, label+"-kind") {
	case 0:
		o = append(append([]byte{}, t...), '0')
	case 1:
		if len(t) > 0 {
			o = append([]byte{}, t[:len(t)-1]...)
		}
	case 2:
		if len(t) > 0 {
			o = append([]byte{}, t...)
			o[len(o)-1] ^= 1 << rapid.IntRange(0, 6).Draw(rt, label+"-bit")
		}
	case 3: // the tag another sealed envelope carries
		s := set[rapid.IntRange(0, len(set)-1).Draw(rt, label+"-of")]
		if tg, _, ok := vrecDecode(s.payload); ok && len(tg) < 0x80 {
			o = append([]byte{}, tg...)
		}
	default:
		o = drawTag(rt, label)
	}
	if bytes.Equal(o, t) {
		o = append(append([]byte{}, t...), 'x')
	}
	return o
}

// drawSealedTyped seals one record for TestTypedConsume: mostly vrecs; also foreign
// record types sealed under a vrec domain (whose payload names the same or ANOTHER tag,
// or is no vrec payload at all) and vrec payloads sealed under a foreign domain.
func drawSealedTyped(rt *rapid.T, prev *sealed, label string) *sealed {
	var k *kp
	if prev != nil && rapid.Bool().Draw(rt, label+"-samekey") {
		k = prev.key
	} else {
		k = drawKeyOpt(rt, label+"-key", keyMix{other: 1})
	}
	tag := drawTag(rt, label+"-tag")
	body := drawBytes(rt, label+"-body", true)
	if prev != nil && rapid.Bool().Draw(rt, label+"-samebody") {
		if _, b, ok := vrecDecode(prev.payload); ok {
			body = b
		}
	}
	var rec record.Record
	kind := rapid.SampledFrom([]string{"vrec", "vrec", "vrec", "vrec", "vrec", "hrec-in-vrec-domain", "hrec-in-vrec-domain", "vrec-payload-foreign-domain"}).Draw(rt, label+"-kind")
	switch kind {
	case "vrec":
		rec = &vrec{tag: tag, body: body}
	case "hrec-in-vrec-domain":
		h := &hrec{domain: vrecDomain(tag), codec: codecV}
		if rapid.Bool().Draw(rt, label+"-codec-foreign") {
			h.codec = drawCodec(rt, label+"-codec")
		}
		switch rapid.IntRange(0, 2).Draw(rt, label+"-claims") {
		case 0:
			h.payload = vrecPayload(tag, body)
		case 1: // signed under tag, says another tag
			h.payload = vrecPayload(otherTagNoSet(rt, tag, label+"-claimed"), body)
		default:
			h.payload = drawBytes(rt, label+"-payload", true)
		}
		rec = h
	default:
		rec = &hrec{domain: drawDomain(rt, label+"-dom"), codec: codecV, payload: vrecPayload(tag, body)}
	}
	s, err := sealRecord(rec, k, kind)
	if err != nil {
		rt.Fatalf("sealing %s record with %s: %v", kind, k.tag, err)
	}
	return s
}

func otherTagNoSet(rt *rapid.T, t []byte, label string) []byte {
	o := drawTag(rt, label)
	if bytes.Equal(o, t) {
		o = append(append([]byte{}, t...), 'x')
	}
	return o
}

// sealedTag: the tag a receiver has to ask for to get s, if there is one.
func sealedTag(s *sealed) ([]byte, bool) {
	if len(s.domain) >= len(vrecPrefix) && s.domain[:len(vrecPrefix)] == vrecPrefix {
		return []byte(s.domain[len(vrecPrefix):]), true
	}
	return nil, false
}

type typedCand struct {
	op    string
	desc  string
	data  []byte
	ask   []byte // tag of the destination record = the domain asked for
	plain *sealed
	round bool // untouched bytes asked under the tag they were sealed under (the plain round trip)
}

func drawTypedCandidate(rt *rapid.T, set []*sealed) typedCand {
	bi := rapid.IntRange(0, len(set)-1).Draw(rt, "tbase")
	base := set[bi]
	own, hasOwn := sealedTag(base)
	if !hasOwn {
		own = drawTag(rt, "ask-free")
	}
	claimed, _, claims := vrecDecode(base.payload)
	switch op := rapid.IntRange(0, 9).Draw(rt, "top"); op {
	case 0:
		if hasOwn {
			c := typedCand{op: "identity", desc: fmt.Sprintf("base %d untouched under its own tag", bi), data: base.raw, ask: own, round: true}
			if base.kind == "vrec" {
				c.plain = base
			}
			return c
		}
		fallthrough
	case 1, 2, 3: // (b) bytes untouched, the receiver wants another version
		ask := otherTag(rt, own, set, "ask")
		return typedCand{op: "other-tag", desc: fmt.Sprintf("base %d untouched, asked under tag %q", bi, ask), data: base.raw, ask: ask}
	case 4: // the payload claims the tag the receiver wants; signature kept
		ask := otherTag(rt, own, set, "ask")
		_, body, _ := vrecDecode(base.payload)
		return typedCand{op: "payload-retagged", desc: fmt.Sprintf("base %d: payload tag := %q = the tag asked for", bi, ask),
			data: buildEnvelope(base.key.pubM, base.ptype, vrecPayload(ask, body), base.sig), ask: ask}
	case 5: // asked under the tag the payload claims (differs from the signed domain for the foreign kinds)
		if claims && len(claimed) < 0x80 {
			c := typedCand{op: "ask-claimed-tag", desc: fmt.Sprintf("base %d untouched, asked under the tag %q its payload names", bi, claimed), data: base.raw, ask: append([]byte{}, claimed...), round: hasOwn && bytes.Equal(claimed, own)}
			if base.kind == "vrec" {
				c.plain = base
			}
			return c
		}
		fallthrough
	default: // every operator of TestEnvelopeMutation (bad signature, foreign key, payload type / payload edits, splices ...)
		c := drawCandidate(rt, set)
		ask := own
		// the candidate names the domain of ITS base (or a splice's / a foreign one)
		if len(c.domain) >= len(vrecPrefix) && c.domain[:len(vrecPrefix)] == vrecPrefix && len(c.domain) < len(vrecPrefix)+0x80 {
			ask = []byte(c.domain[len(vrecPrefix):])
		}
		if c.op == "identity" {
			c.op = "identity-any"
		}
		if rapid.IntRange(0, 3).Draw(rt, "ask-other") == 0 {
			ask = otherTag(rt, own, set, "ask")
		}
		return typedCand{op: "mut/" + c.op, desc: c.desc, data: c.data, ask: ask, round: c.op == "identity-any" && c.domain == vrecDomain(ask)}
	}
}

// judgeTyped presents cand to ConsumeTypedEnvelope with a vrec destination that names
// tag ask and already holds body was.
func judgeTyped(set []*sealed, c typedCand, was []byte) (accepted bool, fail string) {
	asked := vrecDomain(c.ask) // computed by the harness before the call
	dest := &vrec{tag: append([]byte{}, c.ask...), body: append([]byte{}, was...)}
	env, err := record.ConsumeTypedEnvelope(c.data, dest)
	if err != nil {
		if c.plain != nil {
			return false, fmt.Sprintf("the untouched envelope is refused under its own domain %q: %v", asked, err)
		}
		if !bytes.Equal(dest.tag, c.ask) || !bytes.Equal(dest.body, was) {
			return false, fmt.Sprintf("refused (%v), but the destination record was overwritten: tag %q body %s -> tag %q body %s (domain asked for %q, now %q)",
				err, c.ask, short(was), dest.tag, short(dest.body), asked, dest.Domain())
		}
		return false, ""
	}
	s, msg := matchSealed(set, env, asked)
	if s == nil {
		return true, fmt.Sprintf("destination named domain %q: %s", asked, msg)
	}
	tag, body, ok := vrecDecode(s.payload)
	if !ok {
		return true, fmt.Sprintf("accepted a payload %s that is no vrec payload without error", short(s.payload))
	}
	if !bytes.Equal(dest.tag, tag) || !bytes.Equal(dest.body, body) {
		return true, fmt.Sprintf("destination holds tag %q body %s, the sealed payload says tag %q body %s", dest.tag, short(dest.body), tag, short(body))
	}
	// the envelope reports the same record
	r, err := env.Record()
	if err != nil {
		return true, fmt.Sprintf("accepted, but Record() fails: %v", err)
	}
	if v, isV := r.(*vrec); !isV || !bytes.Equal(v.tag, tag) || !bytes.Equal(v.body, body) {
		return true, fmt.Sprintf("accepted, but Record() gives %T %+v, the sealed payload says tag %q body %s", r, r, tag, short(body))
	}
	return true, ""
}

func TestTypedConsume(t *testing.T) {
	name := t.Name()
	hx.Check(t, 2400, 60000, 0, func(rt *rapid.T) {
		peer.AdvancedEnableInlining = true
		n := rapid.IntRange(1, 3).Draw(rt, "nsealed")
		var set []*sealed
		for i := 0; i < n; i++ {
			var prev *sealed
			if i > 0 {
				prev = set[rapid.IntRange(0, i-1).Draw(rt, "rel-to")]
			}
			set = append(set, drawSealedTyped(rt, prev, fmt.Sprintf("s%d", i)))
		}
		ncand := rapid.IntRange(1, 8).Draw(rt, "ncand")
		for i := 0; i < ncand; i++ {
			c := drawTypedCandidate(rt, set)
			var was []byte
			wasKind := rapid.SampledFrom([]string{"empty", "sentinel", "sealed-body"}).Draw(rt, "dest-holds")
			switch wasKind {
			case "sentinel":
				was = destPayload
			case "sealed-body":
				_, was, _ = vrecDecode(set[rapid.IntRange(0, len(set)-1).Draw(rt, "dest-body-of")].payload)
			}
			accepted, fail := judgeTyped(set, c, was)
			if fail == "" {
				// the other receivers (registry, hrec destination of the same domain, real types) on the same input
				j := judgeEnvelope(set, c.data, vrecDomain(c.ask), c.plain, false)
				fail = j.fail
			}
			if fail != "" {
				rt.Fatalf("sealed set [%s], candidate [%s: %s], destination &vrec{tag:%q body:%s}:\n  %s\n  candidate bytes: %x", typedSetDesc(set), c.op, c.desc, c.ask, short(was), fail, c.data)
			}
			verdict := "refused(destination untouched)"
			if accepted {
				verdict = "accepted(content=sealed)"
			}
			labels := []string{"op:" + c.op, verdict, "dest-holds:" + wasKind}
			tag, _, claims := vrecDecode(fieldBytes(mustFieldsOrNil(c.data), envPayload))
			switch {
			case !claims:
				labels = append(labels, "payload:no-vrec")
			case bytes.Equal(tag, c.ask):
				labels = append(labels, "payload-names:tag-asked-for")
			default:
				labels = append(labels, "payload-names:other-tag")
			}
			for _, s := range set {
				labels = append(labels, "kind:"+s.kind, "key:"+s.key.typ)
			}
			stats.Case(name, fp(c.data, c.ask, was), !c.round, labels...)
			if stats.WantSample(name) {
				stats.Sample(name, map[string]any{"sealed": typedSetDesc(set), "op": c.op, "desc": c.desc, "asked_tag": string(c.ask), "dest_holds": wasKind, "accepted": accepted})
			}
		}
	})
}

func mustFieldsOrNil(b []byte) []pbField {
	fs, _ := parseFields(b)
	return fs
}

func typedSetDesc(set []*sealed) string {
	var b bytes.Buffer
	for i, s := range set {
		if i > 0 {
			b.WriteString(", ")
		}
		fmt.Fprintf(&b, "%s/%s domain=%q ptype=%x payload=%s", s.kind, s.key.typ, s.domain, s.ptype, short(s.payload))
	}
	return b.String()
}
