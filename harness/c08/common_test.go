// Package c08 checks property C08: keys, peer IDs and signed envelopes bind identity
// to content.
package c08

import (
	"bytes"
	"crypto/sha256"
	"encoding/base64"
	"encoding/binary"
	"encoding/hex"
	"fmt"
	"sync"
	"testing"

	ic "github.com/libp2p/go-libp2p/core/crypto"
	"github.com/libp2p/go-libp2p/core/peer"
	"github.com/libp2p/go-libp2p/core/record"
	"google.golang.org/protobuf/encoding/protowire"
	"pgregory.net/rapid"

	"verif/internal/hx"
	"verif/internal/keys"
	"verif/internal/stats"
)

func TestMain(m *testing.M) {
	stats.Describe("exploration",
		"Keys: all four key types, fresh keys derived from a drawn seed (Ed25519 through GenerateEd25519Key, ECDSA/Secp256k1 from a seeded scalar, "+
			"plus per-process keys from the Generate* functions; RSA-2048 from a per-process pool and one embedded fixed key), drawn messages. "+
			"Key CLASSES (size / curve; keyclass_test.go): ECDSA keys on every curve the API takes - P-224, P-256, P-384, P-521 - from a seeded scalar through ECDSAKeyPairFromKey or per process from "+
			"GenerateECDSAKeyPairWithCurve; RSA keys at and next to the documented bounds: 2048 (= MinRsaKeyBits, GenerateRSAKeyPair), 2049 (GenerateRSAKeyPair per process), 8191 and 8192 (= the documented maximum; fixtures "+
			"assembled from two openssl-made primes with math/big and handed over through KeyPairFromStdKey). Every generator of a key (drawKey / drawSigner / envelope signers) draws the class: curves with weights "+
			"P-256 26/32 and 2/32 each other curve (envelope signers 29/32 and 1/32), RSA 2048:2049 = 3:1, and - only where a key signs a few times per case (TestKeyRoundTrip, TestSignVerify, TestPeerstoreConsume signers, TestEnvelopeMutation signers) - "+
			"8191/8192-bit keys in 2 (envelopes 1) of 256 RSA draws (0.1 s per signature); label class:<class> counts them per test. TestKeySizesAndCurves draws (class, way the key reaches the library) with equal weights from "+
			"{4 curves} x {generate, std = ECDSAKeyPairFromKey, wire = Unmarshal{Private,Public}Key of crypto/x509 DER framed with protowire} + RSA {2048, 2049} x {generate, std = KeyPairFromStdKey, wire} + RSA 8192 x {std, wire} + RSA 8191 x {wire} "+
			"+ RSA {2047, 8193} x {wire} (one step OUTSIDE the bounds) and applies the whole key contract: Sign/Verify (own message, mutated message, another key of the type), public and private marshal/unmarshal round trip through every exported path, "+
			"peer ID = reference definition and all its forms, one envelope (hrec / peer record / voucher) sealed by the key accepted by every receiver incl. both address books under its own domain and judged by the acceptance rule under a foreign domain. "+
			"Outside the bounds the library may refuse; required is only: a size GenerateRSAKeyPair agrees to make (probed with a failing reader) is a size Unmarshal*Key reads, and a key that IS accepted obeys the contract. "+
			"In TestKeySizesAndCurves NON-TRIVIAL = a class other than the type's default (P-256, RSA-2048) or a refused key; DISTINCT = distinct (class, way, seed, message). "+
			"Serialized forms (marshalled public/private keys, peer IDs in binary/base58/CID text, envelopes, PeerRecords, relay vouchers) are "+
			"mutated with: bit/byte flips at drawn positions (and at EVERY position of one sample per key type x record kind, deterministic sweep), "+
			"truncation, extension, insertion, deletion, protobuf field edits through protowire (edit inside a field keeping the framing valid, "+
			"swap two fields' contents, change a tag, duplicate/drop/reorder a field, splice the same field of another sealed envelope, edit the nested key), "+
			"PRIVATE keys additionally (TestPrivKeyEquality): a family of serialized private keys derived from one fresh key of every type - bit/byte edits at a drawn position of a drawn NAMED part "+
			"(Ed25519 seed half / public half, Secp256k1 scalar, every SEC1 field of an ECDSA key, every PKCS#1 integer of an RSA key, DER framing), the same part taken from another key of the type, "+
			"cuts at drawn lengths and part boundaries, re-encodings (Ed25519 legacy 96-byte form with and without edits, Secp256k1 scalar d and d+n, SEC1 without/with foreign public key, padded scalar, "+
			"RSA with swapped primes / without CRT values / d+lcm(p-1,q-1) / wrong CRT value, protobuf re-encodings), the other key itself - and every PAIR of accepted keys (original included) is judged by the "+
			"equality rule: Equals (both directions) and KeyEqual (both directions) agree; Equal => same type, same derived public key, same peer ID, a signature made by either verifies under the public key of "+
			"the other whenever one of them is a working signer, and identical Raw bytes (RSA exempt from the last clause only: several valid PKCS#1 encodings of one key; counted as equal-other-encoding); "+
			"identical Raw => Equal; not Equal and different public keys => no cross-verification. The same rule judges (original, candidate) in TestKeyMutation, TestKeyEveryPosition and FuzzKeys. "+
			"colliding (domain, payload type, payload) triples constructed for six weaker-than-specified pre-image encodings, foreign key and foreign domain pairings. "+
			"CONFIGURATION (peer IDs): the process-wide option peer.AdvancedEnableInlining is a drawn dimension of TestPeerID and TestPeerIDMutation (documented default on in 2 of 3 cases, off in 1 of 3; set at the top of the case, put back by defer; "+
			"no test of the package runs in parallel), both values are enumerated by TestPeerIDThreshold, and FuzzPeerID takes it from bit 7 of its form byte. Under either setting the ID derived locally must equal the reference definition FOR THAT SETTING "+
			"(identity multihash iff inlining is on and the marshalled key has <= 42 bytes, else sha2-256) and match its own key; and BOTH IDs of the key - the one a peer with inlining on derives and the one a peer with inlining off derives, each received "+
			"through a drawn serialized form (binary / base58 / CID text in four bases / JSON / AddrInfo JSON) - must round-trip in every form and give the key back exactly when they embed it (identity multihash of the marshalled key), whatever the local setting; "+
			"TestPeerIDMutation mutates the serialized forms of either ID under either setting. Labels inlining:on / inlining:off, inlining:off+remote-id-embeds-key (TestPeerID) and inlining:off/id-embeds-key (TestPeerIDMutation) count the class. "+
			"LIVE RECORD OBJECTS (TestSealedRecordIdentity, reseal_test.go): envelopes used as record.Seal returns them (never serialized first) while the sealer keeps using the record value it passed in: a peer record (5 of 8), voucher, "+
			"a registered harness record or a vrec is sealed 1-3 times, with the same or (1 in 4) another key, and after every Seal 0-3 drawn modifications are made to the SAME object (Seq +1 / set, Addrs replaced / appended / one element overwritten in place / shrunk, "+
			"PeerID := the signer / the next signer / another key, voucher fields, vrec tag (changes its Domain()) / body); Record() is read before the modifications for half of the envelopes. Every envelope must keep reporting the content its signature covers "+
			"(a snapshot of the field values the harness took at Seal): RawPayload unchanged, Record() = TypedRecord(fresh) = independent decode of RawPayload = snapshot, the marshalled envelope accepted under the seal-time domain with the snapshot content, and both address books "+
			"fed the envelope OBJECT accept it iff the snapshot (signed) peer ID is the ID of the signing key, then serve the snapshot addresses for that peer and nothing for the ID the record value names now. NON-TRIVIAL = the record value differs from the first sealed one at the end. "+
			"TYPED CONSUME (typed_test.go): every typed receiver of every envelope test / fuzz target hands ConsumeTypedEnvelope a destination record that already holds content (hrec, PeerRecord, ReservationVoucher) and a refused envelope must leave it untouched "+
			"(voucher: unless the refused payload is authentic, its UnmarshalRecord fills field by field). TestTypedConsume adds vrec, a registered record type whose Domain() is a function of its decoded content (payload = length-prefixed format tag + body, domain = c08-vrec/<tag>): "+
			"1-3 envelopes (vrecs; foreign record types sealed under a vrec domain whose payload names the same / another tag / is no vrec payload; vrec payloads under a foreign domain; related by key and body), 1-8 candidates each: untouched under its own tag, untouched but the destination names "+
			"ANOTHER tag (near misses, the tag of another sealed envelope, the tag the payload names), payload re-tagged to the tag asked for with the signature kept, and every operator of TestEnvelopeMutation; destination pre-filled with nothing / a sentinel / the body of a sealed record. "+
			"The domain asked for is the destination's Domain() computed by the harness BEFORE the call: accepted => (key, payload type, payload, that domain) is a sealed tuple and the destination and Record() hold the sealed payload's decode; refused => destination unchanged. NON-TRIVIAL there = anything but untouched bytes asked under the tag they were sealed under. "+
			"Oracle: round trips; independent peer ID definition; metamorphic acceptance rule (accepted => decoded (signer key, payload type, payload) and the requested "+
			"domain are exactly a sealed tuple; for peerstores additionally record.PeerID == ID of the signing key). "+
			"One evaluation = one candidate input judged by every applicable receiver (ConsumeTypedEnvelope with a record of the requested domain, ConsumeEnvelope, typed PeerRecord / ReservationVoucher receivers, both address books). NON-TRIVIAL = the candidate is mutated / foreign / colliding / mismatched (not the plain round trip). "+
			"DISTINCT = distinct (candidate bytes, requested domain, receiver) resp. distinct (key, message, mutation) scenario.",
		"standard hardness assumptions: nobody signs for a pool key without the harness (a candidate accepted with a sealed tuple's exact content is legitimate)",
		"signature malleability that leaves content, signer and domain unchanged is not a violation (statement is about content, domain and signer)",
		"ECDSA signatures are randomised by Go: candidate bytes of ECDSA cases are not reproducible, verdicts do not depend on them",
		"'supported' RSA sizes are the documented bounds MinRsaKeyBits (2048) <= bits <= 8192, both included; keys outside are not required to be accepted, and out-of-bounds keys wrapped by KeyPairFromStdKey (which checks no size) are not judged",
		"the library's own generation of 8191/8192-bit RSA keys is not run (minutes per key): keys of these sizes are fixtures, GenerateRSAKeyPair's size check is probed with a reader that fails; RSA sizes strictly between 2049 and 8191 are not sampled",
		"peer IDs obtained by mutation that use a multihash other than identity / sha2-256 are only required to round-trip through binary and CID text (Decode documents base58 for identity/sha2-256 only)",
		"MatchesPublicKey is judged against the ID this process derives under its CURRENT AdvancedEnableInlining setting (the library re-derives the ID; the statement does not say that an ID derived under the other setting 'matches'); "+
			"only validity, round trips and key recovery are demanded of IDs derived under the other setting. Envelope / peerstore / key tests run under the default setting only",
	)
	hx.Main(m)
}

// ---------------------------------------------------------------------------
// Keys

type kp struct {
	typ  string
	cls  string // key class (keyclass_test.go): typ, "ecdsa/<curve>" or "rsa/<bits>"
	tag  string // identifies the key in fingerprints
	priv ic.PrivKey
	pub  ic.PubKey
	pubM []byte // MarshalPublicKey(pub)
	id   peer.ID
}

var keyTypes = []string{"ed25519", "secp256k1", "ecdsa", "rsa"}

func expand(label string, n int) []byte {
	out := make([]byte, n)
	if _, err := keys.Reader(label).Read(out); err != nil {
		panic(err)
	}
	return out
}

func mustKP(cls, tag string, priv ic.PrivKey, err error) *kp {
	typ := classType(cls)
	if err != nil {
		panic(fmt.Sprintf("key generation %s/%s: %v", cls, tag, err))
	}
	pub := priv.GetPublic()
	m, err := ic.MarshalPublicKey(pub)
	if err != nil {
		panic(err)
	}
	// kp.id is always the ID under the default setting, whatever setting the case that
	// happens to create (and, for pool keys, cache) the key runs under
	restore := setInlining(true)
	id, err := peer.IDFromPublicKey(pub)
	restore()
	if err != nil {
		panic(err)
	}
	return &kp{typ: typ, cls: cls, tag: cls + "/" + tag, priv: priv, pub: pub, pubM: m, id: id}
}

// fixedRSA is a 2048-bit RSA private key (PKCS#1 DER, base64) generated once for this
// harness; it gives the fuzz workers (separate processes) a common RSA identity.
const fixedRSA = "" +
	"MIIEowIBAAKCAQEArE5APD1BeeKqExzxAuJjzxb6g+6z6L9HRLE63dM0rrMpt6Xn8wi1H/vxA5E+R7kLFvCjdotb7e9ZgxBO6uHJ" +
	"AnITjnxAHeoBTcxo0w7Zs50SAkP2e57Ve94HLt/Wr1VYdoiy4rcrRsAbYfkkHSO8zx9yRw+kTaDxPXPfakV0RfotEvsj8nHpqTqo" +
	"QUiminoC2w127Oe2SY2cd6yXPI5JpKXbpTbiMBjGqLLqe805yXMso8EsiCJRMcI60uZqQf0CkCI85I/1OnRG7FDHNjAhrgZ+ox4D" +
	"nOoMjf6ULIu80QgVg5cNUkDyt17NXnPE7UT0vU8xGfdA+9Y8LUqpLJJfFwIDAQABAoIBADq8zi763sgzGbE8S3ilPksJVUsGY3Qz" +
	"SJNFK4EVD7+COfVt7B0wWbZWh3mk2KtQjFQ8oiy2IxeAYW5Jb+2oHILl6n7HIoBQFjO0PAO+6z3MjKgTDQJlSfdY3+/9xEyu9mIq" +
	"BXk94dXThUIn0UTRuvqMiMNqtKL1+2bsijvLA3Ea4Swdj6spI3v4oxdyiA/74xtqkH5rnjh10awuThz/bTCBFclpKdxjELikMbtu" +
	"h0z1c4y569yYMNH8K+S8044smVkPdOqsDZCZ2Z2nMhTvfRy95hdYkhsGKpA9zyN0i+ZOI0fgImAslp+bie5RQ9MkHNnsyequ/yZ8" +
	"99i4WJgoyiECgYEA34Xpkf354PUspmqsIYQyzr2ovwULpqkGE3xpY140BKG13N0ZGd3TnRMay/xYsTAylY6T11vOltX5+u5BigSy" +
	"fR8pIe0NjO/iNCWcMLiV/vFz6BLeiRVmtzGM4ZpLioI2XassT4rMER2bIZDYJgj/pRAoCAY7MW0MZs6EirLSSYcCgYEAxVdF2PHz" +
	"PhmRAL+vz3F2waB/LXvwlnkH2ULy35YB3+Z1lun0YQDA4aByVdkSNYdPjKoojDQhP1XYwGdy7IMBHzi/SORct4J2LiU4KQj9xN0m" +
	"U+e0fYB2eFEtCEecsAAqeI78CRIw4ygjMlGw0VcE+G3TFuL6hjsDGbmpmycJYfECgYB/S5kwTm6fIaGTCM8Mq2fv+2z9lFcFS98s" +
	"+75dG8oOFTYoGTZxV7ZrDvVE1GqCRkuYhsFFdYBawHOD52oluvUXcsaPDpyX9glh30VrLcQmk8WJli1r7mc3zx1HYgLBV9S0VYZ/" +
	"qjD7UlwFqqKeTqOgkmnp3/qX9F2KsvQitSIzQwKBgHw7AayePBvG6oLHKX11F2azi/xtPrrrfGZogA8DFzEFmtcjdwWt/L7NS80B" +
	"dzYddZW+9QG2O4vsliQhu7ZqjkVCayEPKdMYnR9VrPIgR+krs1o0zmoHeg0qRSgmNNyTbikxEjb/rakC9o1R4fcXSfi+4plQ0Je6" +
	"BKyoNb6Hp59xAoGBAMNVFZ+08fdl6YC9ZgQw4DwQjEMFqsFo57NjaVnN3/pfxXOwHk+39lx6wC34NnAXlujlTvgn6aTobDx/xeGC" +
	"P2psVX3XWNHo2in/eFkKQJEKkX32TWTtgDPrAq6v0M2Zvypq0D5sfTB+Coy8tu/DzC4RLy+DWeDLunB3TWz0QMv7"

var (
	rsaOnce   sync.Once
	rsaFixed  *kp
	poolMu    sync.Mutex
	poolCache = map[string]*kp{}
)

func fixedRSAKey() *kp {
	rsaOnce.Do(func() {
		der, err := base64.StdEncoding.DecodeString(fixedRSA)
		if err != nil {
			panic(err)
		}
		priv, err := ic.UnmarshalRsaPrivateKey(der)
		rsaFixed = mustKP("rsa/2048", "fixed", priv, err)
	})
	return rsaFixed
}

// refID is the peer ID definition from the statement, computed without the multihash
// library: identity multihash of the marshalled key if that is at most 42 bytes long,
// else the sha2-256 multihash.
func refID(marshalledKey []byte) peer.ID { return refIDSetting(marshalledKey, true) }

// refIDSetting is the same definition for a given value of the configuration option
// peer.AdvancedEnableInlining of the process that DERIVES the ID: with inlining off
// every key is hashed.
func refIDSetting(marshalledKey []byte, inlining bool) peer.ID {
	if inlining && len(marshalledKey) <= 42 {
		out := []byte{0x00}
		out = binary.AppendUvarint(out, uint64(len(marshalledKey)))
		return peer.ID(append(out, marshalledKey...))
	}
	h := sha256.Sum256(marshalledKey)
	return peer.ID(append([]byte{0x12, 0x20}, h[:]...))
}

// setInlining sets the process-wide option peer.AdvancedEnableInlining and returns the
// function that puts the previous value back: `defer setInlining(v)()` at the top of a
// case. No test of this package runs in parallel with another (no t.Parallel).
func setInlining(v bool) (restore func()) {
	old := peer.AdvancedEnableInlining
	peer.AdvancedEnableInlining = v
	return func() { peer.AdvancedEnableInlining = old }
}

// drawInlining draws the configuration dimension: the option is at its documented
// default (true) in two of three cases and off in the third.
func drawInlining(rt *rapid.T) bool { return drawInliningOf(rt, "inlining-setting") }

func drawInliningOf(rt *rapid.T, label string) bool { return drawUniform(rt, label, 3) != 0 }

func inlLabel(inl bool) string {
	if inl {
		return "inlining:on"
	}
	return "inlining:off"
}

// ---------------------------------------------------------------------------
// Messages / byte strings

// drawBytes draws a byte string whose length class is chosen first so that empty,
// short, varint-boundary (127/128) and long strings are all common.
func drawBytes(rt *rapid.T, label string, allowEmpty bool) []byte {
	cls := rapid.IntRange(0, 9).Draw(rt, label+"-cls")
	var n int
	switch {
	case cls == 0 && allowEmpty:
		n = 0
	case cls <= 4:
		n = rapid.IntRange(1, 12).Draw(rt, label+"-n")
	case cls <= 6:
		n = rapid.IntRange(13, 126).Draw(rt, label+"-n")
	case cls <= 8:
		n = rapid.IntRange(127, 300).Draw(rt, label+"-n")
	default:
		n = rapid.IntRange(301, 20000).Draw(rt, label+"-n")
	}
	if n <= 12 {
		b := make([]byte, n)
		for i := range b {
			b[i] = rapid.Byte().Draw(rt, label+"-b")
		}
		return b
	}
	return expand(fmt.Sprintf("bytes/%d", rapid.Uint64().Draw(rt, label+"-seed")), n)
}

func short(b []byte) string {
	if len(b) <= 24 {
		return hex.EncodeToString(b)
	}
	h := sha256.Sum256(b)
	return fmt.Sprintf("%s..(%d bytes, sha256 %s)", hex.EncodeToString(b[:12]), len(b), hex.EncodeToString(h[:6]))
}

func fp(parts ...any) string {
	h := sha256.New()
	for _, p := range parts {
		switch v := p.(type) {
		case []byte:
			fmt.Fprintf(h, "%d:", len(v))
			h.Write(v)
		default:
			fmt.Fprintf(h, "|%v|", v)
		}
	}
	return hex.EncodeToString(h.Sum(nil)[:12])
}

// ---------------------------------------------------------------------------
// Generic byte mutations

type mutation struct {
	op   string // operator class (label)
	desc string
	out  []byte
}

func posBucket(pos, n int) string {
	if n <= 0 {
		return "p0"
	}
	return fmt.Sprintf("p%d", pos*4/n)
}

// drawMutation applies one drawn byte-level operator to b (never returns b unchanged
// unless noted in op "identity").
func drawMutation(rt *rapid.T, b []byte, label string) mutation {
	n := len(b)
	cp := func() []byte { return append([]byte(nil), b...) }
	if n == 0 {
		ext := drawBytes(rt, label+"-ext", false)
		return mutation{"extend", fmt.Sprintf("extend empty by %d", len(ext)), ext}
	}
	switch rapid.IntRange(0, 9).Draw(rt, label+"-op") {
	case 0, 1:
		pos := rapid.IntRange(0, n-1).Draw(rt, label+"-pos")
		bit := rapid.IntRange(0, 7).Draw(rt, label+"-bit")
		o := cp()
		o[pos] ^= 1 << bit
		return mutation{"flipbit", fmt.Sprintf("flip bit %d of byte %d/%d", bit, pos, n), o}
	case 2:
		pos := rapid.IntRange(0, n-1).Draw(rt, label+"-pos")
		v := rapid.SampledFrom([]byte{0x00, 0xff, 0x7f, 0x80, 0x01}).Draw(rt, label+"-val")
		o := cp()
		if o[pos] == v {
			v ^= 0x55
		}
		o[pos] = v
		return mutation{"setbyte", fmt.Sprintf("byte %d/%d := %#x", pos, n, v), o}
	case 3:
		k := rapid.IntRange(0, n-1).Draw(rt, label+"-len")
		return mutation{"truncate", fmt.Sprintf("truncate %d -> %d", n, k), cp()[:k]}
	case 4:
		k := rapid.IntRange(1, n).Draw(rt, label+"-len")
		return mutation{"dropfront", fmt.Sprintf("drop first %d of %d", k, n), cp()[k:]}
	case 5:
		var ext []byte
		switch rapid.IntRange(0, 3).Draw(rt, label+"-extkind") {
		case 0:
			ext = []byte{rapid.Byte().Draw(rt, label+"-eb")}
		case 1:
			ext = cp()[:rapid.IntRange(1, n).Draw(rt, label+"-el")] // a copy of the beginning
		case 2:
			ext = bytes.Repeat([]byte{0}, rapid.IntRange(1, 9).Draw(rt, label+"-el"))
		default:
			ext = drawBytes(rt, label+"-ext", false)
		}
		return mutation{"extend", fmt.Sprintf("append %d bytes", len(ext)), append(cp(), ext...)}
	case 6:
		pos := rapid.IntRange(0, n).Draw(rt, label+"-pos")
		ins := []byte{rapid.Byte().Draw(rt, label+"-ib")}
		o := append(append(cp()[:pos:pos], ins...), b[pos:]...)
		return mutation{"insert", fmt.Sprintf("insert %#x at %d/%d", ins[0], pos, n), o}
	case 7:
		pos := rapid.IntRange(0, n-1).Draw(rt, label+"-pos")
		k := rapid.IntRange(1, min(4, n-pos)).Draw(rt, label+"-k")
		o := append(cp()[:pos:pos], b[pos+k:]...)
		return mutation{"delete", fmt.Sprintf("delete %d at %d/%d", k, pos, n), o}
	case 8:
		if n < 2 {
			o := cp()
			o[0] ^= 0xff
			return mutation{"setbyte", "invert single byte", o}
		}
		i := rapid.IntRange(0, n-2).Draw(rt, label+"-i")
		j := rapid.IntRange(i+1, n-1).Draw(rt, label+"-j")
		o := cp()
		if o[i] == o[j] {
			o[i] ^= 0x01
		} else {
			o[i], o[j] = o[j], o[i]
		}
		return mutation{"swapbytes", fmt.Sprintf("swap bytes %d,%d of %d", i, j, n), o}
	default:
		pos := rapid.IntRange(0, n-1).Draw(rt, label+"-pos")
		o := cp()
		o[pos] ^= 0xff
		return mutation{"flipbyte", fmt.Sprintf("invert byte %d/%d", pos, n), o}
	}
}

// ---------------------------------------------------------------------------
// protowire helpers (independent of the generated pb packages)

type pbField struct {
	num protowire.Number
	typ protowire.Type
	val []byte // BytesType: content; otherwise the raw encoded value
}

func parseFields(b []byte) ([]pbField, bool) {
	var out []pbField
	for len(b) > 0 {
		num, typ, n := protowire.ConsumeTag(b)
		if n < 0 {
			return nil, false
		}
		b = b[n:]
		if typ == protowire.BytesType {
			v, m := protowire.ConsumeBytes(b)
			if m < 0 {
				return nil, false
			}
			out = append(out, pbField{num, typ, append([]byte(nil), v...)})
			b = b[m:]
			continue
		}
		m := protowire.ConsumeFieldValue(num, typ, b)
		if m < 0 {
			return nil, false
		}
		out = append(out, pbField{num, typ, append([]byte(nil), b[:m]...)})
		b = b[m:]
	}
	return out, true
}

func encodeFields(fs []pbField) []byte {
	var out []byte
	for _, f := range fs {
		out = protowire.AppendTag(out, f.num, f.typ)
		if f.typ == protowire.BytesType {
			out = protowire.AppendBytes(out, f.val)
		} else {
			out = append(out, f.val...)
		}
	}
	return out
}

func mustFields(b []byte) []pbField {
	fs, ok := parseFields(b)
	if !ok {
		panic("harness: cannot parse own protobuf " + hex.EncodeToString(b))
	}
	return fs
}

func fieldBytes(fs []pbField, num protowire.Number) []byte {
	for _, f := range fs {
		if f.num == num && f.typ == protowire.BytesType {
			return f.val
		}
	}
	return nil
}

func cloneFields(fs []pbField) []pbField {
	out := make([]pbField, len(fs))
	for i, f := range fs {
		out[i] = pbField{f.num, f.typ, append([]byte(nil), f.val...)}
	}
	return out
}

// envelope field numbers (core/record/pb/envelope.proto)
const (
	envKey     = 1
	envType    = 2
	envPayload = 3
	envSig     = 5
)

var envFieldName = map[protowire.Number]string{envKey: "key", envType: "ptype", envPayload: "payload", envSig: "sig"}

// buildEnvelope assembles envelope bytes without the library.
func buildEnvelope(pubM, ptype, payload, sig []byte) []byte {
	return encodeFields([]pbField{
		{envKey, protowire.BytesType, pubM},
		{envType, protowire.BytesType, ptype},
		{envPayload, protowire.BytesType, payload},
		{envSig, protowire.BytesType, sig},
	})
}

// ---------------------------------------------------------------------------
// Harness record: arbitrary Domain()/Codec(), payload = raw bytes.

type hrec struct {
	domain  string
	codec   []byte
	payload []byte
}

func (r *hrec) Domain() string                 { return r.domain }
func (r *hrec) Codec() []byte                  { return r.codec }
func (r *hrec) MarshalRecord() ([]byte, error) { return r.payload, nil }
func (r *hrec) UnmarshalRecord(b []byte) error {
	r.payload = append([]byte{}, b...)
	return nil
}

// regRecA / regRecB are registered once (init) so that ConsumeEnvelope can resolve
// their payload types; the registry is process-global and never touched afterwards.
type regRecA struct{ hrec }
type regRecB struct{ hrec }

var (
	codecA = []byte{0xf0, 0x01}
	codecB = []byte{0xf0}
)

func (r *regRecA) Codec() []byte { return codecA }
func (r *regRecB) Codec() []byte { return codecB }

func init() {
	record.RegisterType(&regRecA{})
	record.RegisterType(&regRecB{})
}

// sealed is what the harness knows about one envelope it sealed.
type sealed struct {
	key     *kp
	domain  string
	ptype   []byte
	payload []byte
	raw     []byte // marshalled envelope
	sig     []byte
	kind    string // "hrec", "peerrec", "voucher"
	rec     any    // the sealed record (for content comparison)
}

func sealRecord(rec record.Record, k *kp, kind string) (*sealed, error) {
	env, err := record.Seal(rec, k.priv)
	if err != nil {
		return nil, fmt.Errorf("Seal: %w", err)
	}
	raw, err := env.Marshal()
	if err != nil {
		return nil, fmt.Errorf("Envelope.Marshal: %w", err)
	}
	payload, _ := rec.MarshalRecord()
	fs, ok := parseFields(raw)
	if !ok {
		return nil, fmt.Errorf("marshalled envelope is not well-formed protobuf: %x", raw)
	}
	return &sealed{key: k, domain: rec.Domain(), ptype: append([]byte(nil), rec.Codec()...), payload: payload,
		raw: raw, sig: fieldBytes(fs, envSig), kind: kind, rec: rec}, nil
}

// matchSealed reports whether the accepted envelope decodes to exactly one of the
// sealed tuples under the requested domain.
func matchSealed(set []*sealed, env *record.Envelope, domain string) (*sealed, string) {
	if env == nil {
		return nil, "accepted but returned a nil envelope"
	}
	if env.PublicKey == nil {
		return nil, "accepted envelope has a nil public key"
	}
	km, err := ic.MarshalPublicKey(env.PublicKey)
	if err != nil {
		return nil, "accepted envelope's key cannot be marshalled: " + err.Error()
	}
	for _, s := range set {
		if bytes.Equal(km, s.key.pubM) && bytes.Equal(env.PayloadType, s.ptype) && bytes.Equal(env.RawPayload, s.payload) && domain == s.domain {
			return s, ""
		}
	}
	var b bytes.Buffer
	fmt.Fprintf(&b, "accepted under domain %q with key=%s ptype=%s payload=%s, which is none of the sealed tuples:", domain, short(km), short(env.PayloadType), short(env.RawPayload))
	for i, s := range set {
		fmt.Fprintf(&b, "\n  sealed[%d]: domain=%q key=%s(%s) ptype=%s payload=%s", i, s.domain, s.key.tag, short(s.key.pubM), short(s.ptype), short(s.payload))
	}
	return nil, b.String()
}
