// Package c20 checks property C20: black-hole detection never blocks for good nor
// touches unaffected addresses.
package c20

import (
	"context"
	"errors"
	"fmt"
	"github.com/libp2p/go-libp2p/core/network"
	manet "github.com/multiformats/go-multiaddr/net"
	"sort"
	"strings"
	"testing"
	"testing/synctest"
	"time"

	"github.com/libp2p/go-libp2p/core/peer"
	"github.com/libp2p/go-libp2p/p2p/host/eventbus"
	"github.com/libp2p/go-libp2p/p2p/host/peerstore/pstoremem"
	"github.com/libp2p/go-libp2p/p2p/net/swarm"
	ma "github.com/multiformats/go-multiaddr"
	"pgregory.net/rapid"

	"verif/internal/hx"
	"verif/internal/keys"
	"verif/internal/scripted"
	"verif/internal/stats"
)

func TestMain(m *testing.M) {
	stats.Describe("exploration",
		"Counter: every event sequence over {request, success, failure} is enumerated to depth 3N+4 for small (N, MinSuccesses) "+
			"(exhaustive) and sampled with rapid for N up to 100; the oracle is recomputed from the history (W = results since the last "+
			"success recorded while blocked). Filter: a real swarm with scripted transports is driven through generated CanDial / DialPeer "+
			"histories over address sets mixing private/public x tcp/udp x ip4/ip6 (+relay), in normal and read-only mode. "+
			"Non-trivial = the history reaches the Blocked condition at least once; distinct = distinct event sequence.",
		"multiaddr classification (manet.IsPublicAddr) is trusted",
		"under-blocking is not asserted: the statement gives only upper bounds on blocking",
	)
	hx.Main(m)
}

// ---------------------------------------------------------------------------
// Oracle for one success counter, computed from the history only.

type model struct {
	n, min int
	w      []bool // results recorded since the last clearing success
	// requests since the model last saw a non-refused request
	refusedRun int
	// results still needed before a refusal is legal again (after a clear)
	everBlocked bool
}

func (m *model) blocked() bool {
	if len(m.w) < m.n {
		return false
	}
	s := 0
	for _, r := range m.w[len(m.w)-m.n:] {
		if r {
			s++
		}
	}
	return s < m.min
}

// state is what the statement's three conditions say about the history: no full window yet
// (Probing), a full window with too few successes (Blocked), a full window with enough (Allowed,
// the "known-good" state a read-only detector requires).
func (m *model) state() string {
	switch {
	case len(m.w) < m.n:
		return "Probing"
	case m.blocked():
		return "Blocked"
	}
	return "Allowed"
}

func (m *model) record(success bool) {
	if m.blocked() && success {
		m.w = m.w[:0] // "a single success while blocked clears the state"
		m.refusedRun = 0
		return
	}
	m.w = append(m.w, success)
}

// request checks the verdict of one request ("Blocked" = refused) and returns an
// error text if it contradicts the statement.
func (m *model) request(verdict string) string {
	refused := verdict == "Blocked"
	if refused && !m.blocked() {
		return fmt.Sprintf("request refused although the last full window does not have < MinSuccesses successes (|W|=%d N=%d min=%d W=%v)", len(m.w), m.n, m.min, m.w)
	}
	if refused {
		m.everBlocked = true
		m.refusedRun++
		if m.refusedRun >= m.n {
			return fmt.Sprintf("%d consecutive requests refused with window size %d: no probe was let through", m.refusedRun, m.n)
		}
	} else {
		m.refusedRun = 0
	}
	return ""
}

// note tracks the probe rule for a request whose verdict is only known as
// refused / not refused.
func (m *model) note(refused bool) string {
	if !refused {
		m.refusedRun = 0
		return ""
	}
	m.everBlocked = true
	m.refusedRun++
	if m.refusedRun >= m.n {
		return fmt.Sprintf("%d consecutive requests refused with window size %d: no probe was let through", m.refusedRun, m.n)
	}
	return ""
}

type ev byte

const (
	evReq ev = iota
	evSucc
	evFail
)

func (e ev) String() string { return [...]string{"req", "succ", "fail"}[e] }

func seqString(s []ev) string {
	var b strings.Builder
	for _, e := range s {
		b.WriteByte("rsf"[e])
	}
	return b.String()
}

// runCounter drives a fresh counter and the model through seq.
func runCounter(n, min int, seq []ev) (reachedBlocked bool, failure string) {
	c := &swarm.BlackHoleSuccessCounter{N: n, MinSuccesses: min, Name: "x"}
	m := &model{n: n, min: min}
	for i, e := range seq {
		switch e {
		case evReq:
			v := c.HandleRequest().String()
			if msg := m.request(v); msg != "" {
				return reachedBlocked, fmt.Sprintf("step %d of %s: %s", i, seqString(seq), msg)
			}
			if v == "Blocked" && c.State().String() != "Blocked" {
				return reachedBlocked, fmt.Sprintf("step %d of %s: request refused while State()=%s", i, seqString(seq), c.State())
			}
		case evSucc, evFail:
			wasBlocked := m.blocked()
			c.RecordResult(e == evSucc)
			m.record(e == evSucc)
			if wasBlocked && e == evSucc {
				// cleared: must not report Blocked now, and the next N-1.. requests are checked by the model
				if c.State().String() == "Blocked" {
					return reachedBlocked, fmt.Sprintf("step %d of %s: still Blocked right after a success", i, seqString(seq))
				}
			}
		}
		if m.blocked() {
			reachedBlocked = true
		}
		if c.State().String() == "Blocked" && !m.blocked() {
			return reachedBlocked, fmt.Sprintf("step %d of %s: State()=Blocked but the last full window does not justify it (W=%v)", i, seqString(seq), m.w)
		}
	}
	return reachedBlocked, ""
}

// TestCounterExhaustive enumerates all sequences of the three events up to depth
// 3N+4 for every small (N, MinSuccesses).
func TestCounterExhaustive(t *testing.T) {
	name := t.Name()
	maxN := hx.Pick(3, 4)
	labels := []string{"N=0", "N=1", "N=2", "N=3", "N=4"}
	idx := 0
	for n := 1; n <= maxN; n++ {
		for min := 0; min <= n+1; min++ {
			depth := 3*n + 4
			seq := make([]ev, depth)
			total := 1
			for i := 0; i < depth; i++ {
				total *= 3
			}
			for code := 0; code < total; code++ {
				idx++
				if !hx.Mine(idx) {
					continue
				}
				c := code
				for i := 0; i < depth; i++ {
					seq[i] = ev(c % 3)
					c /= 3
				}
				reached, fail := runCounter(n, min, seq)
				stats.CaseEnumerated(name, reached, labels[n])
				if reached && stats.WantSample(name) {
					stats.Sample(name, map[string]any{"N": n, "MinSuccesses": min, "events": seqString(seq)})
				}
				if fail != "" {
					t.Fatalf("N=%d MinSuccesses=%d: %s", n, min, fail)
				}
			}
		}
	}
	stats.Exhaustive(name)
}

// TestCounterRandom samples long sequences for large windows.
func TestCounterRandom(t *testing.T) {
	name := t.Name()
	hx.Check(t, 3000, 1000000, 0, func(rt *rapid.T) {
		n := rapid.IntRange(1, 100).Draw(rt, "N")
		min := rapid.IntRange(0, n+1).Draw(rt, "min")
		// runs of events so that full windows of failures (and probes) are common
		var seq []ev
		nruns := rapid.IntRange(1, 12).Draw(rt, "runs")
		for i := 0; i < nruns; i++ {
			e := ev(rapid.IntRange(0, 2).Draw(rt, "ev"))
			l := rapid.IntRange(1, 2*n+2).Draw(rt, "len")
			for j := 0; j < l; j++ {
				seq = append(seq, e)
			}
		}
		reached, fail := runCounter(n, min, seq)
		stats.Case(name, fmt.Sprintf("%d/%d/%s", n, min, seqString(seq)), reached)
		if stats.WantSample(name) {
			stats.Sample(name, map[string]any{"N": n, "MinSuccesses": min, "events_rle": rle(seq)})
		}
		if fail != "" {
			rt.Fatalf("N=%d MinSuccesses=%d: %s", n, min, fail)
		}
	})
}

func rle(seq []ev) string {
	var b strings.Builder
	for i := 0; i < len(seq); {
		j := i
		for j < len(seq) && seq[j] == seq[i] {
			j++
		}
		fmt.Fprintf(&b, "%s*%d ", seq[i], j-i)
		i = j
	}
	return b.String()
}

// ---------------------------------------------------------------------------
// Filtering through a real swarm.

type addrClass struct {
	name   string
	public bool
	udp    bool
	ip6    bool
	relay  bool
	mk     func(i int) string
	// noTransport: the swarm has no transport for it; it is dropped before the detector is asked
	// (a request the detector never sees uses up nothing)
	noTransport bool
}

var classes = []addrClass{
	{"priv-tcp4", false, false, false, false, func(i int) string { return fmt.Sprintf("/ip4/192.168.1.%d/tcp/4001", 1+i%200) }, false},
	{"pub-tcp4", true, false, false, false, func(i int) string { return fmt.Sprintf("/ip4/1.2.3.%d/tcp/4001", 1+i%200) }, false},
	{"priv-udp4", false, true, false, false, func(i int) string { return fmt.Sprintf("/ip4/10.1.0.%d/udp/4001/quic-v1", 1+i%200) }, false},
	{"pub-udp4", true, true, false, false, func(i int) string { return fmt.Sprintf("/ip4/1.2.4.%d/udp/4001/quic-v1", 1+i%200) }, false},
	{"priv-tcp6", false, false, true, false, func(i int) string { return fmt.Sprintf("/ip6/fd00::%x/tcp/4001", 1+i%200) }, false},
	{"pub-tcp6", true, false, true, false, func(i int) string { return fmt.Sprintf("/ip6/2600:1f00::%x/tcp/4001", 1+i%200) }, false},
	{"priv-udp6", false, true, true, false, func(i int) string { return fmt.Sprintf("/ip6/fd00::1:%x/udp/4001/quic-v1", 1+i%200) }, false},
	{"pub-udp6", true, true, true, false, func(i int) string { return fmt.Sprintf("/ip6/2600:1f00::1:%x/udp/4001/quic-v1", 1+i%200) }, false},
	{"loop-udp4", false, true, false, false, func(i int) string { return fmt.Sprintf("/ip4/127.0.0.1/udp/%d/quic-v1", 5000+i%200) }, false},
	{"pub-wt4", true, true, false, false, func(i int) string { return fmt.Sprintf("/ip4/1.2.5.%d/udp/4001/quic-v1/webtransport", 1+i%200) }, false},
	// neither public nor private (benchmarking net, documentation prefix, outside 2000::/3; link-local
	// IPv6 is left out: the swarm drops it in another, documented filter):
	// not public, so the filter must leave them alone
	{"bench-udp4", false, true, false, false, func(i int) string { return fmt.Sprintf("/ip4/198.18.0.%d/udp/4001/quic-v1", 1+i%200) }, false},
	{"doc-udp6", false, true, true, false, func(i int) string { return fmt.Sprintf("/ip6/2001:db8::%x/udp/4001/quic-v1", 1+i%200) }, false},
	{"doc-tcp6", false, false, true, false, func(i int) string { return fmt.Sprintf("/ip6/2001:db8::1:%x/tcp/4001", 1+i%200) }, false},
	{"nonglobal-tcp6", false, false, true, false, func(i int) string { return fmt.Sprintf("/ip6/200::%x/tcp/4001", 1+i%200) }, false},
	// public UDP / IPv6 addresses no transport of the swarm can dial (QUIC draft-29, bare udp)
	{"pub-udp4-no-transport", true, true, false, false, func(i int) string { return fmt.Sprintf("/ip4/1.2.6.%d/udp/4001/quic", 1+i%200) }, true},
	{"pub-udp6-no-transport", true, true, true, false, func(i int) string { return fmt.Sprintf("/ip6/2600:1f00::2:%x/udp/4001", 1+i%200) }, true},
}

// TestClassesSelfCheck: the table's public flag is what the library's own classification says
// (the statement's "public" / "private" are manet's; the harness must not disagree with it).
func TestClassesSelfCheck(t *testing.T) {
	hx.Shard0(t)
	for _, c := range classes {
		for i := 0; i < 3; i++ {
			a := ma.StringCast(c.mk(i))
			if got := manet.IsPublicAddr(a); got != c.public {
				t.Fatalf("class %s: %s IsPublicAddr=%v, table says %v", c.name, a, got, c.public)
			}
		}
	}
}

type counterPair struct {
	c *swarm.BlackHoleSuccessCounter
	m *model
}

func (cp *counterPair) drive(seq []ev) string {
	for _, e := range seq {
		switch e {
		case evReq:
			if msg := cp.m.request(cp.c.HandleRequest().String()); msg != "" {
				return msg
			}
		default:
			cp.c.RecordResult(e == evSucc)
			cp.m.record(e == evSucc)
		}
		// the reported state (what a read-only detector goes by) follows the history too; Blocked may
		// only be reported when the history justifies it, and a window that is not full is never known-good
		if got, want := cp.c.State().String(), cp.m.state(); got != want && (got == "Allowed" || want == "Allowed" || got == "Blocked") {
			return fmt.Sprintf("State() = %s, the history gives %s (|W|=%d N=%d min=%d W=%v)", got, want, len(cp.m.w), cp.m.n, cp.m.min, cp.m.w)
		}
	}
	return ""
}

func drawPredrive(rt *rapid.T, n int, label string) []ev {
	kind := rapid.IntRange(0, 4).Draw(rt, label+"-pre")
	var seq []ev
	rep := func(e ev, k int) {
		for i := 0; i < k; i++ {
			seq = append(seq, e)
		}
	}
	switch kind {
	case 0: // fresh (probing)
	case 1: // blocked
		rep(evFail, n+rapid.IntRange(0, 2).Draw(rt, label+"-x"))
	case 2: // allowed
		rep(evSucc, n)
	case 3: // blocked with some requests already counted
		rep(evFail, n)
		rep(evReq, rapid.IntRange(0, 2*n).Draw(rt, label+"-r"))
	case 4: // almost a full window
		rep(evFail, max(0, n-1))
	}
	return seq
}

func TestFilterThroughSwarm(t *testing.T) {
	name := t.Name()
	hx.Check(t, 1500, 300000, 0, func(rt *rapid.T) {
		readOnly := rapid.IntRange(0, 3).Draw(rt, "mode") == 0
		nU := rapid.IntRange(1, 4).Draw(rt, "udpN")
		minU := rapid.IntRange(0, nU).Draw(rt, "udpMin")
		n6 := rapid.IntRange(1, 4).Draw(rt, "ip6N")
		min6 := rapid.IntRange(0, n6).Draw(rt, "ip6Min")
		udp := &counterPair{&swarm.BlackHoleSuccessCounter{N: nU, MinSuccesses: minU, Name: "UDP"}, &model{n: nU, min: minU}}
		ip6 := &counterPair{&swarm.BlackHoleSuccessCounter{N: n6, MinSuccesses: min6, Name: "IPv6"}, &model{n: n6, min: min6}}
		preU, pre6 := drawPredrive(rt, nU, "udp"), drawPredrive(rt, n6, "ip6")
		if msg := udp.drive(preU); msg != "" {
			rt.Fatalf("udp predrive: %s", msg)
		}
		if msg := ip6.drive(pre6); msg != "" {
			rt.Fatalf("ip6 predrive: %s", msg)
		}
		type op struct {
			Kind    string   `json:"kind"`
			Classes []string `json:"classes"`
			Succeed bool     `json:"succeed,omitempty"`
			Sim     bool     `json:"simultaneousConnect,omitempty"`
			ci      []int
		}
		nops := rapid.IntRange(1, 12).Draw(rt, "nops")
		ops := make([]op, nops)
		for i := range ops {
			if rapid.Bool().Draw(rt, "isCanDial") {
				ci := rapid.IntRange(0, len(classes)-1).Draw(rt, "class")
				ops[i] = op{Kind: "CanDial", Classes: []string{classes[ci].name}, ci: []int{ci}}
			} else {
				k := rapid.IntRange(1, 5).Draw(rt, "naddrs")
				o := op{Kind: "DialPeer", Succeed: k == 1 && rapid.Bool().Draw(rt, "succeed"), Sim: rapid.IntRange(0, 3).Draw(rt, "simConnect") == 0}
				for j := 0; j < k; j++ {
					ci := rapid.IntRange(0, len(classes)-1).Draw(rt, "class")
					o.ci = append(o.ci, ci)
					o.Classes = append(o.Classes, classes[ci].name)
				}
				ops[i] = o
			}
		}
		reached := false
		var trace []string
		labels := map[string]bool{}
		hx.Bubble(t, rt, func() {
			local := keys.Ed(0)
			ps, err := pstoremem.NewPeerstore()
			if err != nil {
				rt.Fatalf("peerstore: %v", err)
			}
			defer ps.Close()
			succeedNext := false
			w := scripted.NewWorld()
			set := scripted.NewSet(w, local.ID, func(ma.Multiaddr, peer.ID, int) scripted.Script {
				if succeedNext {
					return scripted.Script{Outcome: scripted.Succeed, Delay: time.Millisecond}
				}
				return scripted.Script{Outcome: scripted.Fail, Delay: time.Millisecond}
			})
			opts := []swarm.Option{swarm.WithUDPBlackHoleSuccessCounter(udp.c), swarm.WithIPv6BlackHoleSuccessCounter(ip6.c)}
			if readOnly {
				opts = append(opts, swarm.WithReadOnlyBlackHoleDetector())
			}
			sw, err := swarm.NewSwarm(local.ID, ps, eventbus.NewBus(), opts...)
			if err != nil {
				rt.Fatalf("swarm: %v", err)
			}
			defer sw.Close()
			for _, tr := range set.All() {
				if err := sw.AddTransport(tr); err != nil {
					rt.Fatalf("add transport: %v", err)
				}
			}
			classOf := map[string]addrClass{}
			stateBefore := [2]string{udp.c.State().String(), ip6.c.State().String()}

			for i, o := range ops {
				target := keys.Ed(100 + i) // fresh peer per op: no back-off carry-over
				var addrs []ma.Multiaddr
				for j, ci := range o.ci {
					a := ma.StringCast(classes[ci].mk(i*7 + j))
					addrs = append(addrs, a)
					classOf[a.String()] = classes[ci]
				}
				// which counters are consulted: a public address of that kind is present
				hasU, has6 := false, false
				for _, ci := range o.ci {
					c := classes[ci]
					if c.noTransport {
						continue // dropped before the detector is asked: no request
					}
					if c.public && c.udp {
						hasU = true
					}
					if c.public && c.ip6 {
						has6 = true
					}
				}
				uBlocked, sBlocked := udp.m.blocked(), ip6.m.blocked()
				// known-good is read from the history, not from the counter under test
				uAllowedState, sAllowedState := udp.m.state() == "Allowed", ip6.m.state() == "Allowed"
				if uBlocked || sBlocked {
					reached = true
				}
				// mayRefuse(class): the statement permits refusing this address now
				mayRefuse := func(c addrClass) bool {
					if !c.public {
						return false
					}
					if readOnly {
						return (c.udp && !uAllowedState) || (c.ip6 && !sAllowedState)
					}
					return (c.udp && uBlocked) || (c.ip6 && sBlocked)
				}

				switch o.Kind {
				case "CanDial":
					c := classes[o.ci[0]]
					got := sw.CanDial(target.ID, addrs[0])
					trace = append(trace, fmt.Sprintf("CanDial(%s)=%v", c.name, got))
					if c.noTransport {
						if got {
							rt.Fatalf("op %d: CanDial(%s %s) = true although no transport can dial it", i, c.name, addrs[0])
						}
						labels["query-for-an-address-without-transport"] = true
						break
					}
					if !got && !mayRefuse(c) {
						rt.Fatalf("op %d: CanDial(%s %s) refused but nothing permits it (readOnly=%v udpBlocked=%v ip6Blocked=%v udpState=%s ip6State=%s)",
							i, c.name, addrs[0], readOnly, uBlocked, sBlocked, udp.c.State(), ip6.c.State())
					}
					if readOnly && c.public {
						// refuses unless the state is known-good, for every counter that applies
						want := !((c.udp && !uAllowedState) || (c.ip6 && !sAllowedState))
						if got != want {
							rt.Fatalf("op %d: read-only CanDial(%s)=%v want %v (udpState=%s ip6State=%s)", i, c.name, got, want, udp.c.State(), ip6.c.State())
						}
					}
					if !readOnly {
						// the swarm issued one request to each consulted counter; a refusal is attributed to a
						// counter only if the history puts that counter in the blocked condition
						if hasU {
							if msg := udp.m.note(!got && c.udp && uBlocked); msg != "" {
								rt.Fatalf("op %d: udp: %s", i, msg)
							}
						}
						if has6 {
							if msg := ip6.m.note(!got && c.ip6 && sBlocked); msg != "" {
								rt.Fatalf("op %d: ip6: %s", i, msg)
							}
						}
					}
				case "DialPeer":
					succeedNext = o.Succeed
					ps.AddAddrs(target.ID, addrs, time.Hour)
					before := len(w.Snapshot())
					ctx, cancel := context.WithTimeout(context.Background(), time.Minute)
					if o.Sim {
						// how hole punching dials; the detector treats these dials like any other
						ctx = network.WithSimultaneousConnect(ctx, true, "c20")
					}
					conn, err := sw.DialPeer(ctx, target.ID)
					cancel()
					synctest.Wait()
					recs := w.Snapshot()[before:]
					dialled := map[string]bool{}
					for _, r := range recs {
						dialled[r.Addr.String()] = true
					}
					refused := map[string]bool{}
					var de *swarm.DialError
					if errors.As(err, &de) {
						for _, te := range de.DialErrors {
							if errors.Is(te.Cause, swarm.ErrDialRefusedBlackHole) {
								refused[te.Address.String()] = true
							}
						}
					}
					trace = append(trace, fmt.Sprintf("DialPeer(%v succeed=%v sim=%v) dialled=%d refused=%d err=%v", o.Classes, o.Succeed, o.Sim, len(dialled), len(refused), err != nil))
					dialable := false
					for _, ci := range o.ci {
						dialable = dialable || !classes[ci].noTransport
					}
					if o.Succeed && conn == nil && len(refused) == 0 && dialable {
						rt.Fatalf("op %d: dial scripted to succeed failed without a black-hole refusal: %v", i, err)
					}
					seen := map[string]bool{}
					for j, ci := range o.ci {
						c := classes[ci]
						as := addrs[j].String()
						if seen[as] {
							continue
						}
						seen[as] = true
						if c.noTransport {
							if dialled[as] {
								rt.Fatalf("op %d: %s (%s) was handed to a transport", i, as, c.name)
							}
							labels["dial-with-an-address-without-transport"] = true
							continue
						}
						if refused[as] && dialled[as] {
							rt.Fatalf("op %d: %s both refused and dialled", i, as)
						}
						if refused[as] && !mayRefuse(c) {
							rt.Fatalf("op %d: %s (%s) refused as black-holed but nothing permits it (readOnly=%v udpBlocked=%v ip6Blocked=%v)", i, as, c.name, readOnly, uBlocked, sBlocked)
						}
						if !refused[as] && !dialled[as] && conn == nil {
							// output U refused = input: an address that is neither refused nor dialled must
							// have been dropped by another documented filter (webtransport shadowed by quic-v1
							// on the same ip:port does not occur here: distinct IP ranges per class).
							rt.Fatalf("op %d: %s (%s) was neither dialled nor reported as refused (err=%v)", i, as, c.name, err)
						}
						if readOnly && c.public && !refused[as] {
							if (c.udp && !uAllowedState) || (c.ip6 && !sAllowedState) {
								rt.Fatalf("op %d: read-only detector let %s (%s) through in state udp=%s ip6=%s", i, as, c.name, udp.c.State(), ip6.c.State())
							}
						}
					}
					if conn != nil {
						conn.Close()
					}
					if !readOnly {
						// requests: one per consulted counter; verdict = whether any address of that kind was refused
						anyRefU, anyRef6 := false, false
						for j, ci := range o.ci {
							if refused[addrs[j].String()] {
								if classes[ci].udp {
									anyRefU = true
								}
								if classes[ci].ip6 {
									anyRef6 = true
								}
							}
						}
						if hasU {
							if msg := udp.m.note(anyRefU && uBlocked); msg != "" {
								rt.Fatalf("op %d: udp: %s", i, msg)
							}
						}
						if has6 {
							if msg := ip6.m.note(anyRef6 && sBlocked); msg != "" {
								rt.Fatalf("op %d: ip6: %s", i, msg)
							}
						}
						// results, in completion order (all same kind within one op, so ties are harmless)
						for _, r := range recs {
							cl := classOf[r.Addr.String()]
							if !cl.public {
								continue
							}
							ok := r.Err == nil
							if cl.udp {
								udp.m.record(ok)
							}
							if cl.ip6 {
								ip6.m.record(ok)
							}
						}
					}
				}
				if readOnly {
					if got := [2]string{udp.c.State().String(), ip6.c.State().String()}; got != stateBefore {
						rt.Fatalf("op %d: read-only detector changed state %v -> %v", i, stateBefore, got)
					}
				} else {
					// State() may say Blocked only when the history justifies it
					if udp.c.State().String() == "Blocked" && !udp.m.blocked() {
						rt.Fatalf("op %d: udp counter Blocked but history does not justify it: W=%v", i, udp.m.w)
					}
					if ip6.c.State().String() == "Blocked" && !ip6.m.blocked() {
						rt.Fatalf("op %d: ip6 counter Blocked but history does not justify it: W=%v", i, ip6.m.w)
					}
				}
			}
			if readOnly {
				// never changes state: the counters must behave exactly like untouched twins
				tu := &swarm.BlackHoleSuccessCounter{N: nU, MinSuccesses: minU}
				t6 := &swarm.BlackHoleSuccessCounter{N: n6, MinSuccesses: min6}
				(&counterPair{tu, &model{n: nU, min: minU}}).drive(preU)
				(&counterPair{t6, &model{n: n6, min: min6}}).drive(pre6)
				for k := 0; k < 2*max(nU, n6)+2; k++ {
					if a, b := udp.c.HandleRequest(), tu.HandleRequest(); a != b {
						rt.Fatalf("read-only: udp counter diverged from untouched twin at follow-up request %d: %s vs %s", k, a, b)
					}
					if a, b := ip6.c.HandleRequest(), t6.HandleRequest(); a != b {
						rt.Fatalf("read-only: ip6 counter diverged from untouched twin at follow-up request %d: %s vs %s", k, a, b)
					}
				}
			}
		})
		mode := "normal"
		if readOnly {
			mode = "readonly"
		}
		fp := fmt.Sprintf("%v|%d/%d/%s|%d/%d/%s|%s", readOnly, nU, minU, seqString(preU), n6, min6, seqString(pre6), strings.Join(trace, ";"))
		ls := []string{mode}
		for l := range labels {
			ls = append(ls, l)
		}
		sort.Strings(ls)
		stats.Case(name, fp, reached, ls...)
		if stats.WantSample(name) {
			stats.Sample(name, map[string]any{"readOnly": readOnly, "udp": fmt.Sprintf("N=%d min=%d pre=%s", nU, minU, seqString(preU)),
				"ip6": fmt.Sprintf("N=%d min=%d pre=%s", n6, min6, seqString(pre6)), "trace": trace})
		}
	})
}
