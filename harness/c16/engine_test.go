package c16

// The engine runs one scenario against the real server inside a synctest bubble and
// returns the recorded history. Must be called from inside a bubble.

import (
	"fmt"
	"testing/synctest"
	"time"

	"github.com/libp2p/go-libp2p/core/network"
	"github.com/libp2p/go-libp2p/p2p/protocol/autonatv2"
	"github.com/libp2p/go-libp2p/p2p/protocol/autonatv2/pb"
	"github.com/libp2p/go-msgio/pbio"
	ma "github.com/multiformats/go-multiaddr"

	"verif/internal/keys"
	"verif/internal/memnet"
)

// sample is the set of requests whose handler was running at a quiescence point.
type sample struct {
	At   time.Duration
	Open []int // indices into world.reqs
}

type result struct {
	w          *world
	samples    []sample
	unfinished []int
}

func (r *reqRun) tap(p []byte) {
	r.w.mu.Lock()
	r.wlog = append(r.wlog, p...)
	r.wstamps = append(r.wstamps, wstamp{Off: len(r.wlog), At: r.w.now()})
	r.w.mu.Unlock()
}

func (r *reqRun) logSeg(s seg) {
	r.w.mu.Lock()
	r.segs = append(r.segs, s)
	r.w.mu.Unlock()
}

// sleepOr sleeps d unless over is closed first; reports whether over was closed.
func sleepOr(d time.Duration, over <-chan struct{}) bool {
	if d <= 0 {
		select {
		case <-over:
			return true
		default:
			return false
		}
	}
	t := time.NewTimer(d)
	defer t.Stop()
	select {
	case <-t.C:
		return false
	case <-over:
		return true
	}
}

func (r *reqRun) endAction(end int, over <-chan struct{}) {
	if end == endReset || end == endClose {
		// from here on the server cannot deliver a verdict on this stream
		r.w.mu.Lock()
		r.aborted = true
		r.w.mu.Unlock()
	}
	switch end {
	case endCloseWrite:
		r.cliEnd.CloseWrite()
	case endReset:
		r.cliEnd.Reset()
	case endClose:
		r.cliEnd.Close()
	}
	<-over
}

// client plays the requesting peer on the request stream.
func (r *reqRun) client() {
	spec := r.spec
	over := make(chan struct{})
	ddr := make(chan uint64, 1)
	go func() {
		defer close(over)
		rd := pbio.NewDelimitedReader(r.cliEnd, 1<<20)
		sent := false
		for {
			var m pb.Message
			if err := rd.ReadMsg(&m); err != nil {
				return
			}
			if d := m.GetDialDataRequest(); d != nil && !sent {
				sent = true
				r.w.mu.Lock()
				r.sawDDR, r.ddN = true, d.GetNumBytes()
				r.w.mu.Unlock()
				ddr <- d.GetNumBytes()
			}
		}
	}()
	defer func() {
		r.cliEnd.Close()
		<-over
		r.w.mu.Lock()
		r.cliDone = true
		r.w.mu.Unlock()
	}()

	if sleepOr(spec.PreDelay, over) {
		return
	}
	// the request
	switch spec.Kind {
	case bodyNone:
		r.endAction(spec.FirstEnd, over)
		return
	case bodyPartial:
		r.cliEnd.Write(spec.Frame[:spec.Cut])
		r.endAction(spec.FirstEnd, over)
		return
	}
	if spec.SplitAt > 0 {
		r.cliEnd.Write(spec.Frame[:spec.SplitAt])
		if sleepOr(spec.SplitDelay, over) {
			return
		}
		r.cliEnd.Write(spec.Frame[spec.SplitAt:])
	} else {
		r.cliEnd.Write(spec.Frame)
	}
	if spec.Kind != bodyRequest {
		r.endAction(spec.FirstEnd, over)
		return
	}
	var buf []byte
	for _, d := range spec.Eager {
		buf = wfFrame(buf[:0], d, 0x5a)
		r.logSeg(seg{Wire: len(buf), Data: d, Full: true})
		if _, err := r.cliEnd.Write(buf); err != nil {
			break
		}
	}
	// wait until the server asks for dial data (or finishes)
	var n uint64
	select {
	case n = <-ddr:
	case <-over:
		return
	}
	if n > 1<<30 {
		n = 1 << 30
	}
	for _, op := range spec.DD.plan(int(n)) {
		switch op.Kind {
		case opSleep:
			if sleepOr(op.Delay, over) {
				return
			}
			continue
		case opWF:
			buf = wfFrame(buf[:0], op.Size, 0x41)
			r.logSeg(seg{Wire: len(buf), Data: op.Size})
		case opFramed:
			buf = appendUvarint(buf[:0], uint64(op.Size))
			for i := 0; i < op.Size; i++ {
				buf = append(buf, op.Fill)
			}
			r.logSeg(seg{Wire: len(buf), Full: true})
		case opRaw:
			buf = buf[:0]
			if op.Size < 0 {
				// a well-formed 4000-byte message cut after -Size bytes
				buf = wfFrame(buf, 4000, 0x41)
				buf = buf[:min(len(buf)-1, -op.Size)]
			} else {
				for i := 0; i < op.Size; i++ {
					buf = append(buf, op.Fill)
				}
			}
			r.logSeg(seg{Wire: len(buf), Full: true, Raw: true})
		case opWFCut:
			buf = wfFrame(buf[:0], op.Size, 0x41)
			buf = buf[:len(buf)-op.Cut]
			r.logSeg(seg{Wire: len(buf), Data: op.Size - op.Cut, Raw: true})
		}
		for f := spec.DD.Frag; f > 0 && len(buf) > f; buf = buf[f:] {
			if _, err := r.cliEnd.Write(buf[:f]); err != nil {
				return
			}
			if sleepOr(time.Nanosecond, over) {
				return
			}
		}
		if _, err := r.cliEnd.Write(buf); err != nil {
			return
		}
		select {
		case <-over:
			return
		default:
		}
	}
	r.endAction(spec.DD.End, over)
}

func appendUvarint(b []byte, x uint64) []byte {
	for x >= 0x80 {
		b = append(b, byte(x)|0x80)
		x >>= 7
	}
	return append(b, byte(x))
}

// runScenario executes sc. fatalf reports harness-level problems.
func runScenario(sc *scenario, fatalf func(string, ...any)) *result {
	w := &world{t0: time.Now(), peers: sc.Peers, owner: map[string][2]int{}}
	srvID, dialID := keys.Ed(1).ID, keys.Ed(2).ID
	laddr := ma.StringCast("/ip4/7.7.7.7/tcp/4001")
	for idx, spec := range sc.Reqs {
		p := sc.Peers[spec.Peer]
		obs := p.Conns[spec.Conn]
		cli, srv := memnet.Pipe(memnet.Options{})
		r := &reqRun{spec: spec, w: w, srvEnd: srv, cliEnd: cli, launched: -1,
			conn: &inConn{local: srvID, remote: p.ID, raddr: obs.Addr, laddr: laddr, id: fmt.Sprintf("in%d", spec.ID)}}
		if spec.Kind == bodyRequest {
			r.reqWire = len(spec.Frame)
		}
		r.eager = len(spec.Eager) > 0
		w.reqs = append(w.reqs, r)
		for i := range spec.Entries {
			e := &spec.Entries[i]
			if e.Class == clMalformed {
				continue
			}
			key := string(canon(e.Bytes, p.ID))
			if ref, dup := w.owner[key]; dup {
				if ref[0] != idx {
					fatalf("harness: address %s occurs in two requests", e.Str)
				}
				if o := &spec.Entries[ref[1]]; o.Public != e.Public || o.Dialable != e.Dialable {
					fatalf("harness: two spellings of one address with different classes: %s / %s", o.Str, e.Str)
				}
				continue
			}
			w.owner[key] = [2]int{idx, i}
		}
	}
	if sc.CanDial != nil {
		w.canDial = sc.CanDial
	} else {
		w.canDial = func(a ma.Multiaddr) bool {
			for _, p := range sc.Peers {
				if ref, ok := w.owner[string(canon(a.Bytes(), p.ID))]; ok {
					return w.reqs[ref[0]].spec.Entries[ref[1]].Dialable
				}
			}
			return false
		}
	}

	srv, err := newSrvHost(srvID)
	if err != nil {
		fatalf("harness: %v", err)
	}
	dial, err := newDialHost(w, dialID)
	if err != nil {
		fatalf("harness: %v", err)
	}
	an, err := autonatv2.New(dial, autonatv2.WithServerRateLimit(sc.Limits.RPM, sc.Limits.PerPeer, sc.Limits.DialData, sc.Limits.MaxConc))
	if err != nil {
		fatalf("harness: autonatv2.New: %v", err)
	}
	if err := an.Start(srv); err != nil {
		fatalf("harness: Start: %v", err)
	}
	handler := srv.handler(autonatv2.DialProtocol)
	if handler == nil {
		fatalf("harness: the server did not register a handler for %s", autonatv2.DialProtocol)
	}

	res := &result{w: w}
	takeSample := func() {
		synctest.Wait()
		w.mu.Lock()
		s := sample{At: w.now()}
		for i, r := range w.reqs {
			if r.launched >= 0 && !r.handlerDone {
				s.Open = append(s.Open, i)
			}
		}
		w.mu.Unlock()
		if len(s.Open) > 0 {
			res.samples = append(res.samples, s)
		}
	}
	for _, r := range w.reqs {
		if d := r.spec.At - w.now(); d > 0 {
			takeSample()
			time.Sleep(d)
			// requests that finish exactly now (timeouts) do so before the next one is
			// launched only if the case says so; otherwise they race for real
			if r.spec.Settle {
				synctest.Wait()
			}
		} else if r.spec.Settle {
			takeSample()
		}
		r := r
		w.mu.Lock()
		r.launched = w.now()
		w.mu.Unlock()
		st := &pipeStream{c: r.srvEnd, conn: r.conn, id: fmt.Sprintf("s%d", r.spec.ID), proto: autonatv2.DialProtocol, dir: network.DirInbound, tap: r.tap}
		go func() {
			handler(st)
			w.mu.Lock()
			r.handlerDone, r.doneAt = true, w.now()
			w.mu.Unlock()
		}()
		go r.client()
	}
	takeSample()
	for i := 0; i < 60; i++ {
		open := 0
		w.mu.Lock()
		for _, r := range w.reqs {
			if !r.handlerDone {
				open++
			}
		}
		w.mu.Unlock()
		if open == 0 {
			break
		}
		time.Sleep(5 * time.Second)
		synctest.Wait()
	}
	w.mu.Lock()
	for i, r := range w.reqs {
		if !r.handlerDone {
			res.unfinished = append(res.unfinished, i)
		}
	}
	w.mu.Unlock()
	an.Close()
	srv.Close()
	dial.Close()
	// a handler that is still running keeps its client goroutine alive: cut the streams
	for _, i := range res.unfinished {
		w.reqs[i].srvEnd.Reset()
	}
	// every harness goroutine must be gone before the bubble's root returns (virtual
	// time stops with it)
	for i := 0; i < 100; i++ {
		synctest.Wait()
		busy := false
		w.mu.Lock()
		for _, r := range w.reqs {
			if r.launched >= 0 && !r.cliDone {
				busy = true
			}
		}
		w.mu.Unlock()
		if !busy {
			break
		}
		time.Sleep(time.Second)
	}
	return res
}
