package c16

// TestDialBackSockets: where does the dial-back really go?
//
// The bubble tests observe the address the server hands to its dialer host. This test
// puts the REAL dialer stack behind the server (swarm + TCP, QUIC and WebSocket
// transports on real loopback sockets) and observes the sockets: the statement says the
// server dials only an address taken from the request, and only after dial data when
// that address's IP is not the one the request came from - so every TCP connection and
// every UDP datagram the dialer emits must go to an (IP, port) named in the request,
// and to a foreign IP only after the dial data was consumed.
//
// Observation points:
//   - plain TCP accept loops on every loopback IP of the case (observed IP, foreign IP,
//     the IPs the /sni names resolve to) x every TCP port of the request plus the scheme
//     defaults 80 and 443;
//   - every datagram the dialer's UDP sockets send (quicreuse.OverrideListenUDP wraps the
//     real socket; this sees every destination, listener or not).
//
// Names resolve through net.DefaultResolver, which for the duration of a case points to
// an in-process DNS server on a loopback UDP socket (names of the case -> loopback IPs
// of the case), so no machine-global name or port is involved: each shard (and each
// case) has its own block of 127.0.0.0/8.
//
// Real time: nothing here is a correctness signal. A handler that does not finish in
// 40 s or a socket that cannot be bound makes the case inconclusive (counted label).

import (
	"context"
	"errors"
	"fmt"
	"net"
	"net/netip"
	"sort"
	"strings"
	"sync"
	"sync/atomic"
	"testing"
	"time"

	"github.com/libp2p/go-libp2p/config"
	"github.com/libp2p/go-libp2p/core/network"
	"github.com/libp2p/go-libp2p/core/sec"
	blankhost "github.com/libp2p/go-libp2p/p2p/host/blank"
	"github.com/libp2p/go-libp2p/p2p/host/eventbus"
	"github.com/libp2p/go-libp2p/p2p/host/peerstore/pstoremem"
	"github.com/libp2p/go-libp2p/p2p/muxer/yamux"
	"github.com/libp2p/go-libp2p/p2p/net/swarm"
	tptu "github.com/libp2p/go-libp2p/p2p/net/upgrader"
	"github.com/libp2p/go-libp2p/p2p/protocol/autonatv2"
	"github.com/libp2p/go-libp2p/p2p/protocol/autonatv2/pb"
	"github.com/libp2p/go-libp2p/p2p/security/insecure"
	libp2pquic "github.com/libp2p/go-libp2p/p2p/transport/quic"
	"github.com/libp2p/go-libp2p/p2p/transport/quicreuse"
	"github.com/libp2p/go-libp2p/p2p/transport/tcp"
	"github.com/libp2p/go-libp2p/p2p/transport/websocket"
	"github.com/libp2p/go-msgio/pbio"
	ma "github.com/multiformats/go-multiaddr"
	"golang.org/x/net/dns/dnsmessage"
	"google.golang.org/protobuf/proto"
	"pgregory.net/rapid"

	"verif/internal/hx"
	"verif/internal/keys"
	"verif/internal/memnet"
	"verif/internal/stats"
)

// ---------------------------------------------------------------------------
// scenario

type sockShape int

const (
	shTCP       sockShape = iota // /tcp/P
	shQUIC                       // /udp/P/quic-v1
	shWS                         // /tcp/P/ws
	shWSS                        // /tcp/P/wss
	shTLSWS                      // /tcp/P/tls/ws
	shSNI                        // /tcp/P/tls/sni/<name>/ws
	shNoTpt                      // nothing on the dialer speaks it: /udp/P, /udp/P/quic-v1/webtransport
	shMalformed                  // bytes that are no multiaddr
)

var sockShapeNames = [...]string{"tcp", "quic", "ws", "wss", "tls-ws", "tls-sni-ws", "no-transport", "malformed"}

// how the /sni name relates to the address it stands in
const (
	nkLiteralOther = iota // the name is the literal of ANOTHER IP of the case
	nkNameOther           // a DNS name that resolves to another IP of the case
	nkNameSame            // a DNS name that resolves to the address's own IP
	nkNX                  // a DNS name that does not resolve
)

var nameKindNames = [...]string{"literal-other-ip", "resolves-to-other-ip", "resolves-to-same-ip", "unresolvable"}

// dial-data behaviour of the client
const (
	sdSupply = iota // everything that was asked for, in 4000-byte messages
	sdShort         // half of it, then close
	sdRefuse        // close on the DialDataRequest
)

var sockDDNames = [...]string{"supply", "short-close", "refuse-close"}

// IP roles of a case: 0 = where the request comes from, 1 = a foreign IP, 2 and 3 =
// bystanders that only /sni names point to.
const nSockIPs = 4

type sockEntry struct {
	Shape    sockShape
	IP       int // role (0 or 1)
	Port     int
	Variant  int // no-transport / malformed flavour
	NameKind int // shSNI only
	NameTo   int // IP role the name resolves to / is the literal of (shSNI only)
}

type sockCase struct {
	ObsQUIC bool // the request arrived on a QUIC connection (else TCP)
	Entries []sockEntry
	DD      int
	Nonce   uint64
}

var (
	tcpPortMenu = []int{443, 443, 443, 443, 80, 80, 8443, 4001}
	udpPortMenu = []int{443, 443, 80, 4001, 9090}
)

func drawSockCase(rt *rapid.T) *sockCase {
	c := &sockCase{
		ObsQUIC: rapid.IntRange(0, 3).Draw(rt, "obsQUIC") == 0,
		// (after dial data the server waits up to 3 s of real time before it dials: keep
		// the supplying client rare)
		DD:    []int{sdShort, sdRefuse, sdRefuse, sdSupply, sdShort, sdShort, sdRefuse, sdRefuse}[rapid.IntRange(0, 7).Draw(rt, "dd")],
		Nonce: rapid.Uint64().Draw(rt, "nonce"),
	}
	n := []int{1, 1, 2, 3, 4}[rapid.IntRange(0, 4).Draw(rt, "nEntries")]
	for i := 0; i < n; i++ {
		e := sockEntry{}
		// the tail of the list is where the address the server selects usually sits: let
		// the head be undialable now and then so that the selected index moves
		shapes := []sockShape{shTCP, shQUIC, shWS, shWSS, shTLSWS, shSNI, shSNI, shSNI, shSNI, shNoTpt, shMalformed}
		if i < n-1 {
			shapes = append(shapes, shNoTpt, shNoTpt, shMalformed)
		}
		e.Shape = shapes[rapid.IntRange(0, len(shapes)-1).Draw(rt, "shape")]
		// (rapid favours the low end of a range: the rarer class sits at the high end)
		if f := rapid.IntRange(0, 14).Draw(rt, "foreign"); f >= 12 || (f >= 10 && e.Shape != shSNI) {
			e.IP = 1
		}
		e.Variant = rapid.IntRange(0, 1).Draw(rt, "variant")
		switch e.Shape {
		case shQUIC, shNoTpt:
			e.Port = udpPortMenu[rapid.IntRange(0, len(udpPortMenu)-1).Draw(rt, "udpPort")]
		default:
			e.Port = tcpPortMenu[rapid.IntRange(0, len(tcpPortMenu)-1).Draw(rt, "tcpPort")]
		}
		if e.Shape == shSNI {
			e.NameKind = []int{nkLiteralOther, nkLiteralOther, nkNameOther, nkNameOther, nkNameOther, nkNameSame, nkNX}[rapid.IntRange(0, 6).Draw(rt, "nameKind")]
			others := []int{1 - e.IP, 2, 3}
			e.NameTo = others[rapid.IntRange(0, 2).Draw(rt, "nameTo")]
			if e.NameKind == nkNameSame {
				e.NameTo = e.IP
			}
		}
		c.Entries = append(c.Entries, e)
	}
	return c
}

func (c *sockCase) fingerprint() string {
	var sb strings.Builder
	fmt.Fprintf(&sb, "q%v d%d", c.ObsQUIC, c.DD)
	for _, e := range c.Entries {
		fmt.Fprintf(&sb, "|%d.%d.%d.%d.%d.%d", e.Shape, e.IP, e.Port, e.Variant, e.NameKind, e.NameTo)
	}
	return sb.String()
}

// first entry that the dialer has a transport for (labels only; the oracle does not
// depend on which entry the server selects)
func (c *sockCase) firstDialable() *sockEntry {
	for i := range c.Entries {
		if c.Entries[i].Shape < shNoTpt {
			return &c.Entries[i]
		}
	}
	return nil
}

// ---------------------------------------------------------------------------
// the sockets of one case

type sockHit struct {
	Proto    string // tcp | udp
	IP       string
	Port     int
	Consumed int64 // bytes the server had read from the request stream when the hit was seen (upper bound)
}

func (h sockHit) key() string { return fmt.Sprintf("%s %s:%d", h.Proto, h.IP, h.Port) }

type sockWorld struct {
	ips   [nSockIPs]net.IP
	names map[string]net.IP // lower-case FQDN (with trailing dot) -> IP

	mu      sync.Mutex
	hits    []sockHit
	queries []string
	srvEnd  atomic.Pointer[memnet.Conn]

	tcpLs   []*net.TCPListener
	udpLs   []*net.UDPConn
	dns     *net.UDPConn
	wg      sync.WaitGroup
	drained bool
}

func (w *sockWorld) consumed() int64 {
	if c := w.srvEnd.Load(); c != nil {
		return c.BytesRead.Load()
	}
	return 0
}

func (w *sockWorld) hit(proto string, ip net.IP, port int) {
	h := sockHit{Proto: proto, IP: ip.String(), Port: port, Consumed: w.consumed()}
	w.mu.Lock()
	w.hits = append(w.hits, h)
	w.mu.Unlock()
}

// sockCaseSeq spreads consecutive cases of one process over different /24s, so that a
// straggler of one case can never be taken for a connection of the next.
var sockCaseSeq atomic.Uint32

func (w *sockWorld) pickIPs(attempt int) {
	shard, _ := hx.Shard()
	second := byte(64 + (shard+37*attempt)%160)
	third := byte(sockCaseSeq.Add(1) % 250)
	for i := range w.ips {
		w.ips[i] = net.IPv4(127, second, third, byte(10+i))
	}
}

func (w *sockWorld) listenTCP(ip net.IP, port int) error {
	l, err := net.ListenTCP("tcp4", &net.TCPAddr{IP: ip, Port: port})
	if err != nil {
		return err
	}
	w.tcpLs = append(w.tcpLs, l)
	w.wg.Add(1)
	go func() {
		defer w.wg.Done()
		for {
			c, err := l.Accept()
			if err != nil {
				return
			}
			w.hit("tcp", ip, port)
			c.Close()
		}
	}()
	return nil
}

// vnReply builds a QUIC Version Negotiation packet that offers only a reserved
// version: the dialling client gives up at once instead of waiting for its timeout.
func vnReply(pkt []byte) []byte {
	if len(pkt) < 7 || pkt[0]&0x80 == 0 {
		return nil
	}
	dl := int(pkt[5])
	if len(pkt) < 7+dl {
		return nil
	}
	dcid := pkt[6 : 6+dl]
	sl := int(pkt[6+dl])
	if len(pkt) < 7+dl+sl {
		return nil
	}
	scid := pkt[7+dl : 7+dl+sl]
	out := []byte{0xc0, 0, 0, 0, 0, byte(sl)}
	out = append(out, scid...)
	out = append(out, byte(dl))
	out = append(out, dcid...)
	return append(out, 0x1a, 0x2a, 0x3a, 0x4a)
}

func (w *sockWorld) listenUDP(ip net.IP, port int) error {
	c, err := net.ListenUDP("udp4", &net.UDPAddr{IP: ip, Port: port})
	if err != nil {
		return err
	}
	w.udpLs = append(w.udpLs, c)
	w.wg.Add(1)
	go func() {
		defer w.wg.Done()
		buf := make([]byte, 2048)
		for {
			n, from, err := c.ReadFromUDP(buf)
			if err != nil {
				return
			}
			if r := vnReply(buf[:n]); r != nil {
				c.WriteToUDP(r, from)
			}
		}
	}()
	return nil
}

func (w *sockWorld) serveDNS() error {
	c, err := net.ListenUDP("udp4", &net.UDPAddr{IP: w.ips[0], Port: 0})
	if err != nil {
		return err
	}
	w.dns = c
	w.wg.Add(1)
	go func() {
		defer w.wg.Done()
		buf := make([]byte, 1500)
		for {
			n, from, err := c.ReadFromUDP(buf)
			if err != nil {
				return
			}
			var p dnsmessage.Parser
			h, err := p.Start(buf[:n])
			if err != nil {
				continue
			}
			q, err := p.Question()
			if err != nil {
				continue
			}
			name := strings.ToLower(q.Name.String())
			w.mu.Lock()
			w.queries = append(w.queries, name+" "+q.Type.String())
			w.mu.Unlock()
			ip, known := w.names[name]
			rh := dnsmessage.Header{ID: h.ID, Response: true, Authoritative: true, RecursionAvailable: true}
			if !known {
				rh.RCode = dnsmessage.RCodeNameError
			}
			b := dnsmessage.NewBuilder(nil, rh)
			b.StartQuestions()
			b.Question(q)
			b.StartAnswers()
			if known && q.Type == dnsmessage.TypeA {
				var a [4]byte
				copy(a[:], ip.To4())
				b.AResource(dnsmessage.ResourceHeader{Name: q.Name, Class: dnsmessage.ClassINET, TTL: 1}, dnsmessage.AResource{A: a})
			}
			if msg, err := b.Finish(); err == nil {
				c.WriteToUDP(msg, from)
			}
		}
	}()
	return nil
}

// installResolver points net.DefaultResolver to the case's DNS server and returns the
// function that restores it.
func (w *sockWorld) installResolver() (restore func()) {
	prev := net.DefaultResolver
	dnsAddr := w.dns.LocalAddr().String()
	net.DefaultResolver = &net.Resolver{PreferGo: true, Dial: func(ctx context.Context, _, _ string) (net.Conn, error) {
		var d net.Dialer
		return d.DialContext(ctx, "udp4", dnsAddr)
	}}
	return func() { net.DefaultResolver = prev }
}

// drain gives connections that are already in an accept queue the time to be seen,
// then closes every socket of the case.
func (w *sockWorld) drain() {
	if w.drained {
		return
	}
	w.drained = true
	dl := time.Now().Add(20 * time.Millisecond)
	for _, l := range w.tcpLs {
		l.SetDeadline(dl)
	}
	time.Sleep(time.Until(dl))
	for _, l := range w.tcpLs {
		l.Close()
	}
	for _, c := range w.udpLs {
		c.Close()
	}
	if w.dns != nil {
		w.dns.Close()
	}
	w.wg.Wait()
}

// recPacketConn is the dialer's UDP socket. Only net.PacketConn is exposed, so that
// quic-go sends every datagram through WriteTo.
type recPacketConn struct {
	net.PacketConn
	w *sockWorld
}

func (r *recPacketConn) WriteTo(p []byte, to net.Addr) (int, error) {
	if u, ok := to.(*net.UDPAddr); ok {
		r.w.hit("udp", u.IP, u.Port)
	} else if ap, err := netip.ParseAddrPort(to.String()); err == nil {
		r.w.hit("udp", net.IP(ap.Addr().AsSlice()), int(ap.Port()))
	}
	return r.PacketConn.WriteTo(p, to)
}

// ---------------------------------------------------------------------------
// addresses

func (w *sockWorld) nameFor(e *sockEntry, idx int) string {
	switch e.NameKind {
	case nkLiteralOther:
		return w.ips[e.NameTo].String()
	case nkNX:
		return fmt.Sprintf("nx%d.c16.test", idx)
	default:
		n := fmt.Sprintf("host%d-to%d.c16.test", idx, e.NameTo)
		w.names[n+"."] = w.ips[e.NameTo]
		return n
	}
}

// render returns the wire bytes of entry idx, a printable form and the endpoint
// (proto, IP, port) it names ("" for malformed bytes).
func (w *sockWorld) render(e *sockEntry, idx int) (b []byte, str, proto string) {
	ip := w.ips[e.IP].String()
	var s string
	switch e.Shape {
	case shTCP:
		s, proto = fmt.Sprintf("/ip4/%s/tcp/%d", ip, e.Port), "tcp"
	case shQUIC:
		s, proto = fmt.Sprintf("/ip4/%s/udp/%d/quic-v1", ip, e.Port), "udp"
	case shWS:
		s, proto = fmt.Sprintf("/ip4/%s/tcp/%d/ws", ip, e.Port), "tcp"
	case shWSS:
		s, proto = fmt.Sprintf("/ip4/%s/tcp/%d/wss", ip, e.Port), "tcp"
	case shTLSWS:
		s, proto = fmt.Sprintf("/ip4/%s/tcp/%d/tls/ws", ip, e.Port), "tcp"
	case shSNI:
		s, proto = fmt.Sprintf("/ip4/%s/tcp/%d/tls/sni/%s/ws", ip, e.Port, w.nameFor(e, idx)), "tcp"
	case shNoTpt:
		if e.Variant == 0 {
			s, proto = fmt.Sprintf("/ip4/%s/udp/%d", ip, e.Port), "udp"
		} else {
			s, proto = fmt.Sprintf("/ip4/%s/udp/%d/quic-v1/webtransport", ip, e.Port), "udp"
		}
	default:
		if e.Variant == 0 {
			return []byte{0x04, 127, 0}, "<truncated ip4>", ""
		}
		return []byte{0xff, 0xff, 0x7f, 1, 2}, "<unknown protocol code>", ""
	}
	m, err := ma.NewMultiaddr(s)
	if err != nil {
		panic(fmt.Sprintf("harness: template %q: %v", s, err))
	}
	return m.Bytes(), s, proto
}

// ---------------------------------------------------------------------------
// the dialer host: real swarm, real TCP + QUIC + WebSocket transports, dial only

type sockDialer struct {
	h  *blankhost.BlankHost
	cm *quicreuse.ConnManager
	ps interface{ Close() error }
}

func (d *sockDialer) close() {
	d.h.Close()
	d.cm.Close()
	d.ps.Close()
}

func newSockDialer(w *sockWorld, id *keys.Identity) (*sockDialer, error) {
	ps, err := pstoremem.NewPeerstore()
	if err != nil {
		return nil, err
	}
	ps.AddPrivKey(id.ID, id.Priv)
	ps.AddPubKey(id.ID, id.Pub)
	bus := eventbus.NewBus()
	sw, err := swarm.NewSwarm(id.ID, ps, bus, swarm.WithUDPBlackHoleSuccessCounter(nil), swarm.WithIPv6BlackHoleSuccessCounter(nil))
	if err != nil {
		ps.Close()
		return nil, err
	}
	fail := func(err error) (*sockDialer, error) { sw.Close(); ps.Close(); return nil, err }
	st := insecure.NewWithIdentity(insecure.ID, id.ID, id.Priv)
	up, err := tptu.New([]sec.SecureTransport{st}, []tptu.StreamMuxer{{ID: yamux.ID, Muxer: yamux.DefaultTransport}}, nil, &network.NullResourceManager{}, nil)
	if err != nil {
		return fail(err)
	}
	tt, err := tcp.NewTCPTransport(up, nil, nil)
	if err != nil {
		return fail(err)
	}
	if err := sw.AddTransport(tt); err != nil {
		return fail(err)
	}
	wt, err := websocket.New(up, nil, nil)
	if err != nil {
		return fail(err)
	}
	if err := sw.AddTransport(wt); err != nil {
		return fail(err)
	}
	srk, err := config.PrivKeyToStatelessResetKey(id.Priv)
	if err != nil {
		return fail(err)
	}
	tgk, err := config.PrivKeyToTokenGeneratorKey(id.Priv)
	if err != nil {
		return fail(err)
	}
	cm, err := quicreuse.NewConnManager(srk, tgk, quicreuse.OverrideListenUDP(func(nw string, la *net.UDPAddr) (net.PacketConn, error) {
		c, err := net.ListenUDP(nw, la)
		if err != nil {
			return nil, err
		}
		return &recPacketConn{PacketConn: c, w: w}, nil
	}))
	if err != nil {
		return fail(err)
	}
	qt, err := libp2pquic.NewTransport(id.Priv, cm, nil, nil, &network.NullResourceManager{})
	if err != nil {
		cm.Close()
		return fail(err)
	}
	if err := sw.AddTransport(qt); err != nil {
		cm.Close()
		return fail(err)
	}
	return &sockDialer{h: blankhost.NewBlankHost(sw, blankhost.WithEventBus(bus)), cm: cm, ps: ps}, nil
}

// ---------------------------------------------------------------------------
// one case

type sockResult struct {
	skipped   string // non-empty: inconclusive, why
	harness   string // non-empty: the harness itself failed
	reqWire   int
	ddN       uint64
	sawDDR    bool
	status    string
	hits      []sockHit
	queries   []string
	requested map[string]string // endpoint key -> entry
	strs      []string
	obsIP     string
}

var errSockTimeout = errors.New("timeout")

func runSockCase(c *sockCase) (res *sockResult) {
	res = &sockResult{requested: map[string]string{}}
	w := &sockWorld{names: map[string]net.IP{}}

	// addresses are rendered per attempt (they carry the IPs); sockets: every IP of the
	// case x (TCP ports of the request + 80 + 443), a responder behind every UDP endpoint
	// named in the request
	var addrs [][]byte
	for attempt := 0; ; attempt++ {
		w.pickIPs(attempt)
		w.names = map[string]net.IP{}
		addrs, res.strs, res.requested = nil, nil, map[string]string{}
		tcpPorts, udpPorts := map[int]bool{80: true, 443: true}, map[int]bool{}
		for i := range c.Entries {
			e := &c.Entries[i]
			b, s, proto := w.render(e, i)
			addrs = append(addrs, b)
			res.strs = append(res.strs, s)
			if proto == "" {
				continue
			}
			res.requested[sockHit{Proto: proto, IP: w.ips[e.IP].String(), Port: e.Port}.key()] = s
			if proto == "tcp" {
				tcpPorts[e.Port] = true
			} else {
				udpPorts[e.Port] = true
			}
		}
		var err error
		for _, ip := range w.ips {
			for _, p := range sortedInts(tcpPorts) {
				if err == nil {
					err = w.listenTCP(ip, p)
				}
			}
			for _, p := range sortedInts(udpPorts) {
				if err == nil {
					err = w.listenUDP(ip, p)
				}
			}
		}
		if err == nil {
			err = w.serveDNS()
		}
		if err == nil {
			break
		}
		w.drain()
		w.tcpLs, w.udpLs, w.dns, w.drained = nil, nil, nil, false
		if attempt == 3 {
			res.skipped = "bind"
			return res
		}
	}
	defer w.drain()
	res.obsIP = w.ips[0].String()

	// names resolve at the case's own DNS server (process-global knob: set here, restored below)
	defer w.installResolver()()

	srvID, dialID, cliID := keys.Ed(1), keys.Ed(2), keys.Ed(11)
	srv, err := newSrvHost(srvID.ID)
	if err != nil {
		res.harness = fmt.Sprintf("harness: setup: %v", err)
		return res
	}
	defer srv.Close()
	d, err := newSockDialer(w, dialID)
	if err != nil {
		res.harness = fmt.Sprintf("harness: setup: %v", err)
		return res
	}
	an, err := autonatv2.New(d.h, autonatv2.AllowPrivateAddrs, autonatv2.WithServerRateLimit(1000, 1000, 1000, 1000))
	if err != nil {
		d.close()
		res.harness = fmt.Sprintf("harness: setup: %v", err)
		return res
	}
	if err = an.Start(srv); err != nil {
		d.close()
		res.harness = fmt.Sprintf("harness: setup: %v", err)
		return res
	}
	defer func() {
		an.Close() // closes the dialer host
		d.close()
	}()
	handler := srv.handler(autonatv2.DialProtocol)
	if handler == nil {
		res.harness = "harness: the server did not register a handler for " + string(autonatv2.DialProtocol)
		return res
	}

	obs := fmt.Sprintf("/ip4/%s/tcp/4001", w.ips[0])
	if c.ObsQUIC {
		obs = fmt.Sprintf("/ip4/%s/udp/4001/quic-v1", w.ips[0])
	}
	cli, srvEnd := memnet.Pipe(memnet.Options{})
	w.srvEnd.Store(srvEnd)
	conn := &inConn{local: srvID.ID, remote: cliID.ID, raddr: ma.StringCast(obs), laddr: ma.StringCast("/ip4/127.0.0.1/tcp/4001"), id: "in0"}
	st := &pipeStream{c: srvEnd, conn: conn, id: "s0", proto: autonatv2.DialProtocol, dir: network.DirInbound}

	reqFrame := frame(marshalSockRequest(addrs, c.Nonce))
	res.reqWire = len(reqFrame)

	done := make(chan struct{})
	go func() {
		defer close(done)
		handler(st)
	}()
	cliDone := make(chan struct{})
	go func() {
		defer close(cliDone)
		defer cli.Close()
		if _, err := cli.Write(reqFrame); err != nil {
			return
		}
		rd := pbio.NewDelimitedReader(cli, 1<<20)
		for {
			var m pb.Message
			if err := rd.ReadMsg(&m); err != nil {
				return
			}
			if r := m.GetDialResponse(); r != nil {
				res.status = r.GetStatus().String() + "/" + r.GetDialStatus().String()
				return
			}
			dr := m.GetDialDataRequest()
			if dr == nil || res.sawDDR {
				continue
			}
			res.sawDDR, res.ddN = true, dr.GetNumBytes()
			n := int(min(dr.GetNumBytes(), 1<<20))
			switch c.DD {
			case sdRefuse:
				return
			case sdShort:
				n /= 2
			}
			var buf []byte
			for n > 0 {
				k := min(n, 4000)
				buf = wfFrame(buf[:0], k, 0x41)
				if _, err := cli.Write(buf); err != nil {
					return
				}
				n -= k
			}
			if c.DD == sdShort {
				return
			}
		}
	}()
	select {
	case <-done:
	case <-time.After(40 * time.Second):
		res.skipped = "handler-timeout"
		srvEnd.Reset()
		<-done
	}
	<-cliDone
	w.drain()
	w.mu.Lock()
	res.hits = append([]sockHit(nil), w.hits...)
	res.queries = append([]string(nil), w.queries...)
	w.mu.Unlock()
	return res
}

func marshalSockRequest(addrs [][]byte, nonce uint64) []byte {
	m := &pb.Message{Msg: &pb.Message_DialRequest{DialRequest: &pb.DialRequest{Addrs: addrs, Nonce: nonce}}}
	b, err := proto.Marshal(m)
	if err != nil {
		panic(err)
	}
	return b
}

func sortedInts(m map[int]bool) []int {
	out := make([]int, 0, len(m))
	for k := range m {
		out = append(out, k)
	}
	sort.Ints(out)
	return out
}

// judgeSock: every endpoint the dialer touched is named in the request; a foreign IP
// only after the dial data that was asked for had been consumed; one address at most.
func judgeSock(c *sockCase, r *sockResult) (violations []string, labels map[string]bool) {
	labels = map[string]bool{}
	distinct := map[string]bool{}
	for _, h := range r.hits {
		k := h.key()
		if distinct[k] {
			continue
		}
		distinct[k] = true
		labels["hit:"+h.Proto] = true
		if _, ok := r.requested[k]; !ok {
			violations = append(violations, fmt.Sprintf("the server's dialer opened %s, an endpoint that no address of the request names (request %v from %s)", k, r.strs, r.obsIP))
			continue
		}
		if h.IP != r.obsIP {
			labels["hit:foreign-ip"] = true
			if !r.sawDDR || h.Consumed < int64(r.reqWire)+int64(r.ddN) {
				violations = append(violations, fmt.Sprintf("the server's dialer opened %s (IP differs from the observed %s) when the server had consumed %d bytes: request %d + dial data asked %d (asked=%v)",
					k, r.obsIP, h.Consumed, r.reqWire, r.ddN, r.sawDDR))
			}
		} else {
			labels["hit:observed-ip"] = true
		}
	}
	if len(distinct) > 1 {
		violations = append(violations, fmt.Sprintf("the server's dialer opened %d different endpoints for one request: %v", len(distinct), sortedKeys(distinct)))
	}
	if len(distinct) == 0 {
		labels["hit:none"] = true
	}
	if len(r.queries) > 0 {
		labels["dns-query-seen"] = true
	}
	if r.sawDDR {
		labels["dial-data:"+sockDDNames[c.DD]] = true
	}
	if r.status != "" {
		labels["resp:"+r.status] = true
	} else {
		labels["resp:none"] = true
	}
	if e := c.firstDialable(); e != nil {
		labels["first-dialable:"+sockShapeNames[e.Shape]] = true
		port := "other"
		if e.Port == 443 || e.Port == 80 {
			port = fmt.Sprint(e.Port)
		}
		labels["first-dialable-port:"+port] = true
		labels["first-dialable-ip:"+[]string{"observed", "foreign"}[e.IP]] = true
		if e.Shape == shSNI {
			labels["sni-name:"+nameKindNames[e.NameKind]] = true
			if e.Port == 443 {
				labels["sni-name-at-443:"+nameKindNames[e.NameKind]] = true
			}
		}
		if (e.Shape == shWS && e.Port == 80) || (e.Shape >= shWSS && e.Shape <= shSNI && e.Port == 443) {
			labels["first-dialable-at-scheme-default-port"] = true
		}
	} else {
		labels["first-dialable:none"] = true
	}
	return violations, labels
}

func TestDialBackSockets(t *testing.T) {
	name := t.Name()
	// is the loopback block usable at all? (needs the right to bind port 443)
	probe := &sockWorld{}
	probe.pickIPs(0)
	if err := probe.listenTCP(probe.ips[0], 443); err != nil {
		probe.drain()
		stats.Case(name, "unusable", false, "skipped:cannot-bind-loopback-443")
		t.Skipf("inconclusive: cannot bind %s:443: %v", probe.ips[0], err)
	}
	// do the names of a case resolve the way the generator says? (self-check of the harness)
	probe.names = map[string]net.IP{"there.c16.test.": probe.ips[2]}
	if err := probe.serveDNS(); err != nil {
		probe.drain()
		stats.Case(name, "unusable", false, "skipped:cannot-bind-loopback-udp")
		t.Skipf("inconclusive: %v", err)
	}
	restore := probe.installResolver()
	got, err1 := net.ResolveTCPAddr("tcp", "there.c16.test:443")
	_, err2 := net.ResolveTCPAddr("tcp", "nx.c16.test:443")
	restore()
	probe.drain()
	if err1 != nil || !got.IP.Equal(probe.ips[2]) || err2 == nil {
		t.Fatalf("harness: the in-process DNS server is not what the resolver uses: there.c16.test -> %v (%v), want %v; nx.c16.test resolves: %v", got, err1, probe.ips[2], err2 == nil)
	}

	hx.Check(t, 128, 2400, 0, func(rt *rapid.T) {
		c := drawSockCase(rt)
		r := runSockCase(c)
		if r.harness != "" {
			rt.Fatalf("%s", r.harness)
		}
		if r.skipped != "" {
			stats.Case(name, c.fingerprint(), false, "skipped:"+r.skipped)
			return
		}
		violations, labels := judgeSock(c, r)
		ls := sortedKeys(labels)
		stats.Case(name, c.fingerprint(), len(r.hits) > 0, ls...)
		if stats.WantSample(name) {
			stats.Sample(name, map[string]any{"observed": r.obsIP, "request": r.strs, "dialData": sockDDNames[c.DD], "hits": fmt.Sprint(r.hits), "labels": ls})
		}
		if len(violations) > 0 {
			rt.Fatalf("C16 violated (real dialer sockets):\n  - %s", strings.Join(violations, "\n  - "))
		}
	})
}
