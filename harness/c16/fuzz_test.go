package c16

// Native fuzz target: bytes -> (request message, dial-data program). The request body
// is raw (any bytes; parsed by the harness with the same protobuf codec to learn which
// addresses it names), the dial-data stream is a small program relative to the amount
// the server asks for (which is random per run, so absolute byte strings could never
// hit it). The amplification oracle of the property tests judges the history; address
// classes come from manet.IsPublicAddr (trusted) and a pure CanDial function.

import (
	"bytes"
	"net"
	"testing"
	"testing/synctest"
	"time"

	"github.com/libp2p/go-libp2p/p2p/protocol/autonatv2/pb"
	ma "github.com/multiformats/go-multiaddr"
	manet "github.com/multiformats/go-multiaddr/net"
	"google.golang.org/protobuf/proto"

	"verif/internal/keys"
)

func checkFrame(t *testing.T, d int) {
	t.Helper()
	data := bytes.Repeat([]byte{0x41}, d)
	b, err := proto.Marshal(&pb.Message{Msg: &pb.Message_DialDataResponse{DialDataResponse: &pb.DialDataResponse{Data: data}}})
	if err != nil {
		t.Fatal(err)
	}
	if got, want := wfFrame(nil, d, 0x41), frame(b); !bytes.Equal(got, want) {
		t.Fatalf("wfFrame(%d) = %x..., protobuf encoder gives %x...", d, got[:min(8, len(got))], want[:min(8, len(want))])
	}
}

// firstIP is the IP literal a multiaddr starts with (nil if none).
func firstIP(m ma.Multiaddr) net.IP {
	var ip net.IP
	ma.ForEach(m, func(c ma.Component) bool {
		switch c.Protocol().Code {
		case ma.P_IP6ZONE:
			return true
		case ma.P_IP4, ma.P_IP6:
			ip = net.IP(c.RawValue())
		}
		return false
	})
	return ip
}

// fuzzCanDial: the dialer supports a subset of transport features.
func fuzzCanDial(mask uint32, m ma.Multiaddr) bool {
	base, ok := false, true
	ma.ForEach(m, func(c ma.Component) bool {
		f := -1
		switch c.Protocol().Code {
		case ma.P_TCP:
			f, base = 0, true
		case ma.P_UDP:
			f, base = 1, true
		case ma.P_QUIC_V1:
			f = 2
		case ma.P_WS, ma.P_WSS:
			f = 3
		case ma.P_WEBTRANSPORT:
			f = 4
		case ma.P_WEBRTC_DIRECT:
			f = 5
		case ma.P_CIRCUIT:
			f = 6
		}
		if f >= 0 && mask&(1<<f) == 0 {
			ok = false
		}
		return true
	})
	return base && ok
}

// rawEntries classifies the addresses a raw request body names.
func rawEntries(body []byte, mask uint32) ([]entry, bool) {
	var m pb.Message
	if err := proto.Unmarshal(body, &m); err != nil || m.GetDialRequest() == nil {
		return nil, false
	}
	var es []entry
	for _, ab := range m.GetDialRequest().GetAddrs() {
		e := entry{Bytes: ab, Class: clMalformed}
		if a, err := ma.NewMultiaddrBytes(ab); err == nil {
			e.Bytes = a.Bytes() // identical up to the multiaddr codec's own canonical form
			e.Str = a.String()
			e.Public = manet.IsPublicAddr(a)
			e.Dialable = fuzzCanDial(mask, a)
			e.IP = firstIP(a)
			e.Class = clPrivate
			if e.Public {
				e.Class = clPubForeign
			}
		}
		es = append(es, e)
	}
	return es, true
}

func progByte(p []byte, i int) int {
	if i < len(p) {
		return int(p[i])
	}
	return 0
}

// decodeDD turns program bytes into a dial-data behaviour.
func decodeDD(p []byte) ddSpec {
	d := ddSpec{Kind: progByte(p, 0) % (nDD + 1)}
	d.Chunks = chunkMenus[progByte(p, 1)%len(chunkMenus)]
	d.K = shortfalls[progByte(p, 2)%len(shortfalls)]
	d.Frac = progByte(p, 3) % 151
	d.Dev = progByte(p, 4)<<8 | progByte(p, 5)
	d.End = progByte(p, 6) % 4
	switch d.Kind {
	case ddSlow:
		d.Gap = []time.Duration{100 * time.Millisecond, time.Second, 2 * time.Second}[progByte(p, 7)%3]
		d.Chunks = []int{4000}
	case ddOversize:
		d.Frac %= 101
		d.Dev = 8193 + d.Dev%12000
	case ddGarbageFramed:
		d.Dev = 100 + d.Dev%8093
	case ddGarbageRaw, ddEarlyClose:
		d.Frac %= 100
		d.Dev %= 6000
	case ddTiny:
		d.Chunks = []int{150, 1 + progByte(p, 7)%200, 120}
	case nDD: // explicit script: (op, hi, lo) triples, then fill up to n-K
		for i := 7; i+2 < len(p) && len(d.Script) < 48; i += 3 {
			sz := (int(p[i+1])<<8 | int(p[i+2])) % 20000
			switch p[i] % 4 {
			case 0:
				d.Script = append(d.Script, ddOp{Kind: opWF, Size: sz % (maxData + 1)})
			case 1:
				d.Script = append(d.Script, ddOp{Kind: opFramed, Size: sz, Fill: p[i]})
			case 2:
				d.Script = append(d.Script, ddOp{Kind: opRaw, Size: sz % 4000, Fill: p[i]})
			default:
				d.Script = append(d.Script, ddOp{Kind: opSleep, Delay: time.Duration(sz) * time.Millisecond})
			}
		}
	}
	return d
}

func fuzzScenario(body, prog []byte, ctl uint32) *scenario {
	mask := (ctl >> 2) & 0x7f
	obs := mkObserved(int(ctl&3), 0, 0, int(ctl>>9)&3, int(ctl>>11)&1)
	sc := &scenario{Limits: limits{1000, 1000, 1000, 1000}, Raw: true,
		Peers:   []peerInfo{{ID: keys.Ed(200).ID, Conns: []obsAddr{obs}}},
		CanDial: func(a ma.Multiaddr) bool { return fuzzCanDial(mask, a) },
	}
	r := &reqSpec{ID: 0, Kind: bodyRequest, Frame: frame(body), Profile: "fuzz"}
	es, ok := rawEntries(body, mask)
	if ok {
		// an address that occurs twice is one address
		r.Entries = es
	} else {
		r.Kind = bodyGarbage
	}
	r.DD = decodeDD(prog)
	r.DialBack = dbScript{Connect: int(ctl>>12) % 4, Delay: delays[int(ctl>>14)%len(delays)], Stream: int(ctl>>18) % 5}
	if ctl>>21&7 == 7 {
		r.Eager = fill(int(ctl>>24)*600, []int{4000})
	}
	if ctl>>21&7 == 6 {
		r.SplitAt = 1 + int(ctl>>24)%max(1, len(r.Frame)-1)
		if r.SplitAt >= len(r.Frame) {
			r.SplitAt = 0
		}
		r.SplitDelay = time.Second
	}
	sc.Reqs = []*reqSpec{r}
	return sc
}

func FuzzServerDialRequest(f *testing.F) {
	self := keys.Ed(200).ID
	var all [nTransports]bool
	for i := range all {
		all[i] = true
	}
	for ok := 0; ok < 4; ok++ {
		obs := mkObserved(ok, 0, 0, 0, 0)
		mk := func(cls ...addrClass) []byte {
			var es []entry
			for i, c := range cls {
				es = append(es, mkEntry(c, 0, i, i%nTransports, i, obs, self, all))
			}
			return marshalRequest(es, 42)
		}
		ctl := uint32(ok) | 0x7f<<2
		for kind := 0; kind <= nDD; kind++ {
			f.Add(mk(clPubForeign), []byte{byte(kind), 0, 0, 50, 1, 0, 0, 1, 0, 15, 160, 0, 15, 160, 1, 0, 200}, ctl|2<<12)
		}
		f.Add(mk(clPubSame), []byte{0}, ctl|2<<12)
		f.Add(mk(clPrivate, clLoopback, clMalformed, clPubForeign, clPubSame), []byte{2, 6, 0}, ctl)
		f.Add(mk(clDNSPublic, clPubSame), []byte{2, 7, 1}, ctl|2<<12|7<<21|60<<24)
		f.Add(mk(clDNSPrivate, clUnroutable), []byte{0}, ctl)
		f.Add(mk(clPubSame, clPubForeign), []byte{0}, uint32(ok)|1<<2) // tcp only
		f.Add(mk(), []byte{0}, ctl)
	}
	f.Add([]byte{0x07, 0x01}, []byte{0}, uint32(0))
	f.Add([]byte{}, []byte{}, uint32(0))
	f.Fuzz(func(t *testing.T, body, prog []byte, ctl uint32) {
		if len(body) > 12000 || len(prog) > 200 {
			t.Skip()
		}
		sc := fuzzScenario(body, prog, ctl)
		var v *verdict
		synctest.Test(t, func(t *testing.T) {
			res := runScenario(sc, t.Fatalf)
			v = judge(sc, res)
		})
		if v != nil && len(v.violations) > 0 {
			t.Fatalf("C16 violated: %v", v.violations)
		}
	})
}
