// Package c16 checks property C16: the AutoNAT v2 server cannot be used for
// amplification and obeys its rate limits.
package c16

import (
	"fmt"
	"sort"
	"testing"
	"time"

	ma "github.com/multiformats/go-multiaddr"
	manet "github.com/multiformats/go-multiaddr/net"
	"pgregory.net/rapid"

	"verif/internal/hx"
	"verif/internal/keys"
	"verif/internal/stats"
)

func TestMain(m *testing.M) {
	stats.Describe("exploration",
		"The real server (autonatv2.New(dialerHost, WithServerRateLimit(..)) + Start(host)) runs in a synctest bubble between two fake hosts; the harness plays "+
			"every requesting peer byte for byte on in-memory streams and records every call that puts an address in front of the dialer "+
			"(Peerstore().AddAddr*, Connect, NewStream, DialPeer) with the request stream's byte counters at that instant. "+
			"TestAmplification: 1-4 requests with 0..60 addresses (public same-IP / public foreign-IP / public DNS / private / loopback / unroutable / private DNS / malformed, "+
			"x 7 transports x generated CanDial mask), malformed / wrong-type / partial / late request bodies, 11 dial-data behaviours. "+
			"TestRateLimits: 3..28 requests of 1..5 peers over several virtual minutes (bursts, trickles, arrivals aligned to 60 s after an earlier one +-1 ns), small generated limits. "+
			"TestPeerConcurrency: 1..3 episodes of 3..9 requests of ONE peer (now and then interleaved with another peer's) 0 ns..3 s apart, most of them needing dial data or long-lived "+
			"(client sits on its stream, dial-back hangs or takes seconds, slow dial data), against a concurrency limit of 1..4 combined with a second tight limit "+
			"(dial-data window 0..2 / per-peer window / global window / all / none): requests of a peer are turned away at every stage of the limiter while others of its requests are in flight "+
			"and more of its requests follow (labels inflight-rejection:*). "+
			"TestDialBackSockets (real time, real loopback sockets, no bubble; few cases): the server's dialer host is the real swarm with the real TCP, QUIC and WebSocket transports; "+
			"one request of 1..4 addresses drawn over dial-back address shapes (tcp, quic-v1, ws, wss, tls/ws, tls/sni/<name>/ws, shapes no transport speaks, malformed bytes) x "+
			"IP (the observed one / a foreign one) x ports (443, 80 = the scheme defaults, others) x what the /sni name stands for (literal of another IP, DNS name resolving to another IP of the case / "+
			"to the same IP / not at all; names resolve at an in-process DNS server) x 3 dial-data behaviours; TCP accept loops on every IP of the case (observed, foreign, the IPs names point to) x "+
			"(TCP ports of the request + 80 + 443) and a recorder on the dialer's UDP sockets report every endpoint the dialer touches; each must be an (IP, port) named in the request, a foreign IP only after "+
			"the dial data asked for was consumed, one endpoint per request at most (non-trivial there = the dialer opened at least one socket). "+
			"Non-trivial = the server asked for dial data (a foreign-IP / DNS address was selected) or a request was rejected by a limit; "+
			"distinct = distinct structured scenario (limits, CanDial mask, observed addresses, per request: arrival, class/transport vector, body kind, write timing, dial-data behaviour, dial-back script).",
		"address classes are fixed by construction of the templates; TestTemplateClasses cross-checks them against manet.IsPublicAddr (trusted definition of 'public')",
		"'accepted' = delivered to the handler and not answered with E_REQUEST_REJECTED (requests rejected by the dial-data limiter after being read are not counted against the global/per-peer windows: upper bounds only)",
		"'bytes of dial data' = Data bytes of well-formed DialDataResponse messages; bytes of anything else the client sends (garbage, misaligned streams after an unsolicited pre-send) are credited in full",
		"a DNS dial-back address has no IP that could equal the observed one: dial data is required for it",
		"the server's random pre-dial wait and requested byte count come from its own math/rand source; verdicts do not depend on them",
		"TestDialBackSockets: IPv4 loopback only (each shard and case its own block of 127.0.0.0/8; the server runs with AllowPrivateAddrs, so 'public' is not exercised there); TCP connections are seen only at the "+
			"listening endpoints (every IP of the case x requested ports + 80 + 443), UDP datagrams at the dialer's socket (all destinations); a socket that cannot be bound or a handler that needs more than "+
			"40 s of real time makes the case inconclusive (label skipped:*), never a violation",
	)
	hx.Main(m)
}

// runCase executes one scenario in a bubble, judges it and records coverage.
func runCase(t *testing.T, rt *rapid.T, name string, sc *scenario, genLabels ...string) {
	var v *verdict
	hx.Bubble(t, rt, func() {
		res := runScenario(sc, rt.Fatalf)
		v = judge(sc, res)
	})
	if v == nil {
		return
	}
	for _, l := range genLabels {
		v.labels[l] = true
	}
	labels := sortedKeys(v.labels)
	stats.Case(name, sc.fingerprint(), v.nontrivial, labels...)
	if stats.WantSample(name) {
		var reqs []any
		for i, r := range sc.Reqs {
			if i >= 6 {
				reqs = append(reqs, fmt.Sprintf("...+%d more", len(sc.Reqs)-i))
				break
			}
			reqs = append(reqs, r.describe(sc))
		}
		stats.Sample(name, map[string]any{"limits": fmt.Sprintf("%+v", sc.Limits), "requests": reqs, "observed": labels})
	}
	if len(v.violations) > 0 {
		msg := ""
		for _, s := range v.violations {
			msg += "\n  - " + s
		}
		rt.Fatalf("C16 violated (limits %+v):%s", sc.Limits, msg)
	}
}

func drawLimits(rt *rapid.T, generous bool) limits {
	if generous {
		return limits{1000, 1000, 1000, 1000}
	}
	l := limits{
		RPM:      rapid.IntRange(0, 10).Draw(rt, "rpm"),
		PerPeer:  rapid.IntRange(0, 6).Draw(rt, "perPeer"),
		DialData: rapid.IntRange(0, 4).Draw(rt, "dialDataRPM"),
		MaxConc:  rapid.IntRange(0, 4).Draw(rt, "maxConc"),
	}
	// let one limit be the binding one in most cases
	switch rapid.IntRange(0, 6).Draw(rt, "focus") {
	case 0:
		l.RPM, l.PerPeer, l.DialData, l.MaxConc = max(1, l.RPM%5), 100, 100, 100
	case 1:
		l.RPM, l.PerPeer, l.DialData, l.MaxConc = 100, max(1, l.PerPeer%4), 100, 100
	case 2:
		l.RPM, l.PerPeer, l.DialData, l.MaxConc = 100, 100, max(1, l.DialData), 100
	case 3:
		l.RPM, l.PerPeer, l.DialData, l.MaxConc = 100, 100, 100, max(1, l.MaxConc)
	}
	return l
}

// TestAmplification: few requests, rich address lists and client behaviours.
func TestAmplification(t *testing.T) {
	name := t.Name()
	hx.Check(t, 14000, 640000, 0, func(rt *rapid.T) {
		sc := &scenario{}
		sc.Limits = drawLimits(rt, rapid.IntRange(0, 5).Draw(rt, "tight") != 0)
		sc.Mask = drawMask(rt)
		sc.Peers = drawPeers(rt, 3)
		n := []int{1, 1, 1, 2, 2, 3, 4}[rapid.IntRange(0, 6).Draw(rt, "nreqs")]
		at := time.Duration(0)
		for i := 0; i < n; i++ {
			pi := rapid.IntRange(0, len(sc.Peers)-1).Draw(rt, "peer")
			if i > 0 && rapid.Bool().Draw(rt, "samePeer") {
				pi = sc.Reqs[i-1].Peer
			}
			r := drawRequest(rt, i, sc.Peers, pi, sc.Mask)
			if i > 0 {
				at += []time.Duration{0, 0, time.Millisecond, time.Second, 5 * time.Second, 20 * time.Second}[rapid.IntRange(0, 5).Draw(rt, "gap")]
			}
			r.At = at
			r.Settle = rapid.Bool().Draw(rt, "settle")
			sc.Reqs = append(sc.Reqs, r)
		}
		runCase(t, rt, name, sc)
	})
}

// TestRateLimits: arrival patterns against small limits.
func TestRateLimits(t *testing.T) {
	name := t.Name()
	hx.Check(t, 7000, 320000, 0, func(rt *rapid.T) {
		sc := &scenario{}
		sc.Limits = drawLimits(rt, false)
		sc.Mask = drawMask(rt)
		sc.Peers = drawPeers(rt, 5)
		n := rapid.IntRange(3, 28).Draw(rt, "nreqs")
		at := time.Duration(0)
		var times []time.Duration
		for i := 0; i < n; i++ {
			pi := rapid.IntRange(0, len(sc.Peers)-1).Draw(rt, "peer")
			if i > 0 && rapid.IntRange(0, 2).Draw(rt, "samePeer") != 0 {
				pi = sc.Reqs[i-1].Peer
			}
			r := drawLightRequest(rt, i, sc.Peers, pi, sc.Mask)
			if i > 0 {
				switch rapid.IntRange(0, 9).Draw(rt, "gapKind") {
				case 0, 1, 2: // burst
				case 3:
					at += time.Nanosecond
				case 4:
					at += time.Millisecond
				case 5:
					at += time.Duration(rapid.IntRange(1, 20000).Draw(rt, "gapMs")) * time.Millisecond
				case 6:
					at += time.Duration(rapid.IntRange(20, 59).Draw(rt, "gapS")) * time.Second
				case 7:
					at += window
				default:
					// just before / at / just after one minute past an earlier arrival
					k := rapid.IntRange(0, len(times)-1).Draw(rt, "alignTo")
					delta := []time.Duration{-time.Second, -time.Millisecond, -time.Nanosecond, 0, 0, time.Nanosecond, time.Millisecond}[rapid.IntRange(0, 6).Draw(rt, "alignDelta")]
					if x := times[k] + window + delta; x > at {
						at = x
					}
				}
			}
			r.At = at
			r.Settle = rapid.IntRange(0, 2).Draw(rt, "settle") != 0
			times = append(times, at)
			sc.Reqs = append(sc.Reqs, r)
		}
		runCase(t, rt, name, sc)
	})
}

// TestPeerConcurrency: episodes of concurrent requests of one peer against a small
// concurrency limit while a second limit is exhausted (see episode_test.go).
func TestPeerConcurrency(t *testing.T) {
	name := t.Name()
	hx.Check(t, 6000, 240000, 0, func(rt *rapid.T) {
		sc := &scenario{}
		var sec int
		sc.Limits, sec = drawEpisodeLimits(rt)
		sc.Mask = drawMask(rt)
		sc.Peers = drawPeers(rt, 3)
		drawEpisodes(rt, sc)
		runCase(t, rt, name, sc, "gen:second-limit:"+secondNames[sec])
	})
}

// TestTemplateClasses: the classes the oracle relies on (by construction) agree with
// the library's classification for every template (all classes x variants x
// transports x observed kinds), every template parses, and serial numbers keep the
// addresses of different requests apart. A failure here is a harness defect.
func TestTemplateClasses(t *testing.T) {
	hx.Shard0(t)
	var mask [nTransports]bool
	for i := range mask {
		mask[i] = i%2 == 0
	}
	self := keys.Ed(200).ID
	seen := map[string]string{}
	for ok := 0; ok < 4; ok++ {
		obs := mkObserved(ok, 1, 0, ok, ok)
		if obs.Public != manet.IsPublicAddr(obs.Addr) {
			t.Fatalf("observed %s: public=%v by construction, manet says %v", obs.Addr, obs.Public, manet.IsPublicAddr(obs.Addr))
		}
		if ip, err := manet.ToIP(obs.Addr); err != nil || !ip.Equal(obs.netIP()) {
			t.Fatalf("observed %s: IP %v by construction, manet says %v %v", obs.Addr, obs.netIP(), ip, err)
		}
		for cl := addrClass(0); cl < nClasses; cl++ {
			for v := 0; v < 64; v++ {
				for tr := 0; tr < nTransports; tr++ {
					for _, serial := range []int{0, 1, 27} {
						e := mkEntry(cl, serial, v, tr, v, obs, self, mask)
						m, err := ma.NewMultiaddrBytes(e.Bytes)
						if e.Class == clMalformed {
							if err == nil {
								t.Fatalf("malformed template %x parses as %s", e.Bytes, m)
							}
							continue
						}
						if err != nil {
							t.Fatalf("template %s: %v", e.Str, err)
						}
						if got := manet.IsPublicAddr(m); got != e.Public {
							t.Fatalf("template %s (class %s): public=%v by construction, manet.IsPublicAddr=%v", e.Str, e.Class, e.Public, got)
						}
						ip, err := manet.ToIP(m)
						if (err != nil) != (e.IP == nil) || (err == nil && !ip.Equal(e.IP)) {
							t.Fatalf("template %s: IP %v by construction, manet.ToIP=%v %v", e.Str, e.IP, ip, err)
						}
						if e.Class == clPubSame && !e.IP.Equal(obs.netIP()) {
							t.Fatalf("template %s: same-IP class with another IP than %v", e.Str, obs.netIP())
						}
						if e.Class == clPubForeign && e.IP.Equal(obs.netIP()) {
							t.Fatalf("template %s: foreign class with the observed IP", e.Str)
						}
						if e.Dialable != mask[tr] && tr != 5 {
							t.Fatalf("template %s: dialable flag", e.Str)
						}
						key := fmt.Sprintf("%d", serial)
						if prev, dup := seen[string(e.Bytes)]; dup && prev != key {
							t.Fatalf("template %s occurs for %s and %s", e.Str, prev, key)
						}
						seen[string(e.Bytes)] = key
					}
				}
			}
		}
	}
	// the framing helper agrees with the protobuf encoder
	for _, d := range []int{0, 1, 99, 100, 123, 124, 125, 126, 127, 128, 129, 130, 4000, maxData} {
		checkFrame(t, d)
	}
	stats.CaseEnumerated(t.Name(), false, "self-check")
	_ = sort.Strings
}
