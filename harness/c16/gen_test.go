package c16

// Scenario types and generators. Every address template carries its class (public /
// dialable / IP literal) by construction; TestTemplateClasses cross-checks the table
// against manet.IsPublicAddr once, so a disagreement surfaces as a harness failure and
// not as a silent shift of the oracle.

import (
	"encoding/binary"
	"fmt"
	"net"
	"sort"
	"strings"
	"time"

	"github.com/libp2p/go-libp2p/core/peer"
	"github.com/libp2p/go-libp2p/p2p/protocol/autonatv2/pb"
	ma "github.com/multiformats/go-multiaddr"
	"google.golang.org/protobuf/proto"
	"pgregory.net/rapid"

	"verif/internal/keys"
)

type addrClass int

const (
	clPubSame    addrClass = iota // public IP literal equal to the observed IP
	clPubForeign                  // public IP literal different from the observed IP
	clDNSPublic                   // public DNS name: no IP literal at all
	clPrivate
	clLoopback
	clUnroutable
	clDNSPrivate
	clMalformed
	nClasses
)

var classNames = [...]string{"pubSame", "pubForeign", "dnsPub", "private", "loopback", "unroutable", "dnsPriv", "malformed"}

func (c addrClass) String() string { return classNames[c] }

// entry is one element of DialRequest.addrs.
type entry struct {
	Bytes    []byte
	Str      string
	Class    addrClass
	Tr       int
	Public   bool   // by construction
	Dialable bool   // the dialer's CanDial answer, by construction
	IP       net.IP // IP literal of the address; nil = none (DNS, malformed)
}

func (e *entry) eligible() bool { return e.Public && e.Dialable }

// needsData: dialling this entry for a request observed from obsIP requires dial data.
func (e *entry) needsData(obsIP net.IP) bool {
	return e.IP == nil || obsIP == nil || !e.IP.Equal(obsIP)
}

const nTransports = 7

var transportNames = [nTransports]string{"tcp", "quic", "ws", "webtransport", "webrtc-direct", "tcp+p2p", "circuit"}

func transportSuffix(tr, port int, self peer.ID) string {
	switch tr {
	case 0:
		return fmt.Sprintf("/tcp/%d", port)
	case 1:
		return fmt.Sprintf("/udp/%d/quic-v1", port)
	case 2:
		return fmt.Sprintf("/tcp/%d/ws", port)
	case 3:
		return fmt.Sprintf("/udp/%d/quic-v1/webtransport", port)
	case 4:
		return fmt.Sprintf("/udp/%d/webrtc-direct", port)
	case 5:
		return fmt.Sprintf("/tcp/%d/p2p/%s", port, self)
	default:
		return fmt.Sprintf("/tcp/%d/p2p/%s/p2p-circuit", port, keys.Ed(90).ID)
	}
}

var commonPorts = []int{4001, 443, 1234}

func uniquePort(serial, v int) int { return 10000 + (serial%400)*64 + v%64 }

// hostPart returns the leading component(s) of a template address: (text, IP literal,
// class actually produced, needs a per-request unique port).
func hostPart(class addrClass, serial, v int, obs obsAddr) (string, net.IP, addrClass, bool) {
	S, V := serial%250, v%250
	ip4 := func(a, b, c, d int) (string, net.IP, bool) {
		ip := net.IPv4(byte(a), byte(b), byte(c), byte(d)).To4()
		return "/ip4/" + ip.String(), ip, false
	}
	ip6 := func(s string) (string, net.IP, bool) {
		ip := net.ParseIP(s)
		return "/ip6/" + s, ip, false
	}
	var (
		txt string
		ip  net.IP
		up  bool
	)
	switch class {
	case clPubSame:
		ip = net.IP(obs.IP)
		if ip.To4() != nil {
			txt = "/ip4/" + ip.String()
		} else {
			txt = "/ip6/" + ip.String()
		}
		up = true
		if !obs.Public {
			class = clPrivate
		}
	case clPubForeign:
		k := v % 7
		if k >= 4 && (!obs.Public || (k == 6 && net.IP(obs.IP).To4() == nil)) {
			k -= 4
		}
		near := func(i int) (string, net.IP, bool) {
			o := append(net.IP(nil), obs.IP...)
			o[i] ^= 1
			if o.To4() != nil {
				return "/ip4/" + o.String(), o, true
			}
			return "/ip6/" + o.String(), o, true
		}
		switch k {
		case 0:
			txt, ip, up = ip4(11, S, V, 7)
		case 1:
			txt, ip, up = ip6(fmt.Sprintf("2600:%x::%x:7", S+1, V+1))
		case 2:
			txt, ip, up = ip4(13, S, V, 9)
		case 3:
			txt, ip, up = ip6(fmt.Sprintf("64:ff9b::%x:%x", 0x0d00+S, 0x100+V)) // NAT64 of a public IPv4
		case 4: // the observed IP's neighbour: only the last bit differs
			txt, ip, up = near(len(obs.IP) - 1)
		case 5: // differs from the observed IP near the front only
			txt, ip, up = near(1)
		default: // the observed IPv4 address wrapped in the NAT64 prefix: another IP
			o := net.IP(obs.IP).To4()
			txt, ip, _ = ip6(fmt.Sprintf("64:ff9b::%x:%x", int(o[0])<<8|int(o[1]), int(o[2])<<8|int(o[3])))
			up = true
		}
	case clDNSPublic:
		txt = fmt.Sprintf("/%s/h%d-%d.example.com", []string{"dns4", "dns6", "dns", "dnsaddr"}[v%4], serial, v)
	case clPrivate:
		switch v % 8 {
		case 0:
			txt, ip, up = ip4(10, S, V, 1)
		case 1:
			txt, ip, up = ip4(192, 168, S, V)
		case 2:
			txt, ip, up = ip4(172, 16, S, V)
		case 3:
			txt, ip, up = ip4(100, 64, S, V)
		case 4:
			txt, ip, up = ip4(169, 254, S, V)
		case 5:
			txt, ip, up = ip6(fmt.Sprintf("fd00::%x:%x", S+1, V+1))
		case 6:
			txt, ip, up = ip6(fmt.Sprintf("fe80::%x:%x", S+1, V+1))
		default:
			s := fmt.Sprintf("fe80::%x:%x:1", S+1, V+1)
			txt, ip = "/ip6zone/eth0/ip6/"+s, net.ParseIP(s)
		}
	case clLoopback:
		switch v % 3 {
		case 0:
			txt, ip, _ = ip4(127, 0, 0, 1)
			up = true
		case 1:
			txt, ip, _ = ip6("::1")
			up = true
		default:
			txt, ip, up = ip4(127, S, V, 1)
		}
	case clUnroutable:
		switch v % 9 {
		case 0:
			txt, ip, up = ip4(0, S, V, 1)
		case 1:
			txt, ip, _ = ip4(192, 0, 2, V)
			up = true
		case 2:
			txt, ip, _ = ip4(198, 51, 100, V)
			up = true
		case 3:
			txt, ip, _ = ip4(203, 0, 113, V)
			up = true
		case 4:
			txt, ip, up = ip4(224, S, V, 1)
		case 5:
			txt, ip, up = ip4(240, S, V, 1)
		case 6:
			txt, ip, up = ip6(fmt.Sprintf("2001:db8:%x::%x", S+1, V+1))
		case 7:
			txt, ip, up = ip6(fmt.Sprintf("ff02::%x:%x", S+1, V+1))
		default:
			txt, ip, up = ip6(fmt.Sprintf("::ffff:11.%d.%d.7", S, V)) // v4-mapped: not a public ip6 address
		}
	case clDNSPrivate:
		sfx := []string{".local", ".localhost", ".invalid", ".test", ".home.arpa"}
		if v%6 == 5 {
			txt, up = "/dns/localhost", true
		} else {
			txt = fmt.Sprintf("/%s/h%d-%d%s", []string{"dns4", "dns6", "dns"}[v%3], serial, v, sfx[v%6])
		}
	}
	return txt, ip, class, up
}

// mkEntry builds one template entry. mask = the dialer's supported transports.
func mkEntry(class addrClass, serial, v, tr, portSel int, obs obsAddr, self peer.ID, mask [nTransports]bool) entry {
	if class == clMalformed {
		return mkMalformed(serial, v)
	}
	host, ip, cls, up := hostPart(class, serial, v, obs)
	port := commonPorts[portSel%len(commonPorts)]
	if portSel%4 == 3 {
		port = obs.Port
	}
	if up {
		port = uniquePort(serial, v)
	}
	s := host + transportSuffix(tr, port, self)
	m, err := ma.NewMultiaddr(s)
	if err != nil {
		panic(fmt.Sprintf("c16 harness: template %q does not parse: %v", s, err))
	}
	dialable := mask[tr]
	if tr == 5 {
		dialable = mask[0] // /tcp/N/p2p/<requester> is the same address as /tcp/N
	}
	return entry{
		Bytes: m.Bytes(), Str: s, Class: cls, Tr: tr,
		Public:   cls == clPubSame || cls == clPubForeign || cls == clDNSPublic,
		Dialable: dialable, IP: ip,
	}
}

func mkMalformed(serial, v int) entry {
	valid := ma.StringCast(fmt.Sprintf("/ip4/11.%d.%d.7/tcp/4001", serial%250, v%250)).Bytes()
	var b []byte
	switch v % 6 {
	case 0:
		b = []byte{}
	case 1:
		b = valid[:len(valid)-1] // port cut short
	case 2:
		b = append([]byte{0xe7, 0x07}, valid...) // protocol code 999 does not exist
	case 3:
		b = append(append([]byte{}, valid...), 0x00) // trailing protocol code 0
	case 4:
		b = []byte{0xff, 0xff, 0xff, byte(serial), byte(v)}
	default:
		b = valid[:3] // ip4 value cut short
	}
	if _, err := ma.NewMultiaddrBytes(b); err == nil {
		b = []byte{}
	}
	return entry{Bytes: b, Str: fmt.Sprintf("malformed:%x", b), Class: clMalformed}
}

// ---------------------------------------------------------------------------
// dial-data behaviour of the client

const (
	ddExact = iota
	ddOver
	ddShort
	ddDribble // only messages of 100..200 bytes, complete
	ddTiny    // messages of 1..200 bytes
	ddOversize
	ddGarbageFramed
	ddGarbageRaw
	ddEarlyClose
	ddSilence
	ddSlow
	nDD
)

var ddNames = [...]string{"exact", "over", "short", "dribble", "tiny", "oversize", "garbageFramed", "garbageRaw", "earlyClose", "silence", "slow", "script"}

const (
	endKeep = iota // keep the stream open and wait for the server
	endCloseWrite
	endReset
	endClose
)

type ddSpec struct {
	Kind    int
	Chunks  []int         // data bytes per message, used cyclically
	K       int           // shortfall (short) / excess (over)
	Frac    int           // percent of n at which the deviation happens
	Dev     int           // size of the deviating message
	End     int           // what the client does after its last write
	Gap     time.Duration // pause between messages (slow)
	Frag    int           // > 0: every write is cut into pieces of Frag bytes the server sees one by one
	CutLast bool          // short: the shortfall is the missing tail of the last message
	Script  []ddOp        // kind nDD (fuzz only): explicit writes, then well-formed messages up to Frac% of n
}

const (
	opWF     = iota // well-formed DialDataResponse with Size data bytes
	opFramed        // length-prefixed message with Size arbitrary body bytes
	opRaw           // Size raw bytes without framing
	opSleep
	opWFCut // well-formed message with Size data bytes of which the last Cut are never written
)

type ddOp struct {
	Kind  int
	Size  int
	Cut   int
	Fill  byte
	Delay time.Duration
}

const maxData = 8186 // largest Data that still fits a maxMsgSize (8192) message

// fill cuts total data bytes into messages following the cyclic chunk menu. A last
// remainder below 100 bytes is merged into its predecessor so that a stream that is
// "short by k" otherwise looks exactly like a legitimate one.
func fill(total int, menu []int) []int {
	var out []int
	for i := 0; total > 0; i++ {
		c := menu[i%len(menu)]
		if c > total {
			c = total
		}
		out = append(out, c)
		total -= c
	}
	if n := len(out); n >= 2 && out[n-1] < 100 {
		sum := out[n-2] + out[n-1]
		if sum <= maxData {
			out = append(out[:n-2], sum)
		} else {
			out[n-2], out[n-1] = sum/2, sum-sum/2
		}
	}
	return out
}

// plan turns the behaviour into concrete writes once the requested amount n is known.
func (d ddSpec) plan(n int) []ddOp {
	if n > 200_000 { // a server asking for absurd amounts is not obeyed beyond this
		n = 200_000
	}
	var ops []ddOp
	wf := func(sizes []int) {
		for _, s := range sizes {
			ops = append(ops, ddOp{Kind: opWF, Size: s})
			if d.Gap > 0 {
				ops = append(ops, ddOp{Kind: opSleep, Delay: d.Gap})
			}
		}
	}
	at := n * d.Frac / 100
	switch d.Kind {
	case ddExact, ddDribble, ddSlow:
		wf(fill(n, d.Chunks))
	case ddOver:
		wf(fill(n+d.K, d.Chunks))
	case ddShort:
		if sizes := fill(n, d.Chunks); d.CutLast && len(sizes) > 0 {
			last := sizes[len(sizes)-1]
			wf(sizes[:len(sizes)-1])
			ops = append(ops, ddOp{Kind: opWFCut, Size: last, Cut: max(1, min(d.K, last))})
		} else {
			wf(fill(max(0, n-d.K), d.Chunks))
		}
	case ddTiny:
		// no merging of small remainders here: small messages are the point
		for rem, i := n, 0; rem > 0; i++ {
			c := min(d.Chunks[i%len(d.Chunks)], rem)
			ops = append(ops, ddOp{Kind: opWF, Size: c})
			rem -= c
		}
	case ddOversize:
		wf(fill(at, d.Chunks))
		ops = append(ops, ddOp{Kind: opFramed, Size: d.Dev, Fill: 0x22})
		wf(fill(n-at, d.Chunks))
	case ddGarbageFramed:
		for rem := at; rem > 0; rem -= d.Dev {
			ops = append(ops, ddOp{Kind: opFramed, Size: d.Dev, Fill: byte(d.K)})
		}
	case ddGarbageRaw:
		wf(fill(at, d.Chunks))
		ops = append(ops, ddOp{Kind: opRaw, Size: d.Dev, Fill: byte(d.K)})
	case ddEarlyClose:
		wf(fill(at, d.Chunks))
		if d.Dev > 0 {
			// the beginning of a well-formed message, cut in the middle
			ops = append(ops, ddOp{Kind: opRaw, Size: -d.Dev})
		}
	case ddSilence:
	case nDD:
		sent := 0
		for _, op := range d.Script {
			if op.Kind == opWF {
				sent += op.Size
			}
		}
		ops = append(ops, d.Script...)
		wf(fill(max(0, at-sent), d.Chunks))
	}
	return ops
}

// wfFrame appends a length-prefixed Message{dialDataResponse{data}} with d data bytes.
func wfFrame(dst []byte, d int, fillb byte) []byte {
	if d == 0 {
		// proto3 omits empty bytes fields: Message{dialDataResponse: {}} = 22 00
		return append(dst, 2, 0x22, 0)
	}
	inner := 1 + uvarintLen(uint64(d)) + d
	body := 1 + uvarintLen(uint64(inner)) + inner
	dst = binary.AppendUvarint(dst, uint64(body))
	dst = append(dst, 0x22)
	dst = binary.AppendUvarint(dst, uint64(inner))
	dst = append(dst, 0x0a)
	dst = binary.AppendUvarint(dst, uint64(d))
	for i := 0; i < d; i++ {
		dst = append(dst, fillb)
	}
	return dst
}

func uvarintLen(x uint64) int {
	n := 1
	for x >= 0x80 {
		x >>= 7
		n++
	}
	return n
}

// ---------------------------------------------------------------------------
// dial-back script (what the dialer host does)

const (
	connFailNow = iota
	connFailLater
	connOK
	connHang
)
const (
	dbRespond = iota
	dbSilent
	dbCloseEarly
	dbReset
	dbNoStream
)

type dbScript struct {
	Connect int
	Delay   time.Duration
	Stream  int
}

// ---------------------------------------------------------------------------
// request

const (
	bodyRequest   = iota // a DialRequest
	bodyWrongType        // a well-formed Message of another type
	bodyGarbage          // bytes that are no protobuf message
	bodyOversize         // length prefix beyond maxMsgSize
	bodyNone             // nothing is written
	bodyPartial          // the frame is cut in the middle
)

var bodyNames = [...]string{"request", "wrongtype", "garbage", "oversize", "none", "partial"}

type reqSpec struct {
	ID      int
	Peer    int
	Conn    int
	At      time.Duration // arrival, relative to the start of the case
	Settle  bool          // let the world settle (synctest.Wait) before this request is launched
	Entries []entry
	Nonce   uint64
	Kind    int    // body*
	Frame   []byte // bytes the client writes as its request (length prefix included)
	Cut     int    // bodyPartial: number of bytes of Frame actually written

	PreDelay   time.Duration // before the first byte
	SplitAt    int           // 0 = written at once
	SplitDelay time.Duration
	FirstEnd   int // bodyNone / bodyPartial: what the client does instead (end*)

	Eager []int // data sizes of DialDataResponse messages written right after the request
	DD    ddSpec

	DialBack dbScript
	Profile  string
}

type limits struct{ RPM, PerPeer, DialData, MaxConc int }

type scenario struct {
	Limits limits
	Mask   [nTransports]bool
	Peers  []peerInfo
	Reqs   []*reqSpec // sorted by At (stable)
	Raw    bool       // fuzz: entries are classified by function, not by construction
	// CanDial overrides the by-construction predicate (fuzz)
	CanDial func(ma.Multiaddr) bool
}

func (e obsAddr) netIP() net.IP { return net.IP(e.IP) }

func mkObserved(kind, i, c, portSel, tr int) obsAddr {
	port := commonPorts[portSel%len(commonPorts)]
	sfx := fmt.Sprintf("/tcp/%d", port)
	if tr%2 == 1 {
		sfx = fmt.Sprintf("/udp/%d/quic-v1", port)
	}
	var (
		host string
		ip   net.IP
		pub  = true
		name string
	)
	switch kind % 4 {
	case 0:
		name = "pub4"
		ip = net.IPv4(5, byte(10+i), byte(c), 7).To4()
		host = "/ip4/" + ip.String()
	case 1:
		name = "pub6"
		s := fmt.Sprintf("2a00:%x::%x:7", i+1, c+1)
		ip, host = net.ParseIP(s), "/ip6/"+s
	case 2:
		name = "priv4"
		ip = net.IPv4(10, byte(200+i), byte(c), 7).To4()
		host, pub = "/ip4/"+ip.String(), false
	default:
		name = "relayed"
		ip = net.IPv4(6, 6, byte(i), byte(1+c)).To4()
		host = "/ip4/" + ip.String()
		sfx = fmt.Sprintf("/tcp/%d/p2p/%s/p2p-circuit", port, keys.Ed(91).ID)
	}
	return obsAddr{Kind: name, Addr: ma.StringCast(host + sfx), IP: ip, Port: port, Public: pub}
}

func drawPeers(rt *rapid.T, maxPeers int) []peerInfo {
	n := rapid.IntRange(1, maxPeers).Draw(rt, "npeers")
	ps := make([]peerInfo, n)
	for i := range ps {
		ps[i].ID = keys.Ed(200 + i).ID
		nc := 1
		if rapid.IntRange(0, 4).Draw(rt, "twoConns") == 0 {
			nc = 2
		}
		for c := 0; c < nc; c++ {
			// weights: pub4 4, pub6 2, priv4 1, relayed 1
			kind := []int{0, 0, 0, 0, 1, 1, 2, 3}[rapid.IntRange(0, 7).Draw(rt, "obsKind")]
			ps[i].Conns = append(ps[i].Conns, mkObserved(kind, i, c, rapid.IntRange(0, 2).Draw(rt, "obsPort"), rapid.IntRange(0, 1).Draw(rt, "obsTr")))
		}
	}
	return ps
}

func drawMask(rt *rapid.T) [nTransports]bool {
	var m [nTransports]bool
	bits := rapid.IntRange(0, 1<<nTransports-1).Draw(rt, "canDialMask")
	if rapid.IntRange(0, 1).Draw(rt, "maskAll") == 0 {
		bits = 1<<nTransports - 1
	}
	for i := range m {
		m[i] = bits&(1<<i) != 0
	}
	return m
}

var classWeights = []addrClass{
	clPubSame, clPubSame, clPubForeign, clPubForeign, clPubForeign, clDNSPublic,
	clPrivate, clPrivate, clLoopback, clUnroutable, clDNSPrivate, clMalformed,
}

func drawEntries(rt *rapid.T, serial int, obs obsAddr, self peer.ID, mask [nTransports]bool) []entry {
	var n int
	switch k := rapid.IntRange(0, 9).Draw(rt, "naddrsBucket"); {
	case k <= 6:
		n = rapid.IntRange(0, 6).Draw(rt, "naddrs")
	case k <= 8:
		n = rapid.IntRange(7, 30).Draw(rt, "naddrs")
	default:
		n = rapid.IntRange(45, 60).Draw(rt, "naddrs")
	}
	// a leading run of ineligible entries is the interesting shape: choose how many
	lead := 0
	if rapid.IntRange(0, 2).Draw(rt, "hasLead") == 0 {
		lead = rapid.IntRange(0, n).Draw(rt, "lead")
	}
	es := make([]entry, 0, n)
	for i := 0; i < n; i++ {
		if i > 0 && rapid.IntRange(0, 9).Draw(rt, "dup") == 0 {
			es = append(es, es[rapid.IntRange(0, i-1).Draw(rt, "dupOf")])
			continue
		}
		var cl addrClass
		if i < lead {
			cl = []addrClass{clPrivate, clLoopback, clUnroutable, clDNSPrivate, clMalformed, clPubForeign, clPubSame}[rapid.IntRange(0, 6).Draw(rt, "leadClass")]
		} else {
			cl = classWeights[rapid.IntRange(0, len(classWeights)-1).Draw(rt, "class")]
		}
		tr := rapid.IntRange(0, nTransports-1).Draw(rt, "tr")
		if i < lead && (cl == clPubForeign || cl == clPubSame) {
			// public but not dialable: pick an unsupported transport if there is one
			for k := 0; k < nTransports; k++ {
				if !mask[(tr+k)%nTransports] {
					tr = (tr + k) % nTransports
					break
				}
			}
		}
		es = append(es, mkEntry(cl, serial, rapid.IntRange(0, 63).Draw(rt, "variant"), tr, rapid.IntRange(0, 3).Draw(rt, "port"), obs, self, mask))
	}
	return es
}

var chunkMenus = [][]int{
	{4000}, {4000}, {8186}, {1000}, {100}, {150}, {127, 128, 129, 130, 131}, {123, 124, 125, 126}, {4000, 100, 8186, 250}, {2047, 2048, 2049},
}

var shortfalls = []int{1, 1, 2, 3, 5, 10, 30, 100, 200, 500, 1000, 5000, 29999}

func drawDD(rt *rapid.T, light bool) ddSpec {
	var kinds []int
	if light {
		kinds = []int{ddExact, ddExact, ddExact, ddSilence, ddShort, ddSlow, ddOver}
	} else {
		kinds = []int{ddExact, ddExact, ddExact, ddOver, ddShort, ddShort, ddShort, ddShort, ddDribble, ddTiny, ddOversize, ddGarbageFramed, ddGarbageFramed, ddGarbageRaw, ddEarlyClose, ddSilence, ddSlow}
	}
	d := ddSpec{Kind: kinds[rapid.IntRange(0, len(kinds)-1).Draw(rt, "ddKind")]}
	d.Chunks = chunkMenus[rapid.IntRange(0, len(chunkMenus)-1).Draw(rt, "chunks")]
	d.End = []int{endKeep, endKeep, endCloseWrite, endReset, endClose}[rapid.IntRange(0, 4).Draw(rt, "ddEnd")]
	if rapid.IntRange(0, 5).Draw(rt, "fragmented") == 0 {
		d.Frag = []int{700, 1000, 3000, 4003, 7000}[rapid.IntRange(0, 4).Draw(rt, "frag")]
	}
	switch d.Kind {
	case ddExact:
		d.End = []int{endKeep, endKeep, endKeep, endCloseWrite}[rapid.IntRange(0, 3).Draw(rt, "exactEnd")]
	case ddOver:
		d.K = []int{1, 100, 4000, 50000}[rapid.IntRange(0, 3).Draw(rt, "excess")]
		d.End = endKeep
	case ddShort:
		d.K = shortfalls[rapid.IntRange(0, len(shortfalls)-1).Draw(rt, "shortfall")]
		d.CutLast = rapid.IntRange(0, 2).Draw(rt, "cutLast") == 0
	case ddDribble:
		d.Chunks = []int{rapid.IntRange(100, 200).Draw(rt, "dribA"), rapid.IntRange(100, 200).Draw(rt, "dribB"), rapid.IntRange(100, 200).Draw(rt, "dribC")}
		d.End = endKeep
	case ddTiny:
		d.Chunks = []int{rapid.IntRange(100, 200).Draw(rt, "tinyA"), rapid.IntRange(1, 200).Draw(rt, "tinyB"), rapid.IntRange(1, 99).Draw(rt, "tinyC"), rapid.IntRange(100, 200).Draw(rt, "tinyD")}
		if rapid.Bool().Draw(rt, "tinyLate") {
			// many good messages first, the small one late
			d.Chunks = append([]int{4000, 4000, 4000, 4000, 4000, 4000, 4000}, d.Chunks...)
		}
	case ddOversize:
		d.Frac = rapid.IntRange(0, 100).Draw(rt, "frac")
		d.Dev = []int{8193, 8200, 9000, 16384, 20000}[rapid.IntRange(0, 4).Draw(rt, "oversz")]
	case ddGarbageFramed:
		d.Frac = []int{50, 90, 99, 100, 101, 110, 150}[rapid.IntRange(0, 6).Draw(rt, "gfrac")]
		d.Dev = []int{100, 150, 1000, 4000, 8192}[rapid.IntRange(0, 4).Draw(rt, "gsize")]
		d.K = rapid.IntRange(0, 255).Draw(rt, "gfill")
	case ddGarbageRaw:
		d.Frac = rapid.IntRange(0, 99).Draw(rt, "frac")
		d.Dev = []int{1, 10, 100, 5000}[rapid.IntRange(0, 3).Draw(rt, "rawsz")]
		d.K = []int{0, 0xff, 0x80, 0x22}[rapid.IntRange(0, 3).Draw(rt, "rawfill")]
	case ddEarlyClose:
		d.Frac = rapid.IntRange(0, 99).Draw(rt, "frac")
		d.Dev = rapid.IntRange(0, 3000).Draw(rt, "cut")
		d.End = []int{endCloseWrite, endReset, endClose}[rapid.IntRange(0, 2).Draw(rt, "ecEnd")]
	case ddSlow:
		d.Chunks = [][]int{{4000}, {8186}}[rapid.IntRange(0, 1).Draw(rt, "slowChunks")]
		d.Gap = []time.Duration{100 * time.Millisecond, 500 * time.Millisecond, time.Second, 2 * time.Second}[rapid.IntRange(0, 3).Draw(rt, "gap")]
		d.End = endKeep
	}
	return d
}

var delays = []time.Duration{0, time.Nanosecond, time.Millisecond, 100 * time.Millisecond, time.Second, 3 * time.Second, 7 * time.Second, 9999 * time.Millisecond, 10 * time.Second, 12 * time.Second}

func drawDialBack(rt *rapid.T) dbScript {
	return dbScript{
		Connect: []int{connFailNow, connFailNow, connFailLater, connFailLater, connOK, connOK, connOK, connOK, connHang}[rapid.IntRange(0, 8).Draw(rt, "connect")],
		Delay:   delays[rapid.IntRange(0, len(delays)-1).Draw(rt, "connDelay")],
		Stream:  []int{dbRespond, dbRespond, dbRespond, dbSilent, dbCloseEarly, dbReset, dbNoStream}[rapid.IntRange(0, 6).Draw(rt, "dbStream")],
	}
}

func frame(body []byte) []byte {
	return append(binary.AppendUvarint(nil, uint64(len(body))), body...)
}

func marshalRequest(es []entry, nonce uint64) []byte {
	addrs := make([][]byte, len(es))
	for i := range es {
		addrs[i] = es[i].Bytes
	}
	b, err := proto.Marshal(&pb.Message{Msg: &pb.Message_DialRequest{DialRequest: &pb.DialRequest{Addrs: addrs, Nonce: nonce}}})
	if err != nil {
		panic(err)
	}
	return b
}

// finishBody fills Frame according to Kind. For everything but bodyRequest the request
// names no address at all.
func (r *reqSpec) finishBody(sel int) {
	body := marshalRequest(r.Entries, r.Nonce)
	switch r.Kind {
	case bodyRequest:
		r.Frame = frame(body)
		return
	case bodyWrongType:
		var m *pb.Message
		switch sel % 4 {
		case 0:
			m = &pb.Message{Msg: &pb.Message_DialResponse{DialResponse: &pb.DialResponse{Status: pb.DialResponse_OK}}}
		case 1:
			m = &pb.Message{Msg: &pb.Message_DialDataResponse{DialDataResponse: &pb.DialDataResponse{Data: body}}}
		case 2:
			m = &pb.Message{Msg: &pb.Message_DialDataRequest{DialDataRequest: &pb.DialDataRequest{AddrIdx: 0, NumBytes: 1}}}
		default:
			m = &pb.Message{}
		}
		b, _ := proto.Marshal(m)
		r.Frame = frame(b)
	case bodyGarbage:
		// wire type 7 does not exist: no protobuf decoder accepts this
		r.Frame = frame(append([]byte{0x07}, body...))
	case bodyOversize:
		r.Frame = append(binary.AppendUvarint(nil, uint64(8193+sel%5000)), body...)
	case bodyNone:
		r.Frame = nil
	case bodyPartial:
		r.Frame = frame(body)
		r.Cut = sel % len(r.Frame)
	}
	r.Entries = nil
}

func drawRequest(rt *rapid.T, id int, peers []peerInfo, peerIdx int, mask [nTransports]bool) *reqSpec {
	r := &reqSpec{ID: id, Peer: peerIdx, Profile: "rich"}
	p := peers[peerIdx]
	r.Conn = rapid.IntRange(0, len(p.Conns)-1).Draw(rt, "conn")
	r.Entries = drawEntries(rt, id, p.Conns[r.Conn], p.ID, mask)
	r.Nonce = rapid.Uint64().Draw(rt, "nonce")
	r.Kind = bodyRequest
	if rapid.IntRange(0, 6).Draw(rt, "oddBody") == 0 {
		r.Kind = []int{bodyWrongType, bodyGarbage, bodyOversize, bodyNone, bodyPartial}[rapid.IntRange(0, 4).Draw(rt, "bodyKind")]
	}
	if r.Kind != bodyRequest {
		r.FirstEnd = rapid.IntRange(0, 3).Draw(rt, "firstEnd")
		r.finishBody(rapid.IntRange(0, 1<<20).Draw(rt, "bodySel"))
	} else {
		r.finishBody(0)
	}
	if rapid.IntRange(0, 5).Draw(rt, "hasPreDelay") == 0 {
		r.PreDelay = []time.Duration{time.Millisecond, time.Second, 5 * time.Second, 14 * time.Second, 14999 * time.Millisecond, 15 * time.Second, 16 * time.Second}[rapid.IntRange(0, 6).Draw(rt, "preDelay")]
	}
	if len(r.Frame) > 1 && rapid.IntRange(0, 6).Draw(rt, "split") == 0 {
		r.SplitAt = rapid.IntRange(1, len(r.Frame)-1).Draw(rt, "splitAt")
		r.SplitDelay = []time.Duration{0, time.Millisecond, time.Second, 10 * time.Second, 16 * time.Second}[rapid.IntRange(0, 4).Draw(rt, "splitDelay")]
	}
	if r.Kind == bodyRequest && rapid.IntRange(0, 11).Draw(rt, "eager") == 0 {
		total := []int{100, 5000, 29000, 30000, 60000, 100000, 130000}[rapid.IntRange(0, 6).Draw(rt, "eagerTotal")]
		r.Eager = fill(total, chunkMenus[rapid.IntRange(0, len(chunkMenus)-1).Draw(rt, "eagerChunks")])
	}
	r.DD = drawDD(rt, false)
	r.DialBack = drawDialBack(rt)
	return r
}

// drawLightRequest draws the simple request shapes used to load the rate limiter.
func drawLightRequest(rt *rapid.T, id int, peers []peerInfo, peerIdx int, mask [nTransports]bool) *reqSpec {
	return lightRequest(rt, rapid.IntRange(0, 11).Draw(rt, "shape"), id, peers, peerIdx, mask)
}

// lightRequest builds the light request of the given shape: 0..2 refused at once, 3..5
// same IP, 6..8 foreign IP / DNS (dial data), 9..10 the client sits on the stream, 11 a
// rich request.
func lightRequest(rt *rapid.T, shape, id int, peers []peerInfo, peerIdx int, mask [nTransports]bool) *reqSpec {
	if shape == 11 {
		return drawRequest(rt, id, peers, peerIdx, mask)
	}
	r := &reqSpec{ID: id, Peer: peerIdx, Profile: "light"}
	p := peers[peerIdx]
	r.Conn = rapid.IntRange(0, len(p.Conns)-1).Draw(rt, "conn")
	obs := p.Conns[r.Conn]
	r.Nonce = uint64(id) + 1
	v := rapid.IntRange(0, 63).Draw(rt, "variant")
	// a transport the dialer supports (if any)
	tr := 0
	for k := 0; k < nTransports; k++ {
		if mask[(v+k)%nTransports] {
			tr = (v + k) % nTransports
			break
		}
	}
	r.DD = drawDD(rt, true)
	r.DialBack = drawDialBack(rt)
	switch {
	case shape <= 2: // refused at once: nothing eligible
		if shape > 0 {
			r.Entries = []entry{mkEntry([]addrClass{clPrivate, clLoopback, clUnroutable, clDNSPrivate, clMalformed}[v%5], id, v, tr, v, obs, p.ID, mask)}
		}
		r.Profile = "light:refused"
	case shape <= 5: // same IP: dialled without dial data, the dial holds the slot
		r.Entries = []entry{mkEntry(clPubSame, id, v, tr, v, obs, p.ID, mask)}
		r.Profile = "light:same"
	case shape <= 8: // foreign IP: dial data
		r.Entries = []entry{mkEntry([]addrClass{clPubForeign, clPubForeign, clDNSPublic}[v%3], id, v, tr, v, obs, p.ID, mask)}
		r.Profile = "light:foreign"
	default: // the client sits on the stream before sending its request
		r.Entries = []entry{mkEntry(clPrivate, id, v, tr, v, obs, p.ID, mask)}
		r.PreDelay = []time.Duration{time.Second, 5 * time.Second, 10 * time.Second, 14 * time.Second, 16 * time.Second}[rapid.IntRange(0, 4).Draw(rt, "hold")]
		r.Profile = "light:hold"
	}
	r.Kind = bodyRequest
	r.finishBody(0)
	return r
}

// ---------------------------------------------------------------------------
// fingerprints / samples

func (s *scenario) fingerprint() string {
	var b strings.Builder
	fmt.Fprintf(&b, "L%v M%v|", s.Limits, s.Mask)
	for _, p := range s.Peers {
		for _, c := range p.Conns {
			fmt.Fprintf(&b, "%s:%d,", c.Kind, c.Port)
		}
		b.WriteByte(';')
	}
	for _, r := range s.Reqs {
		fmt.Fprintf(&b, "|%d@%d p%d c%d k%d pre%d sp%d/%d e%d dd%v db%v s%v:", r.ID, r.At, r.Peer, r.Conn, r.Kind, r.PreDelay, r.SplitAt, r.SplitDelay, len(r.Eager), r.DD, r.DialBack, r.Settle)
		for _, e := range r.Entries {
			fmt.Fprintf(&b, "%d.%d.%v ", e.Class, e.Tr, e.Dialable)
		}
	}
	return b.String()
}

func (r *reqSpec) describe(s *scenario) map[string]any {
	classes := make([]string, 0, len(r.Entries))
	for i, e := range r.Entries {
		if i >= 12 {
			classes = append(classes, fmt.Sprintf("...+%d", len(r.Entries)-i))
			break
		}
		c := e.Class.String()
		if e.Class != clMalformed {
			c += "/" + transportNames[e.Tr]
			if !e.Dialable {
				c += "(undialable)"
			}
		}
		classes = append(classes, c)
	}
	m := map[string]any{
		"at": r.At.String(), "peer": r.Peer, "observed": s.Peers[r.Peer].Conns[r.Conn].Addr.String(), "body": bodyNames[r.Kind],
		"addrs": classes, "dialData": ddNames[r.DD.Kind], "profile": r.Profile,
	}
	if r.PreDelay > 0 {
		m["preDelay"] = r.PreDelay.String()
	}
	if len(r.Eager) > 0 {
		m["eagerMsgs"] = len(r.Eager)
	}
	return m
}

func sortedKeys(m map[string]bool) []string {
	out := make([]string, 0, len(m))
	for k := range m {
		out = append(out, k)
	}
	sort.Strings(out)
	return out
}
