package c16

// Episodes: sustained concurrent load of ONE peer against a small concurrency limit
// while a second limit is exhausted at the same time.
//
// The statement bounds the number of requests of one peer that are served at the same
// time, for every arrival pattern and for "concurrent requests of one peer". That
// includes the patterns in which requests of the peer are being turned away — by the
// global window, the per-peer window, the concurrency limit itself or the dial-data
// window — WHILE others of its requests are in flight, and in which more requests of the
// same peer keep arriving while the earlier ones are still being served. TestRateLimits
// reaches such histories only by accident (it makes one limit binding at a time and
// mostly short-lived requests); here they are built by construction:
//
//   - limits: a small concurrency limit (1..4) together with one more tight limit
//     ("second limit": dial-data window 0..2, per-peer window, global window, all three,
//     none); the other windows are out of reach;
//   - arrivals: 1..3 episodes; an episode is a run of 3..9 requests of one peer
//     (occasionally interleaved with a request of another peer) 0 ns .. 3 s apart;
//   - request shapes: the light shapes of TestRateLimits, weighted towards the ones that
//     need dial data and towards long-lived ones (a client that sits on its stream, a
//     dial-back that hangs or takes seconds, slow dial data), so that the peer's earlier
//     requests are still being served when the later ones arrive.
//
// Nothing new is demanded by the oracle: the verdicts are the rules of judge (sliding
// windows and "requests of one peer being served at a quiescence point <= limit").

import (
	"time"

	"pgregory.net/rapid"
)

const (
	secNone = iota
	secDialData
	secPerPeer
	secRPM
	secAll
)

var secondNames = [...]string{"none", "dialData", "perPeer", "rpm", "all"}

// drawEpisodeLimits: a small concurrency limit plus one more tight limit.
func drawEpisodeLimits(rt *rapid.T) (limits, int) {
	l := limits{RPM: 100, PerPeer: 100, DialData: 100}
	l.MaxConc = []int{1, 2, 2, 2, 3, 3, 4}[rapid.IntRange(0, 6).Draw(rt, "maxConc")]
	// The dial-data window is the one stage of the limiter that a request reaches after it
	// has been admitted, i.e. while it counts as one of its peer's concurrent requests:
	// it gets the largest share.
	sec := []int{secDialData, secDialData, secDialData, secPerPeer, secRPM, secAll, secNone}[rapid.IntRange(0, 6).Draw(rt, "secondLimit")]
	switch sec {
	case secDialData:
		l.DialData = rapid.IntRange(0, 2).Draw(rt, "dialDataRPM")
	case secPerPeer:
		l.PerPeer = l.MaxConc + rapid.IntRange(0, 3).Draw(rt, "perPeerSlack")
	case secRPM:
		l.RPM = l.MaxConc + rapid.IntRange(0, 4).Draw(rt, "rpmSlack")
	case secAll:
		l.RPM = l.MaxConc + rapid.IntRange(1, 8).Draw(rt, "rpmSlack")
		l.PerPeer = l.MaxConc + rapid.IntRange(0, 4).Draw(rt, "perPeerSlack")
		l.DialData = rapid.IntRange(0, 2).Draw(rt, "dialDataRPM")
	}
	return l, sec
}

// dial-back scripts that keep the request in the server for seconds
var slowDialBacks = []dbScript{
	{Connect: connHang},
	{Connect: connFailLater, Delay: 3 * time.Second},
	{Connect: connFailLater, Delay: 7 * time.Second},
	{Connect: connFailLater, Delay: 9999 * time.Millisecond},
	{Connect: connOK, Delay: 3 * time.Second, Stream: dbRespond},
	{Connect: connOK, Delay: 7 * time.Second, Stream: dbSilent},
	{Connect: connOK, Stream: dbSilent},
}

// drawEpisodeRequest: a light request, mostly one that needs dial data or stays in the
// server for a while.
func drawEpisodeRequest(rt *rapid.T, id int, peers []peerInfo, peerIdx int, mask [nTransports]bool) *reqSpec {
	// weights: client sits on the stream 3, same IP 3, foreign IP / DNS 5, refused at once 1
	shape := []int{9, 9, 10, 3, 4, 5, 6, 6, 7, 7, 8, 1}[rapid.IntRange(0, 11).Draw(rt, "episodeShape")]
	r := lightRequest(rt, shape, id, peers, peerIdx, mask)
	if rapid.IntRange(0, 3).Draw(rt, "slowDialBack") != 0 {
		r.DialBack = slowDialBacks[rapid.IntRange(0, len(slowDialBacks)-1).Draw(rt, "slowScript")]
	}
	return r
}

var (
	episodeGaps = []time.Duration{0, 0, 0, time.Nanosecond, time.Millisecond, 100 * time.Millisecond, time.Second, 3 * time.Second}
	betweenGaps = []time.Duration{time.Second, 5 * time.Second, 20 * time.Second, 45 * time.Second, window - time.Second, window, window + time.Second}
)

func drawEpisodes(rt *rapid.T, sc *scenario) {
	nep := []int{1, 1, 2, 2, 3}[rapid.IntRange(0, 4).Draw(rt, "nepisodes")]
	at := time.Duration(0)
	id := 0
	for e := 0; e < nep; e++ {
		if e > 0 {
			at += betweenGaps[rapid.IntRange(0, len(betweenGaps)-1).Draw(rt, "betweenGap")]
		}
		p := rapid.IntRange(0, len(sc.Peers)-1).Draw(rt, "episodePeer")
		m := rapid.IntRange(3, 9).Draw(rt, "episodeLen")
		for k := 0; k < m; k++ {
			pi := p
			if len(sc.Peers) > 1 && rapid.IntRange(0, 5).Draw(rt, "otherPeer") == 0 {
				pi = rapid.IntRange(0, len(sc.Peers)-1).Draw(rt, "peer")
			}
			r := drawEpisodeRequest(rt, id, sc.Peers, pi, sc.Mask)
			if k > 0 {
				at += episodeGaps[rapid.IntRange(0, len(episodeGaps)-1).Draw(rt, "gap")]
			}
			r.At = at
			r.Settle = rapid.IntRange(0, 2).Draw(rt, "settle") != 0
			sc.Reqs = append(sc.Reqs, r)
			id++
		}
	}
}
