package c16

// Test doubles for the two hosts the AutoNAT v2 server talks to.
//
//   - srvHost: the host the dial-request stream handler is registered on. The harness
//     invokes the captured handler with inbound streams (memnet pipes) that carry the
//     requesting peer's ID and its observed source address.
//   - dialHost: the separate dialer host. Every call that can put an address in front of
//     a dialer (Peerstore().AddAddr/AddAddrs/SetAddr/SetAddrs, Connect, NewStream,
//     Network().DialPeer) is recorded as a dial-back attempt together with how many
//     bytes the server had consumed from / written to the owning request stream at that
//     very moment (the call is made synchronously by the handler goroutine, so the
//     counters are exact).
//
// Both use the real pstoremem peerstore and the real event bus. Everything is created
// and closed inside the bubble of one case.

import (
	"bytes"
	"context"
	"errors"
	"fmt"
	"io"
	"sync"
	"time"

	"github.com/libp2p/go-libp2p/core/connmgr"
	ic "github.com/libp2p/go-libp2p/core/crypto"
	"github.com/libp2p/go-libp2p/core/event"
	"github.com/libp2p/go-libp2p/core/network"
	"github.com/libp2p/go-libp2p/core/peer"
	"github.com/libp2p/go-libp2p/core/peerstore"
	"github.com/libp2p/go-libp2p/core/protocol"
	"github.com/libp2p/go-libp2p/p2p/host/eventbus"
	"github.com/libp2p/go-libp2p/p2p/host/peerstore/pstoremem"
	"github.com/libp2p/go-libp2p/p2p/protocol/autonatv2"
	ma "github.com/multiformats/go-multiaddr"

	"verif/internal/memnet"
)

// ---------------------------------------------------------------------------
// recorded history

// attAddr is one address that was put in front of the dialer.
type attAddr struct {
	Bytes    []byte
	Req      *reqRun // owning request (nil: the address is in no request of this case)
	Entry    int     // index of the matching entry in the owner's request
	Consumed int64   // bytes the server had read from the owner's request stream
	Written  int     // bytes the server had written to the owner's request stream
	// OwnerDone: the owner's handler had already returned
	OwnerDone bool
}

type attempt struct {
	Seq   int
	At    time.Duration
	Kind  string // addaddr | connect | newstream | dialpeer
	Peer  peer.ID
	Addrs []attAddr
}

// seg is one thing the client wrote after its request.
type seg struct {
	Wire int  // bytes on the wire
	Data int  // bytes of DialDataResponse.Data inside (well-formed message), at the end of the segment
	Full bool // not a well-formed DialDataResponse: every wire byte is credited
	Raw  bool // not even a framed message: message alignment is lost from here on
}

type wstamp struct {
	Off int // offset in wlog after the write
	At  time.Duration
}

// reqRun is the run-time state of one request.
type reqRun struct {
	spec   *reqSpec
	w      *world
	srvEnd *memnet.Conn // server's end of the request stream
	cliEnd *memnet.Conn // harness' end
	conn   *inConn

	launched    time.Duration
	handlerDone bool
	doneAt      time.Duration

	wlog    []byte // everything the server wrote on the stream
	wstamps []wstamp

	reqWire int   // wire bytes of the request frame the client wrote (or will write)
	segs    []seg // what the client wrote after the request, in order
	eager   bool  // the client wrote dial data before it had seen a DialDataRequest
	sawDDR  bool  // client side: a DialDataRequest was received
	ddN     uint64
	cliDone bool
	aborted bool // the client reset / closed its end on its own initiative
}

type world struct {
	mu       sync.Mutex
	t0       time.Time
	peers    []peerInfo
	reqs     []*reqRun
	owner    map[string][2]int // address bytes -> (request id, entry index)
	canDial  func(addr ma.Multiaddr) bool
	attempts []attempt
	seq      int
	// number of CanDial calls seen (coverage)
	canDialCalls int
	// calls with a peer that has no request in this case
	strangerCalls []string
}

type peerInfo struct {
	ID    peer.ID
	Conns []obsAddr
}

type obsAddr struct {
	Kind   string
	Addr   ma.Multiaddr
	IP     []byte // net.IP of the observed address, by construction
	Port   int
	Public bool // the observed IP is a public one
}

func (w *world) now() time.Duration { return time.Since(w.t0) }

// canon removes one trailing /p2p/<p> component: the peerstore stores (and the host
// dials) an address named for peer p without it, so both spellings are one address.
func canon(b []byte, p peer.ID) []byte {
	sfx := append([]byte{0xa5, 0x03, byte(len(p))}, p...)
	if len(p) < 128 && len(b) > len(sfx) && bytes.HasSuffix(b, sfx) {
		return b[:len(b)-len(sfx)]
	}
	return b
}

// doneSnapshot returns which requests have been completed so far.
func (w *world) doneSnapshot() []bool {
	w.mu.Lock()
	defer w.mu.Unlock()
	out := make([]bool, len(w.reqs))
	for i, r := range w.reqs {
		out[i] = r.handlerDone
	}
	return out
}

func (w *world) recordAttempt(kind string, p peer.ID, addrs []ma.Multiaddr) attempt {
	return w.recordAttemptSnap(kind, p, addrs, nil)
}

// recordAttemptSnap snapshots the owning request's counters for every address. done
// (optional) is a completion snapshot taken BEFORE the address list was read: another
// request of the same peer may complete between reading the peerstore and recording.
func (w *world) recordAttemptSnap(kind string, p peer.ID, addrs []ma.Multiaddr, done []bool) attempt {
	w.mu.Lock()
	defer w.mu.Unlock()
	w.seq++
	a := attempt{Seq: w.seq, At: w.now(), Kind: kind, Peer: p}
	for _, m := range addrs {
		var b []byte
		if m != nil {
			b = append([]byte(nil), m.Bytes()...)
		}
		aa := attAddr{Bytes: b, Entry: -1}
		if ref, ok := w.owner[string(canon(b, p))]; ok {
			r := w.reqs[ref[0]]
			aa.Req, aa.Entry = r, ref[1]
			aa.Consumed = r.srvEnd.BytesRead.Load()
			aa.Written = len(r.wlog)
			aa.OwnerDone = r.handlerDone
			if done != nil {
				aa.OwnerDone = done[ref[0]]
			}
		}
		a.Addrs = append(a.Addrs, aa)
	}
	w.attempts = append(w.attempts, a)
	return a
}

// scriptFor returns the dial-back script of the first owned address.
func (a attempt) script() (dbScript, ma.Multiaddr, bool) {
	for _, aa := range a.Addrs {
		if aa.Req != nil {
			m, _ := ma.NewMultiaddrBytes(aa.Bytes)
			return aa.Req.spec.DialBack, m, true
		}
	}
	return dbScript{}, nil, false
}

// ---------------------------------------------------------------------------
// inbound side: conn + stream handed to the handler

type inConn struct {
	local, remote peer.ID
	raddr, laddr  ma.Multiaddr
	id            string
}

func (c *inConn) Close() error                                      { return nil }
func (c *inConn) CloseWithError(network.ConnErrorCode) error        { return nil }
func (c *inConn) ID() string                                        { return c.id }
func (c *inConn) NewStream(context.Context) (network.Stream, error) { return nil, network.ErrNoConn }
func (c *inConn) GetStreams() []network.Stream                      { return nil }
func (c *inConn) IsClosed() bool                                    { return false }
func (c *inConn) As(any) bool                                       { return false }
func (c *inConn) LocalPeer() peer.ID                                { return c.local }
func (c *inConn) RemotePeer() peer.ID                               { return c.remote }
func (c *inConn) RemotePublicKey() ic.PubKey                        { return nil }
func (c *inConn) ConnState() network.ConnectionState {
	return network.ConnectionState{Transport: "fake"}
}
func (c *inConn) LocalMultiaddr() ma.Multiaddr  { return c.laddr }
func (c *inConn) RemoteMultiaddr() ma.Multiaddr { return c.raddr }
func (c *inConn) Stat() network.ConnStats {
	return network.ConnStats{Stats: network.Stats{Direction: network.DirInbound}}
}
func (c *inConn) Scope() network.ConnScope { return &network.NullScope{} }

var _ network.Conn = (*inConn)(nil)

// pipeStream is a network.Stream over one end of a memnet pipe. tap (optional) sees
// every byte the local side (the code under test) writes.
type pipeStream struct {
	c     *memnet.Conn
	conn  network.Conn
	id    string
	proto protocol.ID
	dir   network.Direction
	tap   func([]byte)
}

func (s *pipeStream) Read(p []byte) (int, error) { return s.c.Read(p) }
func (s *pipeStream) Write(p []byte) (int, error) {
	n, err := s.c.Write(p)
	if n > 0 && s.tap != nil {
		s.tap(p[:n])
	}
	return n, err
}
func (s *pipeStream) Close() error                                 { return s.c.Close() }
func (s *pipeStream) CloseWrite() error                            { return s.c.CloseWrite() }
func (s *pipeStream) CloseRead() error                             { return s.c.CloseRead() }
func (s *pipeStream) Reset() error                                 { s.c.Reset(); return nil }
func (s *pipeStream) ResetWithError(network.StreamErrorCode) error { s.c.Reset(); return nil }
func (s *pipeStream) SetDeadline(t time.Time) error                { return s.c.SetDeadline(t) }
func (s *pipeStream) SetReadDeadline(t time.Time) error            { return s.c.SetReadDeadline(t) }
func (s *pipeStream) SetWriteDeadline(t time.Time) error           { return s.c.SetWriteDeadline(t) }
func (s *pipeStream) ID() string                                   { return s.id }
func (s *pipeStream) Protocol() protocol.ID                        { return s.proto }
func (s *pipeStream) SetProtocol(id protocol.ID) error             { s.proto = id; return nil }
func (s *pipeStream) Stat() network.Stats                          { return network.Stats{Direction: s.dir} }
func (s *pipeStream) Conn() network.Conn                           { return s.conn }
func (s *pipeStream) Scope() network.StreamScope                   { return &network.NullScope{} }

var _ network.Stream = (*pipeStream)(nil)

// ---------------------------------------------------------------------------
// the host the handler is registered on

type stubNet struct {
	self peer.ID
	ps   peerstore.Peerstore
}

func (n *stubNet) Peerstore() peerstore.Peerstore { return n.ps }
func (n *stubNet) LocalPeer() peer.ID             { return n.self }
func (n *stubNet) DialPeer(context.Context, peer.ID) (network.Conn, error) {
	return nil, network.ErrNoConn
}
func (n *stubNet) ClosePeer(peer.ID) error                           { return nil }
func (n *stubNet) Connectedness(peer.ID) network.Connectedness       { return network.NotConnected }
func (n *stubNet) Peers() []peer.ID                                  { return nil }
func (n *stubNet) Conns() []network.Conn                             { return nil }
func (n *stubNet) ConnsToPeer(peer.ID) []network.Conn                { return nil }
func (n *stubNet) Notify(network.Notifiee)                           {}
func (n *stubNet) StopNotify(network.Notifiee)                       {}
func (n *stubNet) CanDial(peer.ID, ma.Multiaddr) bool                { return false }
func (n *stubNet) Close() error                                      { return nil }
func (n *stubNet) SetStreamHandler(network.StreamHandler)            {}
func (n *stubNet) Listen(...ma.Multiaddr) error                      { return nil }
func (n *stubNet) ListenAddresses() []ma.Multiaddr                   { return nil }
func (n *stubNet) InterfaceListenAddresses() ([]ma.Multiaddr, error) { return nil, nil }
func (n *stubNet) ResourceManager() network.ResourceManager          { return &network.NullResourceManager{} }
func (n *stubNet) NewStream(context.Context, peer.ID) (network.Stream, error) {
	return nil, network.ErrNoConn
}

var _ network.Network = (*stubNet)(nil)

type srvHost struct {
	id  peer.ID
	ps  peerstore.Peerstore
	bus event.Bus
	net *stubNet

	mu       sync.Mutex
	handlers map[protocol.ID]network.StreamHandler
}

func newSrvHost(id peer.ID) (*srvHost, error) {
	ps, err := pstoremem.NewPeerstore()
	if err != nil {
		return nil, err
	}
	return &srvHost{id: id, ps: ps, bus: eventbus.NewBus(), net: &stubNet{self: id, ps: ps}, handlers: map[protocol.ID]network.StreamHandler{}}, nil
}

func (h *srvHost) ID() peer.ID                      { return h.id }
func (h *srvHost) Peerstore() peerstore.Peerstore   { return h.ps }
func (h *srvHost) Addrs() []ma.Multiaddr            { return nil }
func (h *srvHost) Network() network.Network         { return h.net }
func (h *srvHost) Mux() protocol.Switch             { return nil }
func (h *srvHost) ConnManager() connmgr.ConnManager { return connmgr.NullConnMgr{} }
func (h *srvHost) EventBus() event.Bus              { return h.bus }
func (h *srvHost) Close() error                     { return h.ps.Close() }
func (h *srvHost) Connect(context.Context, peer.AddrInfo) error {
	return network.ErrNoConn
}
func (h *srvHost) NewStream(context.Context, peer.ID, ...protocol.ID) (network.Stream, error) {
	return nil, network.ErrNoConn
}
func (h *srvHost) SetStreamHandler(pid protocol.ID, f network.StreamHandler) {
	h.mu.Lock()
	h.handlers[pid] = f
	h.mu.Unlock()
}
func (h *srvHost) SetStreamHandlerMatch(pid protocol.ID, _ func(protocol.ID) bool, f network.StreamHandler) {
	h.SetStreamHandler(pid, f)
}
func (h *srvHost) RemoveStreamHandler(pid protocol.ID) {
	h.mu.Lock()
	delete(h.handlers, pid)
	h.mu.Unlock()
}
func (h *srvHost) handler(pid protocol.ID) network.StreamHandler {
	h.mu.Lock()
	defer h.mu.Unlock()
	return h.handlers[pid]
}

// ---------------------------------------------------------------------------
// the dialer host

// recPeerstore records every call that adds an address.
type recPeerstore struct {
	peerstore.Peerstore
	w *world
}

func (r *recPeerstore) AddAddr(p peer.ID, a ma.Multiaddr, ttl time.Duration) {
	r.w.recordAttempt("addaddr", p, []ma.Multiaddr{a})
	r.Peerstore.AddAddr(p, a, ttl)
}
func (r *recPeerstore) AddAddrs(p peer.ID, as []ma.Multiaddr, ttl time.Duration) {
	r.w.recordAttempt("addaddr", p, as)
	r.Peerstore.AddAddrs(p, as, ttl)
}
func (r *recPeerstore) SetAddr(p peer.ID, a ma.Multiaddr, ttl time.Duration) {
	if ttl > 0 {
		r.w.recordAttempt("addaddr", p, []ma.Multiaddr{a})
	}
	r.Peerstore.SetAddr(p, a, ttl)
}
func (r *recPeerstore) SetAddrs(p peer.ID, as []ma.Multiaddr, ttl time.Duration) {
	if ttl > 0 {
		r.w.recordAttempt("addaddr", p, as)
	}
	r.Peerstore.SetAddrs(p, as, ttl)
}

type dialNet struct {
	stubNet
	h *dialHost
}

func (n *dialNet) CanDial(p peer.ID, a ma.Multiaddr) bool {
	n.h.w.mu.Lock()
	n.h.w.canDialCalls++
	n.h.w.mu.Unlock()
	return n.h.w.canDial(a)
}

func (n *dialNet) DialPeer(ctx context.Context, p peer.ID) (network.Conn, error) {
	if err := n.h.Connect(ctx, peer.AddrInfo{ID: p}); err != nil {
		return nil, err
	}
	return n.h.conn(p), nil
}

func (n *dialNet) ClosePeer(p peer.ID) error {
	n.h.mu.Lock()
	delete(n.h.connected, p)
	n.h.mu.Unlock()
	return nil
}

func (n *dialNet) Connectedness(p peer.ID) network.Connectedness {
	if n.h.conn(p) != nil {
		return network.Connected
	}
	return network.NotConnected
}

func (n *dialNet) Peerstore() peerstore.Peerstore { return n.h.ps }

type outConn struct {
	inConn
	script dbScript
}

type dialHost struct {
	w   *world
	id  peer.ID
	raw peerstore.Peerstore
	ps  *recPeerstore
	bus event.Bus
	net *dialNet

	mu        sync.Mutex
	connected map[peer.ID]*outConn
	nstreams  int
	closed    bool
}

func newDialHost(w *world, id peer.ID) (*dialHost, error) {
	ps, err := pstoremem.NewPeerstore()
	if err != nil {
		return nil, err
	}
	h := &dialHost{w: w, id: id, raw: ps, ps: &recPeerstore{Peerstore: ps, w: w}, bus: eventbus.NewBus(), connected: map[peer.ID]*outConn{}}
	h.net = &dialNet{stubNet: stubNet{self: id, ps: ps}, h: h}
	return h, nil
}

func (h *dialHost) ID() peer.ID                      { return h.id }
func (h *dialHost) Peerstore() peerstore.Peerstore   { return h.ps }
func (h *dialHost) Addrs() []ma.Multiaddr            { return nil }
func (h *dialHost) Network() network.Network         { return h.net }
func (h *dialHost) Mux() protocol.Switch             { return nil }
func (h *dialHost) ConnManager() connmgr.ConnManager { return connmgr.NullConnMgr{} }
func (h *dialHost) EventBus() event.Bus              { return h.bus }
func (h *dialHost) SetStreamHandler(protocol.ID, network.StreamHandler) {
}
func (h *dialHost) SetStreamHandlerMatch(protocol.ID, func(protocol.ID) bool, network.StreamHandler) {
}
func (h *dialHost) RemoveStreamHandler(protocol.ID) {}

func (h *dialHost) Close() error {
	h.mu.Lock()
	defer h.mu.Unlock()
	if h.closed {
		return nil
	}
	h.closed = true
	return h.raw.Close()
}

func (h *dialHost) conn(p peer.ID) *outConn {
	h.mu.Lock()
	defer h.mu.Unlock()
	return h.connected[p]
}

func sleepCtx(ctx context.Context, d time.Duration) error {
	if d <= 0 {
		return ctx.Err()
	}
	t := time.NewTimer(d)
	defer t.Stop()
	select {
	case <-t.C:
		return ctx.Err()
	case <-ctx.Done():
		return ctx.Err()
	}
}

var errScripted = errors.New("c16: scripted dial failure")

// Connect is the dial: it dials whatever the peerstore holds for the peer (plus
// pi.Addrs), like the basic host does.
func (h *dialHost) Connect(ctx context.Context, pi peer.AddrInfo) error {
	done := h.w.doneSnapshot()
	addrs := append([]ma.Multiaddr(nil), pi.Addrs...)
	addrs = append(addrs, h.raw.Addrs(pi.ID)...)
	att := h.w.recordAttemptSnap("connect", pi.ID, addrs, done)
	sc, dialed, ok := att.script()
	if !ok {
		return errScripted
	}
	switch sc.Connect {
	case connFailNow:
		return errScripted
	case connFailLater:
		if err := sleepCtx(ctx, sc.Delay); err != nil {
			return err
		}
		return errScripted
	case connHang:
		<-ctx.Done()
		return ctx.Err()
	default: // connOK
		if err := sleepCtx(ctx, sc.Delay); err != nil {
			return err
		}
	}
	h.mu.Lock()
	h.connected[pi.ID] = &outConn{inConn: inConn{local: h.id, remote: pi.ID, raddr: dialed, laddr: ma.StringCast("/ip4/9.9.9.9/tcp/9"), id: "out"}, script: sc}
	h.mu.Unlock()
	return nil
}

func (h *dialHost) NewStream(ctx context.Context, p peer.ID, pids ...protocol.ID) (network.Stream, error) {
	h.w.recordAttempt("newstream", p, nil)
	c := h.conn(p)
	if c == nil {
		return nil, network.ErrNoConn
	}
	if err := ctx.Err(); err != nil {
		return nil, err
	}
	if c.script.Stream == dbNoStream {
		return nil, errScripted
	}
	local, remote := memnet.Pipe(memnet.Options{})
	h.mu.Lock()
	h.nstreams++
	id := fmt.Sprintf("db%d", h.nstreams)
	h.mu.Unlock()
	var pid protocol.ID
	if len(pids) > 0 {
		pid = pids[0]
	}
	go playDialBack(remote, c.script)
	return &pipeStream{c: local, conn: c, id: id, proto: pid, dir: network.DirOutbound}, nil
}

// playDialBack is the requesting peer's end of the dial-back stream.
func playDialBack(end *memnet.Conn, sc dbScript) {
	defer end.Close()
	switch sc.Stream {
	case dbReset:
		end.Reset()
		return
	case dbRespond:
		// wait for the first bytes of the DialBack message, answer with an (empty)
		// DialBackResponse frame, then drain
		b := make([]byte, 64)
		if _, err := end.Read(b); err != nil {
			return
		}
		end.Write([]byte{0})
	case dbCloseEarly:
		return
	}
	io.Copy(io.Discard, end)
}

var _ = autonatv2.DialProtocol
