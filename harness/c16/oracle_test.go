package c16

// The oracle judges a recorded history against the statement of C16. It never looks
// at the server's state: its inputs are the generated scenario (address classes by
// construction, limits), the instants at which the harness delivered the requests,
// the bytes the server wrote on each request stream, the calls it made on the dialer
// host and the stream byte counters snapshotted at those calls.

import (
	"encoding/binary"
	"fmt"
	"sort"
	"time"

	"github.com/libp2p/go-libp2p/core/peer"
	"github.com/libp2p/go-libp2p/p2p/protocol/autonatv2/pb"
	"google.golang.org/protobuf/proto"
)

const (
	minDialData = 30_000
	maxDialData = 100_000
	window      = time.Minute
)

type srvMsg struct {
	End int // offset in the server's output after this message
	At  time.Duration
	Msg *pb.Message
}

// parseServerLog splits what the server wrote into length-delimited messages.
func parseServerLog(r *reqRun) (msgs []srvMsg, junk bool) {
	b := r.wlog
	off := 0
	for off < len(b) {
		l, k := binary.Uvarint(b[off:])
		if k <= 0 || off+k+int(l) > len(b) || l > 1<<20 {
			return msgs, true
		}
		var m pb.Message
		if err := proto.Unmarshal(b[off+k:off+k+int(l)], &m); err != nil {
			return msgs, true
		}
		off += k + int(l)
		sm := srvMsg{End: off, Msg: &m}
		i := sort.Search(len(r.wstamps), func(i int) bool { return r.wstamps[i].Off >= off })
		if i < len(r.wstamps) {
			sm.At = r.wstamps[i].At
		}
		msgs = append(msgs, sm)
	}
	return msgs, false
}

// credited is the most generous count of dial-data bytes contained in the first w
// wire bytes the client wrote after its request: the Data bytes of well-formed
// DialDataResponse messages; every byte of anything else (garbage cannot be read as
// "less than it is"); every byte once message alignment is unknown.
func credited(segs []seg, eager bool, w int64) int64 {
	if w < 0 {
		return 0
	}
	if eager {
		return w
	}
	var d int64
	aligned := true
	for _, s := range segs {
		if w <= 0 {
			break
		}
		take := min(w, int64(s.Wire))
		if !aligned || s.Full {
			d += take
		} else if hdr := int64(s.Wire - s.Data); take > hdr {
			d += take - hdr
		}
		if s.Raw {
			aligned = false
		}
		w -= take
	}
	return d + max(w, 0)
}

type reqView struct {
	msgs     []srvMsg
	rejected bool
	ddr      *srvMsg
	resp     *pb.DialResponse
	dialled  map[string]bool
}

type verdict struct {
	violations []string
	labels     map[string]bool
	nontrivial bool
}

func (v *verdict) fail(format string, a ...any) {
	if len(v.violations) < 8 {
		v.violations = append(v.violations, fmt.Sprintf(format, a...))
	}
}

func slidingMax(ts []time.Duration) int {
	sort.Slice(ts, func(i, j int) bool { return ts[i] < ts[j] })
	best, j := 0, 0
	for i := range ts {
		if j < i {
			j = i
		}
		for j < len(ts) && ts[j] < ts[i]+window {
			j++
		}
		best = max(best, j-i)
	}
	return best
}

func judge(sc *scenario, res *result) *verdict {
	v := &verdict{labels: map[string]bool{}}
	w := res.w
	views := make([]*reqView, len(w.reqs))
	peerOf := func(r *reqRun) peer.ID { return sc.Peers[r.spec.Peer].ID }
	requesters := map[peer.ID]bool{}

	for i, r := range w.reqs {
		rv := &reqView{dialled: map[string]bool{}}
		views[i] = rv
		if r.launched < 0 {
			continue
		}
		requesters[peerOf(r)] = true
		var junk bool
		rv.msgs, junk = parseServerLog(r)
		if junk {
			v.labels["server-output:undecodable"] = true
		}
		for k := range rv.msgs {
			m := &rv.msgs[k]
			if d := m.Msg.GetDialDataRequest(); d != nil && rv.ddr == nil {
				rv.ddr = m
			}
			if d := m.Msg.GetDialResponse(); d != nil {
				if rv.resp == nil {
					rv.resp = d
				}
				if d.GetStatus() == pb.DialResponse_E_REQUEST_REJECTED {
					rv.rejected = true
				}
			}
		}
	}

	// ---- amplification --------------------------------------------------------
	for _, a := range w.attempts {
		if !requesters[a.Peer] {
			v.fail("%s on the dialer host at %v targets peer %s, which made no request", a.Kind, a.At, a.Peer)
			continue
		}
		for _, aa := range a.Addrs {
			if aa.Req == nil {
				v.fail("%s at %v: address %x (peer %s) is byte-identical to no entry of any request", a.Kind, a.At, aa.Bytes, a.Peer)
				continue
			}
			r := aa.Req
			rv := views[indexOf(w, r)]
			e := &r.spec.Entries[aa.Entry]
			if a.Peer != peerOf(r) {
				v.fail("%s at %v: address %s was named by peer %s but is dialled for peer %s", a.Kind, a.At, e.Str, peerOf(r), a.Peer)
				continue
			}
			if r.launched < 0 {
				v.fail("%s at %v: address %s of request %d dialled before the request arrived", a.Kind, a.At, e.Str, r.spec.ID)
				continue
			}
			if aa.OwnerDone {
				v.fail("%s at %v: address %s was named in request %d, which had already been completed at %v: it is not taken from a request being served", a.Kind, a.At, e.Str, r.spec.ID, r.doneAt)
			}
			if !e.Public {
				v.fail("%s at %v: request %d: dial-back to non-public address %s (entry %d, class %s)", a.Kind, a.At, r.spec.ID, e.Str, aa.Entry, e.Class)
			}
			if !e.Dialable {
				v.fail("%s at %v: request %d: dial-back to address %s (entry %d) which the dialer cannot dial", a.Kind, a.At, r.spec.ID, e.Str, aa.Entry)
			}
			obs := sc.Peers[r.spec.Peer].Conns[r.spec.Conn]
			if e.needsData(obs.netIP()) {
				var ddr *srvMsg
				for k := range rv.msgs {
					if rv.msgs[k].Msg.GetDialDataRequest() != nil && rv.msgs[k].End <= aa.Written {
						ddr = &rv.msgs[k]
						break
					}
				}
				if ddr == nil {
					v.fail("%s at %v: request %d observed from %s: dial-back to %s (IP differs) without a DialDataRequest having been sent first", a.Kind, a.At, r.spec.ID, obs.Addr, e.Str)
				} else {
					n := ddr.Msg.GetDialDataRequest().GetNumBytes()
					if n < minDialData || n > maxDialData {
						v.fail("request %d: DialDataRequest asked for %d bytes, outside [%d, %d], and the address %s was dialled", r.spec.ID, n, minDialData, maxDialData, e.Str)
					}
					got := credited(r.segs, r.eager, aa.Consumed-int64(r.reqWire))
					if got < int64(n) {
						v.fail("%s at %v: request %d observed from %s: dial-back to %s (IP differs) after only %d of the %d requested bytes of dial data had been received (%d stream bytes consumed, dial-data behaviour %s)",
							a.Kind, a.At, r.spec.ID, obs.Addr, e.Str, got, n, aa.Consumed, ddNames[r.spec.DD.Kind])
					}
					v.labels["dial-after-data:"+ddNames[r.spec.DD.Kind]] = true
				}
				if e.IP == nil {
					v.labels["dial:dns"] = true
				} else {
					v.labels["dial:foreign"] = true
				}
			} else {
				v.labels["dial:sameIP"] = true
			}
			rv.dialled[string(canon(aa.Bytes, a.Peer))] = true
		}
	}
	for i, r := range w.reqs {
		rv := views[i]
		if len(rv.dialled) > 1 {
			v.fail("request %d: %d different addresses were dialled for one request", r.spec.ID, len(rv.dialled))
		}
		if r.launched < 0 {
			continue
		}
		// ---- refusal ---------------------------------------------------------
		if r.spec.Kind == bodyRequest {
			eligible := false
			for k := range r.spec.Entries {
				if r.spec.Entries[k].eligible() {
					eligible = true
					break
				}
			}
			if !eligible {
				v.labels["req:nothing-eligible"] = true
				if rv.resp != nil {
					if st := rv.resp.GetStatus(); st != pb.DialResponse_E_DIAL_REFUSED && st != pb.DialResponse_E_REQUEST_REJECTED {
						v.fail("request %d names no public dialable address but was answered with status %s", r.spec.ID, st)
					}
				} else if r.spec.PreDelay == 0 && r.spec.SplitAt == 0 && len(r.spec.Frame) <= 8192 {
					v.fail("request %d names no public dialable address, was delivered at once, and got no refusal (no DialResponse at all)", r.spec.ID)
				}
			}
		}
		// ---- labels ----------------------------------------------------------
		switch {
		case rv.resp == nil:
			v.labels["resp:none(reset)"] = true
		default:
			v.labels["resp:"+rv.resp.GetStatus().String()] = true
			if rv.resp.GetStatus() == pb.DialResponse_OK {
				v.labels["dialstatus:"+rv.resp.GetDialStatus().String()] = true
			}
		}
		if rv.ddr != nil {
			v.labels["ddr"] = true
			v.labels["ddr:"+ddNames[r.spec.DD.Kind]] = true
			v.nontrivial = true
			if r.eager {
				v.labels["ddr:eager-client"] = true
			}
		}
		if rv.rejected {
			v.nontrivial = true
			if r.srvEnd.BytesRead.Load() > 0 {
				v.labels["rejected:after-reading(dial-data limit)"] = true
			} else {
				v.labels["rejected:before-reading"] = true
			}
		}
		v.labels["body:"+bodyNames[r.spec.Kind]] = true
	}

	// ---- rate limits -------------------------------------------------------------
	// accepted = delivered to the handler and not answered with E_REQUEST_REJECTED. A
	// client that tore its stream down on its own may have made the rejection
	// undeliverable (the server writes the length prefix and the body separately, so
	// even half a message can be on record): such a request counts only with positive
	// evidence that it got past the limiter (the server read from the stream or wrote
	// a complete message other than a rejection).
	var all []time.Duration
	perPeer := map[peer.ID][]time.Duration{}
	var dd []time.Duration
	for i, r := range w.reqs {
		if r.launched < 0 {
			continue
		}
		if rv := views[i]; !rv.rejected && (!r.aborted || r.srvEnd.BytesRead.Load() > 0 || len(rv.msgs) > 0) {
			all = append(all, r.launched)
			perPeer[peerOf(r)] = append(perPeer[peerOf(r)], r.launched)
		}
		if rv := views[i]; rv.ddr != nil {
			dd = append(dd, rv.ddr.At)
		}
	}
	L := sc.Limits
	dump := func() string {
		out := ""
		for i, r := range w.reqs {
			if r.launched < 0 {
				continue
			}
			out += fmt.Sprintf("\n      req %d peer %d at %v (%s, body %s): rejected=%v aborted=%v serverRead=%d serverWrote=%x done@%v",
				r.spec.ID, r.spec.Peer, r.launched, r.spec.Profile, bodyNames[r.spec.Kind], views[i].rejected, r.aborted, r.srvEnd.BytesRead.Load(), r.wlog, r.doneAt)
		}
		return out
	}
	if m := slidingMax(all); m > L.RPM {
		v.fail("global limit: %d requests accepted within one minute, limit %d (accept instants %v)%s", m, L.RPM, all, dump())
	} else if m == L.RPM && m > 0 {
		v.labels["full:rpm"] = true
	}
	for p, ts := range perPeer {
		if m := slidingMax(ts); m > L.PerPeer {
			v.fail("per-peer limit: %d requests of peer %s accepted within one minute, limit %d (accept instants %v)%s", m, p, L.PerPeer, ts, dump())
		} else if m == L.PerPeer && m > 0 {
			v.labels["full:perPeer"] = true
		}
	}
	if m := slidingMax(dd); m > L.DialData {
		v.fail("dial-data limit: %d dial-data requests accepted within one minute, limit %d (instants %v)", m, L.DialData, dd)
	} else if m == L.DialData && m > 0 {
		v.labels["full:dialData"] = true
	}
	for _, s := range res.samples {
		cnt := map[peer.ID]int{}
		for _, i := range s.Open {
			if !views[i].rejected {
				cnt[peerOf(w.reqs[i])]++
			}
		}
		for p, c := range cnt {
			if c > L.MaxConc {
				v.fail("concurrency: %d requests of peer %s are being served at %v, limit %d (requests %v)", c, p, s.At, L.MaxConc, s.Open)
			} else if c == L.MaxConc {
				v.labels["full:maxConcurrent"] = true
			}
			if c > 1 {
				v.labels["concurrent-requests-of-one-peer"] = true
			}
		}
	}
	inflightLabels(sc, res, views, v)
	if len(res.unfinished) > 0 {
		v.fail("handler of request(s) %v still running five virtual minutes after the last arrival", res.unfinished)
	}
	return v
}

func indexOf(w *world, r *reqRun) int {
	for i, x := range w.reqs {
		if x == r {
			return i
		}
	}
	return -1
}

// inflightLabels records — as coverage only, it gives no verdict — how often a request
// of a peer was turned away while another request of the same peer was being served,
// and what came after. With b the rejected request, a the one in service, stage =
// "dial-data-window" (b had been admitted and read, and held one of the peer's
// concurrency slots when it was rejected) or "before-reading" (windows / concurrency
// limit):
//
//	inflight-rejection:<stage>                 a was launched before b (strictly earlier in virtual time, or
//	                                           earlier in a burst that was allowed to settle) and was still
//	                                           being served when b's handler returned
//	inflight-rejection:<stage>+followers       ... and more requests of the peer arrived after b had been
//	                                           completed while a was still being served
//	inflight-rejection:<stage>+limit-reached   ... and at a quiescence point at which a and at least one
//	                                           admitted follower were in service, the peer had as many
//	                                           requests in service as the concurrency limit allows
//	inflight-rejection:<stage>+limit-binding   ... and a further follower that arrived while a was still in
//	                                           service was turned away before its request was read
func inflightLabels(sc *scenario, res *result, views []*reqView, v *verdict) {
	w := res.w
	admitted := func(i int) bool {
		r := w.reqs[i]
		return r.launched >= 0 && !views[i].rejected && (!r.aborted || r.srvEnd.BytesRead.Load() > 0 || len(views[i].msgs) > 0)
	}
	for i, b := range w.reqs {
		if b.launched < 0 || !views[i].rejected || !b.handlerDone {
			continue
		}
		stage := "before-reading"
		if b.srvEnd.BytesRead.Load() > 0 {
			stage = "dial-data-window"
		}
		for j, a := range w.reqs {
			if j == i || a.spec.Peer != b.spec.Peer || !admitted(j) {
				continue
			}
			before := a.launched < b.launched || (a.launched == b.launched && j < i && b.spec.Settle)
			if !before || (a.handlerDone && a.doneAt <= b.doneAt) {
				continue
			}
			inService := func(at time.Duration) bool { return !a.handlerDone || at < a.doneAt }
			base := "inflight-rejection:" + stage
			v.labels[base] = true
			follower := func(k int) bool {
				c := w.reqs[k]
				if k == i || k == j || c.spec.Peer != b.spec.Peer || c.launched < 0 || !inService(c.launched) {
					return false
				}
				return c.launched > b.doneAt || (c.launched == b.doneAt && k > i && c.spec.Settle)
			}
			turnedAway := false
			for k := range w.reqs {
				if follower(k) {
					v.labels[base+"+followers"] = true
					if views[k].rejected && w.reqs[k].srvEnd.BytesRead.Load() == 0 {
						turnedAway = true
					}
				}
			}
			for _, s := range res.samples {
				if s.At < b.doneAt {
					continue
				}
				cnt, hasA, hasB, hasFollower := 0, false, false, false
				for _, k := range s.Open {
					hasA = hasA || k == j
					hasB = hasB || k == i
					if w.reqs[k].spec.Peer == b.spec.Peer && !views[k].rejected {
						cnt++
						hasFollower = hasFollower || (follower(k) && admitted(k))
					}
				}
				if hasA && !hasB && hasFollower && cnt >= sc.Limits.MaxConc {
					v.labels[base+"+limit-reached"] = true
					if turnedAway {
						v.labels[base+"+limit-binding"] = true
					}
				}
			}
		}
	}
}
