package c02

import (
	"context"
	"errors"
	"fmt"
	"net"
	"sync"
	"testing"
	"time"

	"github.com/libp2p/go-libp2p/core/host"
	"github.com/libp2p/go-libp2p/core/network"
	"github.com/libp2p/go-libp2p/core/peer"
	"github.com/libp2p/go-libp2p/core/peerstore"
	"github.com/libp2p/go-libp2p/core/protocol"
	"github.com/libp2p/go-libp2p/core/sec"
	"github.com/libp2p/go-libp2p/core/transport"
	bhost "github.com/libp2p/go-libp2p/p2p/host/basic"
	"github.com/libp2p/go-libp2p/p2p/host/eventbus"
	"github.com/libp2p/go-libp2p/p2p/host/peerstore/pstoremem"
	"github.com/libp2p/go-libp2p/p2p/muxer/yamux"
	"github.com/libp2p/go-libp2p/p2p/net/swarm"
	"github.com/libp2p/go-libp2p/p2p/net/upgrader"
	"github.com/libp2p/go-libp2p/p2p/protocol/identify"
	"github.com/libp2p/go-libp2p/p2p/security/insecure"
	"github.com/libp2p/go-libp2p/p2p/security/noise"
	libp2ptls "github.com/libp2p/go-libp2p/p2p/security/tls"
	ma "github.com/multiformats/go-multiaddr"
	manet "github.com/multiformats/go-multiaddr/net"
	"pgregory.net/rapid"

	"verif/internal/hx"
	"verif/internal/keys"
	"verif/internal/memnet"
	"verif/internal/stats"
)

func drawStack(rt *rapid.T, c *muxCase) {
	// "insecure" = the plaintext transport a node configured without security runs in this place
	c.Sec = rapid.SampledFrom([]string{"noise", "tls", "insecure", "noise", "tls"}).Draw(rt, "sec")
	c.PSK = rapid.Bool().Draw(rt, "psk")
	c.Early = rapid.Bool().Draw(rt, "early")
	if c.Sec == "insecure" {
		c.Early = false // its handshake cannot carry the muxer choice
	}
}

// mkUpgrader builds the real upgrader for one identity with the drawn stack.
func mkUpgrader(id *keys.Identity, c *muxCase) (transport.Upgrader, error) {
	muxers := []upgrader.StreamMuxer{{ID: yamux.ID, Muxer: yamux.DefaultTransport}}
	var secMuxers []upgrader.StreamMuxer
	if c.Early {
		secMuxers = muxers
	}
	var st sec.SecureTransport
	var err error
	switch c.Sec {
	case "tls":
		st, err = libp2ptls.New(libp2ptls.ID, id.Priv, secMuxers)
	case "insecure":
		// no muxer negotiation inside this handshake: the muxer is always chosen by multistream
		st = insecure.NewWithIdentity(insecure.ID, id.ID, id.Priv)
	default:
		st, err = noise.New(noise.ID, id.Priv, secMuxers)
	}
	if err != nil {
		return nil, err
	}
	var psk []byte
	if c.PSK {
		psk = pskOf(c.Key)
	}
	return upgrader.New([]sec.SecureTransport{st}, muxers, psk, nil, nil)
}

func stackLabels(c *muxCase) []string {
	l := []string{"sec:" + c.Sec}
	if c.PSK {
		l = append(l, "psk")
	}
	if c.Early {
		l = append(l, "early-muxer-negotiation")
	} else {
		l = append(l, "multistream-muxer-negotiation")
	}
	if c.Cap > 0 {
		l = append(l, "pipe:bounded")
	}
	if c.Chop[0].short() || c.Chop[1].short() {
		l = append(l, "short-reads")
	}
	return l
}

// TestL5UpgraderStack: the real upgrader (optional PSK conn + Noise or TLS + yamux,
// muxer chosen inside the handshake or by multistream) on both ends of one pipe.
func TestL5UpgraderStack(t *testing.T) {
	skipIfLowerLayerFailed(t)
	defer noteFailure(t)
	name := t.Name()
	hx.Check(t, 600, 18000, 0, func(rt *rapid.T) {
		c := &muxCase{Layer: "upgrader"}
		c.Key = rapid.Uint64().Draw(rt, "key")
		c.Cap = rapid.SampledFrom(capSizes).Draw(rt, "cap")
		c.Chop[0], c.Chop[1] = drawChop(rt, "chopA"), drawChop(rt, "chopB")
		drawStack(rt, c)
		c.Streams = drawStreams(rt, 4, 1, yamuxWindow)
		var out streamsOutcome
		hx.Bubble(t, rt, func() {
			idA, idB := keys.Ed(1), keys.Ed(2)
			ma0, mb0 := memnet.Pipe(memnet.Options{Capacity: c.Cap})
			defer ma0.Close()
			defer mb0.Close()
			uA, err := mkUpgrader(idA, c)
			if err != nil {
				rt.Fatalf("upgrader A: %v", err)
			}
			uB, err := mkUpgrader(idB, c)
			if err != nil {
				rt.Fatalf("upgrader B: %v", err)
			}
			mcA, err := manet.WrapNetConn(newChop(ma0, c.Chop[0]))
			if err != nil {
				rt.Fatalf("wrap: %v", err)
			}
			mcB, err := manet.WrapNetConn(newChop(mb0, c.Chop[1]))
			if err != nil {
				rt.Fatalf("wrap: %v", err)
			}
			type res struct {
				c   transport.CapableConn
				err error
			}
			ch := make(chan res, 1)
			ctx := context.Background()
			go func() {
				cc, err := uB.Upgrade(ctx, nil, mcB, network.DirInbound, "", &network.NullScope{})
				ch <- res{cc, err}
			}()
			ccA, errA := uA.Upgrade(ctx, nil, mcA, network.DirOutbound, idB.ID, &network.NullScope{})
			if errA != nil {
				ma0.Close()
			}
			rB := <-ch
			if errA != nil || rB.err != nil {
				if rB.c != nil {
					rB.c.Close()
				}
				if ccA != nil {
					ccA.Close()
				}
				rt.Fatalf("upgrade over a faithful pipe failed: outbound=%v inbound=%v", errA, rB.err)
			}
			defer ccA.Close()
			defer rB.c.Close()
			o, a := muxedOpeners([2]network.MuxedConn{ccA, rB.c})
			out = runStreams(rt, bubbleEnv, c.Layer, c.Key, c.Streams, yamuxFrame, o, a)
		})
		labels, nontrivial := streamLabels(c.Streams, out, yamuxFrame)
		labels = append(labels, stackLabels(c)...)
		stats.Case(name, c.fingerprint(), nontrivial, labels...)
		if stats.WantSample(name) {
			stats.Sample(name, c.sample())
		}
	})
}

// ---------------------------------------------------------------------------
// two BasicHosts over an in-memory transport that uses the real upgrader

type memWorld struct {
	mu        sync.Mutex
	listeners map[string]*memnet.Listener
	c         *muxCase
	pipes     []*memnet.Conn
}

type memTransport struct {
	w     *memWorld
	u     transport.Upgrader
	local *net.TCPAddr
}

var _ transport.Transport = (*memTransport)(nil)

func (t *memTransport) CanDial(a ma.Multiaddr) bool {
	_, err := manet.ToNetAddr(a)
	return err == nil
}

func (t *memTransport) Protocols() []int { return []int{ma.P_TCP} }
func (t *memTransport) Proxy() bool      { return false }

func (t *memTransport) Dial(ctx context.Context, raddr ma.Multiaddr, p peer.ID) (transport.CapableConn, error) {
	na, err := manet.ToNetAddr(raddr)
	if err != nil {
		return nil, err
	}
	t.w.mu.Lock()
	l := t.w.listeners[na.String()]
	t.w.mu.Unlock()
	if l == nil {
		return nil, errors.New("memtransport: connection refused")
	}
	client, server := memnet.Pipe(memnet.Options{LocalAddr: t.local, RemoteAddr: na, Capacity: t.w.c.Cap})
	t.w.mu.Lock()
	t.w.pipes = append(t.w.pipes, client, server)
	t.w.mu.Unlock()
	if !l.Inject(newChop(server, t.w.c.Chop[1])) {
		client.Close()
		return nil, errors.New("memtransport: listener closed")
	}
	mc, err := manet.WrapNetConn(newChop(client, t.w.c.Chop[0]))
	if err != nil {
		return nil, err
	}
	return t.u.Upgrade(ctx, t, mc, network.DirOutbound, p, &network.NullScope{})
}

func (t *memTransport) Listen(laddr ma.Multiaddr) (transport.Listener, error) {
	na, err := manet.ToNetAddr(laddr)
	if err != nil {
		return nil, err
	}
	l := memnet.NewListener(na)
	t.w.mu.Lock()
	t.w.listeners[na.String()] = l
	t.w.mu.Unlock()
	ml, err := manet.WrapNetListener(l)
	if err != nil {
		return nil, err
	}
	return t.u.UpgradeListener(t, ml), nil
}

type memHost struct {
	*bhost.BasicHost
	ps peerstore.Peerstore
}

func (h *memHost) Close() error {
	err := h.BasicHost.Close()
	h.ps.Close()
	return err
}

func newMemHost(w *memWorld, id *keys.Identity, ip string, listen bool, negTimeout time.Duration) (*memHost, error) {
	ps, err := pstoremem.NewPeerstore()
	if err != nil {
		return nil, err
	}
	ps.AddPrivKey(id.ID, id.Priv)
	ps.AddPubKey(id.ID, id.Pub)
	bus := eventbus.NewBus()
	sw, err := swarm.NewSwarm(id.ID, ps, bus)
	if err != nil {
		ps.Close()
		return nil, err
	}
	u, err := mkUpgrader(id, w.c)
	if err != nil {
		sw.Close()
		ps.Close()
		return nil, err
	}
	tr := &memTransport{w: w, u: u, local: &net.TCPAddr{IP: net.ParseIP(ip), Port: 40000}}
	if err := sw.AddTransport(tr); err != nil {
		sw.Close()
		ps.Close()
		return nil, err
	}
	if listen {
		if err := sw.Listen(ma.StringCast("/ip4/" + ip + "/tcp/4001")); err != nil {
			sw.Close()
			ps.Close()
			return nil, err
		}
	}
	h, err := bhost.NewHost(sw, &bhost.HostOpts{EventBus: bus, NegotiationTimeout: negTimeout})
	if err != nil {
		sw.Close()
		ps.Close()
		return nil, err
	}
	h.Start()
	return &memHost{BasicHost: h, ps: ps}, nil
}

// runHostStreams connects hosts[0] to hosts[1] and runs the planned streams through
// Host.NewStream / SetStreamHandler; inbound streams are routed by protocol id.
func runHostStreams(f failer, env runEnv, hosts [2]host.Host, c *hostCase) streamsOutcome {
	incoming := make([]chan halfStream, len(c.Streams))
	caseOver := make(chan struct{})
	defer close(caseOver)
	for i, sp := range c.Streams {
		incoming[i] = make(chan halfStream, 1)
		ch := incoming[i]
		if i < len(c.Sync) && c.Sync[i] {
			// the handler keeps the stream for itself: it returns only when the stream is done with
			// (the runner closes or resets every stream it was given), like a handler that serves
			// the stream synchronously
			hosts[1-sp.Opener].SetStreamHandler(pidOf(i), func(s network.Stream) {
				hs := &heldStream{Stream: s, released: make(chan struct{})}
				ch <- hs
				select {
				case <-hs.released:
				case <-caseOver:
				}
			})
			continue
		}
		hosts[1-sp.Opener].SetStreamHandler(pidOf(i), func(s network.Stream) { ch <- s })
	}
	limit := 10 * time.Minute
	if env.real {
		limit = 2 * time.Minute
	}
	ctx, cancel := context.WithTimeout(context.Background(), limit)
	defer cancel()
	if err := hosts[0].Connect(ctx, peer.AddrInfo{ID: hosts[1].ID(), Addrs: hosts[1].Addrs()}); err != nil {
		if env.real {
			env.stalled(f, "connect over loopback failed: %v", err)
		}
		f.Fatalf("connect over a faithful pipe failed: %v", err)
	}
	var o [2]streamOpener
	var a [2]streamAcceptor
	for side := 0; side < 2; side++ {
		self, other := hosts[side], hosts[1-side]
		o[side] = func(ctx context.Context, idx int) (halfStream, error) {
			// Identify stores the peer's protocols when it completes: let it finish first, so that
			// the peerstore entry written below (and with it the lazy / eager choice NewStream
			// makes) is the drawn one and not the outcome of a race with identify.
			if ih, ok := self.(interface{ IDService() identify.IDService }); ok {
				for _, cn := range self.Network().ConnsToPeer(other.ID()) {
					select {
					case <-ih.IDService().IdentifyWait(cn):
					case <-ctx.Done():
						return nil, fmt.Errorf("identify did not complete: %w", ctx.Err())
					}
				}
			}
			if c.Lazy[idx] {
				self.Peerstore().AddProtocols(other.ID(), pidOf(idx))
			} else {
				self.Peerstore().RemoveProtocols(other.ID(), pidOf(idx))
			}
			return self.NewStream(ctx, other.ID(), pidOf(idx))
		}
		a[side] = func(idx int) (halfStream, error) {
			select {
			case s := <-incoming[idx]:
				return s, nil
			case <-time.After(3 * limit):
				return nil, fmt.Errorf("handler was not called within %v", 3*limit)
			}
		}
	}
	return runStreams(f, env, c.Layer, c.Key, c.Streams, yamuxFrame, o, a)
}

type hostCase struct {
	muxCase
	Lazy []bool // per stream: the opener already "knows" the protocol (lazy negotiation wrapper)
	Sync []bool // per stream: the acceptor's handler does not return while the stream is in use
	// HostOpts.NegotiationTimeout of both hosts: 0 = the default (10 s), < 0 = none
	NegTimeout time.Duration
}

func (c *hostCase) negTimeout() time.Duration {
	switch {
	case c.NegTimeout == 0:
		return bhost.DefaultNegotiationTimeout
	case c.NegTimeout < 0:
		return 0
	}
	return c.NegTimeout
}

// heldStream is an inbound stream whose handler is still running; Close and Reset (the
// runner's last call on every stream) let the handler return.
type heldStream struct {
	network.Stream
	once     sync.Once
	released chan struct{}
}

func (h *heldStream) release() { h.once.Do(func() { close(h.released) }) }

func (h *heldStream) Close() error {
	defer h.release()
	return h.Stream.Close()
}

func (h *heldStream) Reset() error {
	defer h.release()
	return h.Stream.Reset()
}

var negTimeouts = []time.Duration{0, 0, time.Second, 3 * time.Second, 30 * time.Second, -1}

// drawHostDims draws the host-level dimensions of every stream (negotiation style, handler
// style) and the hosts' negotiation timeout.
func drawHostDims(rt *rapid.T, c *hostCase) {
	c.NegTimeout = rapid.SampledFrom(negTimeouts).Draw(rt, "negotiation-timeout")
	for i := range c.Streams {
		c.Lazy = append(c.Lazy, rapid.IntRange(0, 2).Draw(rt, fmt.Sprintf("s%d-lazy", i)) > 0)
		c.Sync = append(c.Sync, rapid.IntRange(0, 2).Draw(rt, fmt.Sprintf("s%d-sync-handler", i)) > 0)
		if c.Lazy[i] {
			// The opener's end of a lazily negotiated stream performs the multistream handshake
			// inside its first Write / Read (and in a goroutine of its own); a deadline that
			// expires in there fails the negotiation for good, by design. Deadlines on that end
			// are therefore not generated; the acceptor's end (a plain swarm stream) keeps them.
			c.Streams[i].Fwd.DL.W = 0
			c.Streams[i].Rev.DL.R = 0
			// For the same reason the opener does not idle before the protocol has been negotiated,
			// i.e. before its first bytes are on the wire: the acceptor's host gives up on a stream
			// that does not name its protocol within the negotiation timeout, by design. The long
			// pause moves behind the first non-empty Write (or goes away if there is none).
			if f := &c.Streams[i].Fwd; f.DL.WLong > 0 {
				first := 0
				for first < len(f.Writes) && f.Writes[first] == 0 {
					first++
				}
				if f.DL.WLongAt <= first {
					f.DL.WLongAt = first + 1
				}
				if f.DL.WLongAt >= len(f.Writes) {
					f.DL.WLong, f.DL.WLongAt = 0, 0
				}
			}
		}
	}
}

// hostLabels: generated host-level classes. outlives = a stream whose inbound end is held by
// a synchronous handler stays in use beyond the acceptor's negotiation timeout.
func hostLabels(c *hostCase) (labels []string) {
	nl, ne := 0, 0
	for i, l := range c.Lazy {
		if l {
			nl++
			if len(c.Streams[i].Fwd.Writes) == 0 {
				labels = append(labels, "lazy:closewrite-before-any-write")
			} else if c.Streams[i].Fwd.Total == 0 {
				labels = append(labels, "lazy:empty-write-then-closewrite")
			}
		} else {
			ne++
		}
	}
	if nl > 0 {
		labels = append(labels, "lazy-negotiation")
	}
	if ne > 0 {
		labels = append(labels, "eager-negotiation")
	}
	switch {
	case c.NegTimeout == 0:
		labels = append(labels, "negotiation-timeout:default-10s")
	case c.NegTimeout < 0:
		labels = append(labels, "negotiation-timeout:none")
	default:
		labels = append(labels, fmt.Sprintf("negotiation-timeout:%v", c.NegTimeout))
	}
	for i, sy := range c.Sync {
		if !sy {
			labels = append(labels, "handler:hands-stream-over-and-returns")
			continue
		}
		labels = append(labels, "handler:keeps-stream-until-done")
		sp := c.Streams[i]
		idle := max(sp.Fwd.DL.WLong, sp.Fwd.DL.RLong, sp.Rev.DL.WLong, sp.Rev.DL.RLong)
		if nt := c.negTimeout(); nt > 0 && idle > nt {
			labels = append(labels, "handler:keeps-stream-beyond-negotiation-timeout")
		}
	}
	return labels
}

func pidOf(idx int) protocol.ID { return protocol.ID(fmt.Sprintf("/c02/stream/%d", idx)) }

// TestL5Hosts: BasicHost.NewStream between two hosts (swarm streams, identify running
// alongside), each stream negotiated either eagerly or through the lazy wrapper.
func TestL5Hosts(t *testing.T) {
	skipIfLowerLayerFailed(t)
	name := t.Name()
	hx.Check(t, 400, 12000, 0, func(rt *rapid.T) {
		c := &hostCase{}
		c.Layer = "hosts"
		c.Key = rapid.Uint64().Draw(rt, "key")
		c.Cap = rapid.SampledFrom(capSizes).Draw(rt, "cap")
		c.Chop[0], c.Chop[1] = drawChop(rt, "chopA"), drawChop(rt, "chopB")
		drawStack(rt, &c.muxCase)
		// multistream negotiation runs on the stream itself before the payload (a few dozen
		// bytes each way): the polling class gets that much less than the initial window
		c.Streams = drawStreams(rt, 4, 1, yamuxWindow-1024)
		drawHostDims(rt, c)
		var out streamsOutcome
		hx.Bubble(t, rt, func() {
			w := &memWorld{listeners: map[string]*memnet.Listener{}, c: &c.muxCase}
			defer func() {
				for _, p := range w.pipes {
					p.Close()
				}
			}()
			hA, err := newMemHost(w, keys.Ed(1), "10.0.0.1", false, c.NegTimeout)
			if err != nil {
				rt.Fatalf("host A: %v", err)
			}
			defer hA.Close()
			hB, err := newMemHost(w, keys.Ed(2), "10.0.0.2", true, c.NegTimeout)
			if err != nil {
				rt.Fatalf("host B: %v", err)
			}
			defer hB.Close()
			out = runHostStreams(rt, bubbleEnv, [2]host.Host{hA, hB}, c)
		})
		labels, nontrivial := streamLabels(c.Streams, out, yamuxFrame)
		labels = append(labels, stackLabels(&c.muxCase)...)
		labels = append(labels, hostLabels(c)...)
		stats.Case(name, c.fingerprint()+fmt.Sprint(c.Lazy, c.Sync, c.NegTimeout), nontrivial, dedup(labels)...)
		if stats.WantSample(name) {
			m := c.sample()
			m["lazy"], m["handler_keeps_stream"], m["negotiation_timeout"] = c.Lazy, c.Sync, c.NegTimeout.String()
			stats.Sample(name, m)
		}
	})
}

func dedup(in []string) []string {
	seen := map[string]bool{}
	var out []string
	for _, s := range in {
		if !seen[s] {
			seen[s] = true
			out = append(out, s)
		}
	}
	return out
}
