package c02

import (
	"context"
	"fmt"
	"io"
	"runtime"
	"strings"
	"sync"
	"sync/atomic"
	"testing"
	"time"

	"github.com/libp2p/go-libp2p/core/network"
	"github.com/libp2p/go-libp2p/p2p/muxer/yamux"
	"pgregory.net/rapid"

	"verif/internal/hx"
	"verif/internal/memnet"
	"verif/internal/stats"
)

// streamPlan is one bidirectional stream: Fwd flows opener -> acceptor, Rev back.
type streamPlan struct {
	Opener   int // 0 = side A (client), 1 = side B (server)
	Fwd, Rev dirPlan
}

func (s streamPlan) String() string {
	return fmt.Sprintf("{open=%c fwd=%v rev=%v}", "AB"[s.Opener], s.Fwd, s.Rev)
}

// halfStream is what the traffic runner needs from a stream at any layer.
type halfStream interface {
	io.Reader
	io.Writer
	CloseWrite() error
	Close() error
	Reset() error
	SetReadDeadline(time.Time) error
	SetWriteDeadline(time.Time) error
}

// streamEnd is an opened or accepted stream plus the index of the plan it belongs to.
type streamsOutcome struct {
	rd                  [][2]readResult // [stream][0 = fwd, 1 = rev]
	wr                  [][2]int
	ws                  [][2]writeResult
	readAfterCloseWrite int // streams on which a side received bytes after its own CloseWrite had returned
}

type streamOpener func(ctx context.Context, idx int) (halfStream, error)
type streamAcceptor func(idx int) (halfStream, error)

var yamuxTotals = []int{65524, 65525, 65523, 262144, 262145, 262143, 262144 + 65524, 2 * 65524, 2*65524 + 1}

// drawStreams draws the stream plans of a case. pollCap > 0: the layer's streams are driven
// with deadlines (write deadline + resume, polling / short read deadlines, slow readers)
// in 2 of 5 cases; pollCap is the largest payload a polling reader is given (see
// drawStreamDeadlines).
func drawStreams(rt *rapid.T, maxStreams, big int, pollCap int) []streamPlan {
	n := rapid.IntRange(1, maxStreams).Draw(rt, "nstreams")
	plans := make([]streamPlan, n)
	deadlines := pollCap > 0 && rapid.IntRange(0, 4).Draw(rt, "dl-case") < 2
	for i := range plans {
		l := fmt.Sprintf("s%d", i)
		plans[i].Opener = rapid.IntRange(0, 1).Draw(rt, l+"-opener")
		plans[i].Fwd = drawDir(rt, l+"f", big)
		plans[i].Rev = drawDir(rt, l+"r", max(0, big-1))
		if big > 0 && rapid.IntRange(0, 11).Draw(rt, l+"-ymx") == 0 {
			d := &plans[i].Fwd
			if rapid.Bool().Draw(rt, l+"-ymxrev") {
				d = &plans[i].Rev
			}
			d.Total = rapid.SampledFrom(yamuxTotals).Draw(rt, l+"-ytotal")
			d.Writes = drawWrites(rt, l+"y", d.Total)
		}
		if deadlines {
			drawStreamDeadlines(rt, l+"f", &plans[i].Fwd, pollCap)
			drawStreamDeadlines(rt, l+"r", &plans[i].Rev, pollCap)
		}
	}
	// virtual-time layers: in 1 of 3 cases streams stay idle for longer than the timeouts the
	// library arms by itself (drawn last: the deadline classes may have redrawn the Writes)
	if pollCap > 0 && rapid.IntRange(0, 2).Draw(rt, "idle-case") == 0 {
		for i := range plans {
			l := fmt.Sprintf("s%d", i)
			switch rapid.IntRange(0, 3).Draw(rt, l+"-idle-dir") {
			case 0:
				drawLongPause(rt, l+"f", &plans[i].Fwd)
			case 1:
				drawLongPause(rt, l+"r", &plans[i].Rev)
			case 2:
				drawLongPause(rt, l+"f", &plans[i].Fwd)
				drawLongPause(rt, l+"r", &plans[i].Rev)
			}
		}
	}
	return plans
}

// runStreams drives all planned streams over an established pair of muxed endpoints.
// open[x] opens the stream with plan index idx on side x; accept[x] returns the next
// stream accepted on side x (the runner serialises the first frame of every stream an
// endpoint opens, so streams are accepted in the order they were opened; layers that can
// name streams ignore idx ordering and route by name).
func runStreams(f failer, env runEnv, layer string, key uint64, plans []streamPlan, frameMax int, open [2]streamOpener, accept [2]streamAcceptor) streamsOutcome {
	out := streamsOutcome{rd: make([][2]readResult, len(plans)), wr: make([][2]int, len(plans)), ws: make([][2]writeResult, len(plans))}
	sk := &sink{failed: make(chan struct{})}
	done := make(chan struct{}, 4*len(plans)+4)
	workers := 0
	var mu sync.Mutex
	var all []halfStream
	aborted := false
	// register notes a stream for the final clean-up; once the case has failed every stream is
	// reset right away so that no worker stays blocked on a peer that has already given up
	register := func(s halfStream) {
		mu.Lock()
		all = append(all, s)
		dead := aborted
		mu.Unlock()
		if dead {
			s.Reset()
		}
	}
	abort := func() {
		mu.Lock()
		aborted = true
		ss := append([]halfStream(nil), all...)
		mu.Unlock()
		for _, s := range ss {
			s.Reset()
		}
	}
	var afterClose atomic.Int32
	ctx := context.Background()

	spawn := func(who string, fn func()) {
		go func() {
			defer func() { done <- struct{}{} }()
			defer sk.guard(who)
			fn()
		}()
	}
	// one direction of one stream, on the side that writes it
	writerRest := func(s halfStream, idx, dir int, p dirPlan, data []byte, startWrite, off int, closed *atomic.Bool) {
		who := fmt.Sprintf("%s stream %d dir %d writer", layer, idx, dir)
		rest := dirPlan{Writes: p.Writes[startWrite:], DL: p.DL.from(startWrite)}
		wres := runWriter(s, rest, data[off:], sk, who, false)
		n := wres.n
		out.ws[idx][dir].add(wres)
		out.wr[idx][dir] = off + n
		if off+n != p.Total {
			return
		}
		if err := s.CloseWrite(); err != nil {
			sk.failf("%s: CloseWrite after %d bytes: %v", who, p.Total, err)
		}
		closed.Store(true)
	}
	reader := func(s halfStream, idx, dir int, p dirPlan, data []byte, localClosed *atomic.Bool) {
		who := fmt.Sprintf("%s stream %d dir %d reader", layer, idx, dir)
		r := &afterCloseReader{r: s, closed: localClosed}
		res := runReader(r, p, p.frames(frameMax), data, sk, who, readerCfg{mode: readUntilEOF, frameMax: frameMax, setDL: s.SetReadDeadline})
		out.rd[idx][dir] = res
		if r.seen {
			afterClose.Add(1)
		}
	}

	for side := 0; side < 2; side++ {
		var mine, theirs []int
		for i, p := range plans {
			if p.Opener == side {
				mine = append(mine, i)
			} else {
				theirs = append(theirs, i)
			}
		}
		workers += 2 + 2*len(mine) + 2*len(theirs)
		spawn(fmt.Sprintf("%s side %d opener", layer, side), func() {
			for k, idx := range mine {
				s, err := open[side](ctx, idx)
				if err != nil {
					sk.failf("%s side %d: opening stream %d: %v", layer, side, idx, err)
					for range mine[k:] { // account for the workers that will not run
						done <- struct{}{}
						done <- struct{}{}
					}
					return
				}
				register(s)
				p := plans[idx]
				data := payload(key, idx, 0, p.Fwd.Total)
				closed := &atomic.Bool{}
				// the first operation that puts a frame on the wire happens here, in order
				wi, off := 0, 0
				who := fmt.Sprintf("%s stream %d dir 0 writer", layer, idx)
				for wi < len(p.Fwd.Writes) && off == 0 {
					sz := p.Fwd.Writes[wi]
					wres := runWriter(s, dirPlan{Writes: []int{sz}, DL: p.Fwd.DL.only(wi)}, data, sk, who, false)
					out.ws[idx][0].add(wres)
					off = wres.n
					wi++
					if off != sz {
						break
					}
				}
				if p.Fwd.Total == 0 {
					if err := s.CloseWrite(); err != nil {
						sk.failf("%s: CloseWrite on a fresh stream: %v", who, err)
					}
					closed.Store(true)
					out.wr[idx][0] = 0
					done <- struct{}{}
				} else {
					spawn(who, func() { writerRest(s, idx, 0, p.Fwd, data, wi, off, closed) })
				}
				spawn("reader", func() { reader(s, idx, 1, p.Rev, payload(key, idx, 1, p.Rev.Total), closed) })
			}
		})
		spawn(fmt.Sprintf("%s side %d acceptor", layer, side), func() {
			for k, idx := range theirs {
				s, err := accept[side](idx)
				if err != nil {
					sk.failf("%s side %d: accepting stream %d: %v", layer, side, idx, err)
					for range theirs[k:] {
						done <- struct{}{}
						done <- struct{}{}
					}
					return
				}
				register(s)
				p := plans[idx]
				closed := &atomic.Bool{}
				spawn("writer", func() { writerRest(s, idx, 1, p.Rev, payload(key, idx, 1, p.Rev.Total), 0, 0, closed) })
				spawn("reader", func() { reader(s, idx, 0, p.Fwd, payload(key, idx, 0, p.Fwd.Total), closed) })
			}
		})
	}
	// wait for the workers; at the first recorded failure (or after a virtual hour) reset
	// every stream: the verdict is in, the remaining workers only have to return
	ok := true
	stallDump := ""
	{
		limit := time.Hour
		if env.real {
			limit = 3 * time.Minute
		}
		timer := time.NewTimer(limit)
		failed := sk.failed
		for remaining := workers; remaining > 0; {
			select {
			case <-done:
				remaining--
			case <-failed:
				failed = nil
				abort()
			case <-timer.C:
				if !ok { // second expiry: workers survive a reset of their streams
					remaining = 0
					break
				}
				ok = false
				stallDump = workerStacks()
				abort()
				timer.Reset(time.Minute)
			}
		}
		timer.Stop()
	}
	mu.Lock()
	ss := append([]halfStream(nil), all...)
	mu.Unlock()
	for _, s := range ss {
		s.Close()
	}
	if !ok {
		env.stalled(f, "%s: stream workers did not finish within a virtual hour (first failure so far: %q)\nworkers at that moment:\n%s", layer, sk.get(), stallDump)
	}
	if msg := sk.get(); msg != "" {
		f.Fatalf("%s", msg)
	}
	for i, p := range plans {
		for d, dp := range [2]dirPlan{p.Fwd, p.Rev} {
			if out.wr[i][d] != dp.Total {
				f.Fatalf("%s stream %d dir %d: Write counts sum to %d, payload is %d", layer, i, d, out.wr[i][d], dp.Total)
			}
			if rd := out.rd[i][d]; rd.got != dp.Total || rd.err != io.EOF {
				f.Fatalf("%s stream %d dir %d: reader received %d of %d bytes and then %v (want EOF exactly after the last byte)", layer, i, d, rd.got, dp.Total, rd.err)
			}
		}
	}
	out.readAfterCloseWrite = int(afterClose.Load())
	return out
}

// workerStacks returns the stacks of the goroutines that are inside this package's
// reader / writer workers (diagnostics for a stalled case).
func workerStacks() string {
	buf := make([]byte, 8<<20)
	buf = buf[:runtime.Stack(buf, true)]
	var out []string
	for _, g := range strings.Split(string(buf), "\n\n") {
		if strings.Contains(g, "c02.runReader") || strings.Contains(g, "c02.runWriter") || strings.Contains(g, "c02.runStreams.func") {
			out = append(out, g)
		}
	}
	return strings.Join(out, "\n\n")
}

// afterCloseReader notes whether bytes arrived after the local side had half-closed.
type afterCloseReader struct {
	r      io.Reader
	closed *atomic.Bool
	seen   bool
}

func (a *afterCloseReader) Read(p []byte) (int, error) {
	was := a.closed.Load()
	n, err := a.r.Read(p)
	if was && n > 0 {
		a.seen = true
	}
	return n, err
}

func streamLabels(plans []streamPlan, out streamsOutcome, frameMax int) (labels []string, nontrivial bool) {
	set := map[string]bool{}
	add := func(l string) {
		if !set[l] {
			set[l] = true
			labels = append(labels, l)
		}
	}
	add(fmt.Sprintf("streams:%d", len(plans)))
	if len(plans) > 1 {
		nontrivial = true
	}
	openers := [2]int{}
	for i, p := range plans {
		openers[p.Opener]++
		for d, dp := range [2]dirPlan{p.Fwd, p.Rev} {
			add(lenLabel(dp.Total, frameMax))
			if dp.Total > 262144 {
				add("len:>window")
			}
			if small, _ := simReads(dp, dp.frames(frameMax), 0); small || dp.Total > frameMax {
				nontrivial = true
			}
			if out.rd[i][d].small {
				add("read<pending")
			}
			if out.rd[i][d].zeroReads > 0 {
				add("saw-Read=(0,nil)")
			}
			dlLabels(add, dp, out.ws[i][d], out.rd[i][d], true)
		}
		if p.Fwd.Total == 0 {
			add("fin-with-syn")
		}
		if len(p.Fwd.Writes) == 0 || len(p.Rev.Writes) == 0 {
			add("closewrite-without-any-write")
		}
		if p.Fwd.Total != p.Rev.Total {
			// the shorter direction is half-closed while the longer one still flows
			nontrivial = true
			add("half-close:unequal-directions")
		}
	}
	if openers[0] > 0 && openers[1] > 0 {
		add("both-sides-open")
	}
	if out.readAfterCloseWrite > 0 {
		add("observed:bytes-read-after-own-CloseWrite")
	}
	return labels, nontrivial
}

// ---------------------------------------------------------------------------
// L4 yamux directly over the pipe

type muxCase struct {
	Layer   string
	Cap     int
	Chop    [2]chopPlan
	Key     uint64
	Streams []streamPlan
	Sec     string
	PSK     bool
	Early   bool
}

func (c *muxCase) fingerprint() string {
	return fmt.Sprintf("%s|%d|%v|%v|%s|%v|%v", c.Layer, c.Cap, c.Chop, c.Streams, c.Sec, c.PSK, c.Early)
}

func (c *muxCase) sample() map[string]any {
	var ss []string
	for _, s := range c.Streams {
		ss = append(ss, s.String())
	}
	m := map[string]any{"layer": c.Layer, "pipe_capacity": c.Cap, "chop_A": fmt.Sprint(c.Chop[0]), "chop_B": fmt.Sprint(c.Chop[1]), "streams": ss}
	if c.Sec != "" {
		m["security"], m["psk"], m["early_muxer_negotiation"] = c.Sec, c.PSK, c.Early
	}
	return m
}

func muxedOpeners(conns [2]network.MuxedConn) ([2]streamOpener, [2]streamAcceptor) {
	var o [2]streamOpener
	var a [2]streamAcceptor
	for i := 0; i < 2; i++ {
		c := conns[i]
		o[i] = func(ctx context.Context, _ int) (halfStream, error) { return c.OpenStream(ctx) }
		a[i] = func(int) (halfStream, error) { return c.AcceptStream() }
	}
	return o, a
}

func TestL4YamuxStreams(t *testing.T) {
	defer noteFailure(t)
	name := t.Name()
	hx.Check(t, 1500, 36000, 0, func(rt *rapid.T) {
		c := &muxCase{Layer: "yamux"}
		c.Key = rapid.Uint64().Draw(rt, "key")
		c.Cap = rapid.SampledFrom(capSizes).Draw(rt, "cap")
		c.Chop[0], c.Chop[1] = drawChop(rt, "chopA"), drawChop(rt, "chopB")
		c.Streams = drawStreams(rt, 5, 1, yamuxWindow)
		var out streamsOutcome
		hx.Bubble(t, rt, func() {
			ma, mb := memnet.Pipe(memnet.Options{Capacity: c.Cap})
			defer ma.Close()
			defer mb.Close()
			sa, err := yamux.DefaultTransport.NewConn(newChop(ma, c.Chop[0]), false, nil)
			if err != nil {
				rt.Fatalf("yamux client: %v", err)
			}
			defer sa.Close()
			sb, err := yamux.DefaultTransport.NewConn(newChop(mb, c.Chop[1]), true, nil)
			if err != nil {
				rt.Fatalf("yamux server: %v", err)
			}
			defer sb.Close()
			o, a := muxedOpeners([2]network.MuxedConn{sa, sb})
			out = runStreams(rt, bubbleEnv, c.Layer, c.Key, c.Streams, yamuxFrame, o, a)
		})
		labels, nontrivial := streamLabels(c.Streams, out, yamuxFrame)
		if c.Cap > 0 {
			labels = append(labels, "pipe:bounded")
		}
		if c.Chop[0].short() || c.Chop[1].short() {
			labels = append(labels, "short-reads")
		}
		stats.Case(name, c.fingerprint(), nontrivial, labels...)
		if stats.WantSample(name) {
			stats.Sample(name, c.sample())
		}
	})
}
