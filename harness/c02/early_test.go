package c02

import (
	"context"
	"fmt"
	"net"
	"sync"
	"testing"
	"time"

	"github.com/libp2p/go-libp2p/core/sec"
	"github.com/libp2p/go-libp2p/p2p/security/insecure"
	"github.com/libp2p/go-libp2p/p2p/security/noise"
	libp2ptls "github.com/libp2p/go-libp2p/p2p/security/tls"
	"pgregory.net/rapid"

	"verif/internal/hx"
	"verif/internal/keys"
	"verif/internal/memnet"
	"verif/internal/stats"
)

// SECURITY-TRANSPORT DIMENSION + HANDSHAKE/DATA SCHEDULE. "over each security transport ...
// the node can be configured with": a node configured without security (libp2p.NoSecurity)
// runs the plaintext transport p2p/security/insecure in the place of Noise / TLS; the
// fidelity part of the statement applies to it as it does to pnet. And "any underlying
// connection that returns short reads" is one half of what a byte stream may do: the other
// half is a Read that returns bytes of several Writes at once. The two ends of a connection
// finish their handshakes independently, so the peer's first application bytes may already
// sit behind its last handshake message when the local side reads that message.
//
// Each end runs its handshake on its own and starts its writer and reader the moment its
// own handshake has returned (the L1-L3 tests wait for both ends first). A drawn read lag
// per end (virtual time before each of the first K Reads of the raw connection) lets the
// bytes of the peer pile up in the pipe, so that -- short-read pattern permitting -- one
// Read returns the handshake message together with what follows it. Oracle: the one of the
// fidelity tests (every byte accepted by Write arrives, in order, once).

type lagConn struct {
	net.Conn
	lag time.Duration
	mu  sync.Mutex
	k   int // Reads still to be delayed
}

func (c *lagConn) Read(p []byte) (int, error) {
	c.mu.Lock()
	wait := c.lag > 0 && c.k > 0
	if wait {
		c.k--
	}
	c.mu.Unlock()
	if wait {
		time.Sleep(c.lag)
	}
	return c.Conn.Read(p)
}

type earlyCase struct {
	connCase
	Lag  [2]time.Duration // per end: delay before each of its first LagK raw Reads
	LagK [2]int
}

func (c *earlyCase) fingerprint() string {
	return fmt.Sprintf("%s|%v|%v", c.connCase.fingerprint(), c.Lag, c.LagK)
}

var earlyLags = []time.Duration{0, time.Millisecond, 50 * time.Millisecond}

// sideSetup runs one end's handshake (side 0 dials, side 1 accepts).
type sideSetup func(raw net.Conn, side int) (net.Conn, error)

func secSideSetup(mk func(id *keys.Identity) (sec.SecureTransport, error)) sideSetup {
	return func(raw net.Conn, side int) (net.Conn, error) {
		ids := [2]*keys.Identity{keys.Ed(1), keys.Ed(2)}
		st, err := mk(ids[side])
		if err != nil {
			return nil, err
		}
		if side == 0 {
			return st.SecureOutbound(context.Background(), raw, ids[1].ID)
		}
		return st.SecureInbound(context.Background(), raw, "")
	}
}

var earlyLayers = map[string]struct {
	lp    layerParams
	setup sideSetup
}{
	"insecure": {layerParams{frameMax: 1 << 30}, secSideSetup(func(id *keys.Identity) (sec.SecureTransport, error) {
		return insecure.NewWithIdentity(insecure.ID, id.ID, id.Priv), nil
	})},
	"noise": {noiseParams, secSideSetup(func(id *keys.Identity) (sec.SecureTransport, error) {
		return noise.New(noise.ID, id.Priv, nil)
	})},
	"tls": {tlsParams, secSideSetup(func(id *keys.Identity) (sec.SecureTransport, error) {
		return libp2ptls.New(libp2ptls.ID, id.Priv, nil)
	})},
}

var earlyLayerDraw = []string{"insecure", "noise", "insecure", "tls"}

func runEarlyCase(f failer, env runEnv, c *earlyCase, lp layerParams, setup sideSetup) connOutcome {
	var out connOutcome
	ma, mb := memnet.Pipe(memnet.Options{Capacity: c.Cap})
	defer ma.Close()
	defer mb.Close()
	pipes := [2]*memnet.Conn{ma, mb}
	data := [2][]byte{payload(c.Key, 0, 0, c.Dir[0].Total), payload(c.Key, 0, 1, c.Dir[1].Total)}
	sk := &sink{}
	wdone, rdone := make(chan struct{}, 2), make(chan struct{}, 2)
	var mu sync.Mutex
	var secured []net.Conn
	for side := 0; side < 2; side++ {
		raw := &lagConn{Conn: newChop(pipes[side], c.Chop[side]), lag: c.Lag[side], k: c.LagK[side]}
		go func() {
			conn, err := setup(raw, side)
			if err != nil {
				sk.failf("%s side %d: handshake over a faithful pipe failed: %v", c.Layer, side, err)
				ma.Close()
				mb.Close()
				wdone <- struct{}{}
				rdone <- struct{}{}
				return
			}
			mu.Lock()
			secured = append(secured, conn)
			mu.Unlock()
			// this end writes direction `side` and reads direction 1-side, at once
			wd, rdir := side, 1-side
			go func() {
				defer func() { wdone <- struct{}{} }()
				who := fmt.Sprintf("%s dir %d writer", c.Layer, wd)
				defer sk.guard(who)
				out.ws[wd] = runWriter(conn, c.Dir[wd], data[wd], sk, who, false)
				out.wr[wd] = out.ws[wd].n
			}()
			go func() {
				defer func() { rdone <- struct{}{} }()
				who := fmt.Sprintf("%s dir %d reader", c.Layer, rdir)
				defer sk.guard(who)
				out.rd[rdir] = runReader(conn, c.Dir[rdir], c.Dir[rdir].frames(lp.frameMax), data[rdir], sk, who,
					readerCfg{mode: readUntilErr, frameMax: lp.frameMax, tagLen: lp.tagLen, setDL: conn.SetReadDeadline})
			}()
		}()
	}
	closeAll := func() {
		mu.Lock()
		defer mu.Unlock()
		for _, s := range secured {
			s.Close()
		}
	}
	defer closeAll()
	if !env.waitDone(wdone, 2) {
		env.stalled(f, "%s: writers did not finish within a virtual hour (first failure so far: %q)", c.Layer, sk.get())
	}
	ma.CloseWrite()
	mb.CloseWrite()
	if !env.waitDone(rdone, 2) {
		env.stalled(f, "%s: readers did not finish within a virtual hour after the pipe was half-closed (first failure so far: %q)", c.Layer, sk.get())
	}
	if msg := sk.get(); msg != "" {
		f.Fatalf("%s", msg)
	}
	for d := 0; d < 2; d++ {
		if total := c.Dir[d].Total; out.wr[d] != total {
			f.Fatalf("%s dir %d: Write counts sum to %d, payload is %d", c.Layer, d, out.wr[d], total)
		} else if rd := out.rd[d]; rd.got != total {
			f.Fatalf("%s dir %d: reader received %d of %d bytes written right after the writer's handshake returned, then %v (read lag of the reading end: %v x %d)",
				c.Layer, d, rd.got, total, rd.err, c.Lag[1-d], c.LagK[1-d])
		}
	}
	return out
}

// TestL13DataRightAfterHandshake: plaintext (1/2), Noise (1/4), TLS (1/4).
func TestL13DataRightAfterHandshake(t *testing.T) {
	defer noteFailure(t)
	name := t.Name()
	hx.Check(t, 800, 24000, 0, func(rt *rapid.T) {
		layer := rapid.SampledFrom(earlyLayerDraw).Draw(rt, "layer")
		L := earlyLayers[layer]
		c := &earlyCase{connCase: *drawConnCase(rt, layer, L.lp, false)}
		for s := 0; s < 2; s++ {
			c.Lag[s] = rapid.SampledFrom(earlyLags).Draw(rt, fmt.Sprintf("lag%d", s))
			if c.Lag[s] > 0 {
				c.LagK[s] = rapid.IntRange(1, 6).Draw(rt, fmt.Sprintf("lagk%d", s))
			}
		}
		var out connOutcome
		hx.Bubble(t, rt, func() {
			out = runEarlyCase(rt, bubbleEnv, c, L.lp, L.setup)
		})
		labels, nontrivial := connLabels(&c.connCase, L.lp, out)
		labels = append(labels, "sec:"+layer)
		for s := 0; s < 2; s++ {
			// the end that reads late finds the peer's handshake message and first payload bytes together
			if c.Lag[s] > 0 && c.Lag[1-s] == 0 && c.Dir[1-s].Total > 0 {
				nontrivial = true
				labels = append(labels, "early:peer-data-queued-behind-its-handshake-message", "early:"+layer+":data-behind-handshake")
				if !c.Chop[s].short() || c.Chop[s].R[0] == 0 || c.Chop[s].R[0] > 1000 {
					labels = append(labels, "early:"+layer+":data-behind-handshake,one-Read-may-return-both")
				}
			}
		}
		if c.Lag[0] > 0 && c.Lag[1] > 0 {
			labels = append(labels, "early:both-ends-read-late")
		}
		if c.Lag[0] == 0 && c.Lag[1] == 0 {
			labels = append(labels, "early:no-lag(scheduler-decides)")
		}
		stats.Case(name, c.fingerprint(), nontrivial, dedup(labels)...)
		if stats.WantSample(name) {
			m := c.sample()
			m["read_lag"] = fmt.Sprintf("%v x %v", c.Lag, c.LagK)
			stats.Sample(name, m)
		}
	})
}
