// Package c02 checks property C02: secured connections and multiplexed streams
// deliver bytes intact, in order, once -- for every split into writes, every sequence
// of read-buffer sizes, short reads of the underlying connection, interleaved streams
// and half-close; and tampering with the ciphertext of an authenticated channel gives
// the reader an error, never plaintext the writer did not send at that position.
//
// Layers: L1 Noise session, L2 TLS conn, L3 pnet protected conn, L4 yamux, L5 the real
// upgrader (security x PSK x yamux) and two BasicHosts (swarm streams + lazy
// negotiation wrapper), all over in-memory pipes inside synctest bubbles; L6 (thorough)
// real libp2p hosts over loopback TCP / WS / QUIC / WebTransport / WebRTC / shared TCP listener.
package c02

import (
	"encoding/binary"
	"errors"
	"fmt"
	"io"
	"net"
	"os"
	"runtime"
	"runtime/debug"
	"strings"
	"sync"
	"sync/atomic"
	"testing"
	"time"

	"pgregory.net/rapid"

	"verif/internal/hx"
	"verif/internal/memnet"
	"verif/internal/stats"
)

func TestMain(m *testing.M) {
	stats.Describe("exploration",
		"Each case draws, per direction (and per stream): a total length concentrated at the frame boundaries of the layer "+
			"(Noise 65519/65535/65536, k*65519+-1, 3*65519+k; TLS 16384; yamux 65524 and the 256 KiB window) plus random lengths, a split of the "+
			"payload into Write sizes (single, equal chunks at boundary sizes, random cuts, empty writes), a cyclic list of read-buffer sizes "+
			"(absolute 1,2,15,16,17,...,>frame and relative to the pending frame: -17..+18, half), a short-read/short-write chunk pattern and a "+
			"capacity for the in-memory pipe underneath; both directions run concurrently. Payload byte i is a function of (drawn 64-bit key, stream, "+
			"direction, i). Oracle: bytes returned by Read, concatenated, equal the bytes accepted by Write per direction and stream; Write counts sum to "+
			"the length; EOF arrives exactly after the last byte; nothing follows it. Tamper cases (Noise, TLS) apply one frame-aware edit to the "+
			"post-handshake ciphertext (flip a byte per position class, drop, duplicate, swap neighbours, truncate, insert a forged frame): everything the "+
			"reader ever receives is a prefix of what was sent, what it has at the first error ends at or before the first tampered frame's plaintext, and it gets an error. "+
			"NON-TRIVIAL (decided on the plan, by replaying the read specs against the frame model) = some direction spans more than one frame of the layer, "+
			"or a read buffer is smaller than the pending frame (queued-remainder path), or lies in [plaintext, plaintext+16) (pooled path), or a tamper "+
			"was applied; for stream layers also: two or more streams interleaved, or directions of unequal length (the shorter one is half-closed while the "+
			"other still delivers). The Noise read path taken by every Read (in-place / pooled whole frame / pooled with queued remainder / drain) is derived from "+
			"the size relation and reported as labels (cases that hit the path). TestL1NoiseReadSweep additionally enumerates a grid completely: every pair of "+
			"consecutive frame sizes x every triple of buffer sizes relative to the pending frame, all triples of a pair on one session. "+
			"DEADLINES (the effective write and read sizes are the counts the calls return; a call may return n>0 together with a timeout and the n bytes count): in 2 of 5 "+
			"stream cases (yamux, upgrader stack, hosts) each direction draws one of: no deadline (60%); a write deadline of 1/5/50 ms on every Write call with a writer that "+
			"resumes at p[n:] after (n, timeout), against a reader that starts late and/or pauses, payload mostly above the 256 KiB stream window so that the deadline fires "+
			"after part of a Write was accepted (20%); a reader that polls with a read deadline in the past, keeps buf[:n] of every call and sleeps when it got nothing, against "+
			"a pausing writer whose last Write starts beyond half a window (10%); a short read deadline (1/10 ms) before every Read against a pausing writer (10%). All waiting is "+
			"virtual time. Connection layers: pacing only (slow reader, pausing writer) on Noise and pnet, pacing plus short/past read deadlines on TLS, in 1 of 4 fidelity cases. "+
			"The oracle is unchanged (bytes handed to the reader, whatever error came with them, equal the bytes the writer was told were accepted, complete at the end). Labels "+
			"deadline:* count generated classes, observed:Write=(0<n<len,timeout) / observed:Read=(n>0,timeout) count cases in which partial progress was actually reported. "+
			"IDLE PERIODS (virtual time; yamux, upgrader stack, hosts): in 1 of 3 stream cases every stream draws, for neither / one / both directions, one idle period of 1.5 s / 4 s / 11 s / 35 s / 65 s / 130 s "+
			"-- the writer stops before one of its first four Write calls or the reader before one of its first four Read calls -- i.e. longer than the timeouts the library arms by itself (protocol negotiation 10 s by default, "+
			"yamux write timeout 10 s and keep-alive 30 s, identify 30 s / 60 s); the statement puts no bound on the time between two calls, the oracle is unchanged. HOSTS additionally draw HostOpts.NegotiationTimeout of both hosts "+
			"(default 10 s, 1 s, 3 s, 30 s, none) and per stream the style of the acceptor's handler: it hands the stream to the workers and returns (1/3), or it keeps the stream and returns only when the stream has been closed (2/3, like a handler "+
			"that serves the stream synchronously). The opener of a lazily negotiated stream does not idle before its first non-empty Write (the acceptor rightly gives up on a stream that does not name its protocol within the negotiation timeout). "+
			"Labels idle:*, handler:*, negotiation-timeout:*; handler:keeps-stream-beyond-negotiation-timeout counts cases with a held stream whose idle period exceeds the configured negotiation timeout. "+
			"MESSAGE-FRAMED TRANSPORT (quick and thorough, real loopback TCP, outside bubbles): TestL13OverWebsocket runs Noise (1/2), pnet (1/4), TLS (1/4) sessions, TestL5UpgraderStackOverWebsocket the real upgrader (PSK x Noise/TLS x yamux, "+
			"1-3 streams), over connections made by the real WebSocket transport (Listen + Dial on 127.0.0.1; the transport's own Conn on both ends, every Conn.Write = one WebSocket message), with the same length / Write-size / read-buffer "+
			"generators (Write sizes at 65518/65519/65520/65535/65536/2*65519(+1) etc., so that the security layer emits its largest frame in one Write); both directions concurrently, no deadlines or pauses (real time). Oracle as above; "+
			"without a half-close each reader stops at the payload length, then the dialer's end is closed and the other end must see the end of the stream without a further byte. Labels ws:message>64KiB (some Write makes the layer emit a "+
			"single message above 64 KiB: Noise Write >= 65519, pnet Write > 65536), ws:Write>=full-frame-of-the-layer, ws:stream-Write>=full-yamux-frame are derived from the plan. "+
			"TRUNCATION / CUT POSITION (a reader is never told that a stream ended normally when bytes that Write had accepted were lost in transit): a truncate case (2 of 8-10 tamper cases, Noise and TLS) ends the byte stream "+
			"under the session with a FIN, no error underneath, after all earlier frames and a drawn number of bytes of a drawn frame of any Write: 0 (between two frames), 1 / a drawn number / all but the last byte of the length prefix or record header, "+
			"the complete prefix and no body byte, 1 / a drawn number of body bytes, everything but the 16-byte tag, a tag short by 1-15 bytes, everything but the last byte; with every read-buffer plan and short-read pattern of the connection underneath "+
			"(including EOF reported together with the last bytes). Rule: when the cut lies strictly inside a frame (inside the prefix, after the complete prefix, inside the body) the first error the reader gets must not be io.EOF (io.ReadAll would return nil); "+
			"a cut exactly between two frames is the byte sequence of an orderly close and may be reported either way. Labels cut:* (drawn class), cut-lies:* (where the byte offset really fell), cut-verdict:*, cut-reader-saw:*. "+
			"TestL12OverWebsocketPathCut (real loopback TCP) does the same over the real WebSocket transport with Noise (3/4) and TLS (1/4): a TCP proxy between Dial and the transport's listener forwards both directions faithfully, parses the WebSocket frames "+
			"(masked/unmasked, fragmented), and after the security handshake delivers k more complete messages (k drawn below the number of frames the payload makes, so at least one frame is lost) of one drawn direction, then 0 bytes (exactly at a message boundary, "+
			"half of the cases) or 1 byte / the 2-byte frame header / a drawn number of bytes / all but the last 1-4 bytes of the next message, then ends that TCP stream with a FIN (no WebSocket close frame) and swallows the rest; the writer's Writes all succeed. "+
			"A TCP stream that ends without a close frame is visibly cut short at every position, so here the rule has no exception: the reader gets only a prefix, at most the plaintext of the messages that arrived whole (sizes measured by the proxy), "+
			"and its first error is not io.EOF. Labels ws-cut:*, ws-cut-dir:*. "+
			"PLAINTEXT SECURITY TRANSPORT: the upgrader stack, host and WebSocket-stack tests draw the security transport from Noise (2/5), TLS (2/5) and the plaintext transport p2p/security/insecure (1/5; what a node configured with NoSecurity runs in that place; "+
			"its handshake cannot carry the muxer choice, so the muxer is chosen by multistream); fidelity oracle only, as for pnet. "+
			"DATA RIGHT AFTER THE HANDSHAKE (TestL13DataRightAfterHandshake; plaintext 1/2, Noise 1/4, TLS 1/4; same length / Write-size / read-buffer / short-read / pipe-capacity / pacing generators as L1-L3): each end runs its own handshake and starts its writer and reader "+
			"the moment that handshake has returned (the L1-L3 tests wait for both ends first), and each end draws a read lag (none / 1 ms / 50 ms of virtual time before each of its first 1-6 Reads of the raw connection), so that the peer's last handshake message and its first payload bytes are already "+
			"queued together when the lagging end reads and one Read of the raw connection may return both (a byte stream may merge Writes as well as split them). Labels early:<layer>:data-behind-handshake (one end lags, the other does not and sends a non-empty payload), "+
			"...,one-Read-may-return-both (and the lagging end's first raw Read is not cut short by the short-read pattern), early:both-ends-read-late, early:no-lag(scheduler-decides); such a case counts as non-trivial. "+
			"MOCK NETWORK AS TRANSPORT (TestL4MocknetStreams, virtual time): two BasicHosts on a p2p/net/mock network joined by one link whose latency is drawn from 0 / 1 ms / 10 ms / 100 ms / 2 s; 1-3 streams through Host.NewStream / SetStreamHandler "+
			"(eager or lazy negotiation, handler styles as in the host test; mock streams ignore deadlines, so no deadline classes), both directions concurrently, half-close at the end of each direction, same stream oracle. In 2 of 3 directions the Write sizes are drawn around the "+
			"256-byte coalescing buffer of a mock stream (0,1,2,10,16,56,100,127..129,200,246,254..257,300,512,1000,4096,70000; 1-12 Writes), otherwise by the common generator; 1 of 3 directions has a pausing writer (3 ms / 25 ms between calls, i.e. shorter or longer than the latency) or a slow reader. "+
			"Labels mocknet:latency=*, mocknet:small-writes-then-buffer-filling-write (some Write takes the bytes buffered since the last filling Write from below 256 to 256 or more), mocknet:small-then-filling-write,latency>0 (non-trivial), mocknet:writer-pauses-within/longer-than-latency, "+
			"mocknet:whole-payload-below-buffer, mocknet:first-write>=buffer. "+
			"DISTINCT = distinct structured plan (lengths, splits, read specs, chunk patterns, capacity, tamper, deadline schedule, idle periods, handler style, negotiation timeout, transport, security transport, link latency, read lag).",
		"the in-memory pipe (internal/memnet) and the chunking wrapper deliver bytes faithfully; they are checked by the same oracle in the pnet layer where nothing else could repair an error",
		"frame sizes of each layer (Noise 65519, TLS 16384, yamux 65524) are used only to aim the generator and to label cases, never in the verdict of untampered cases",
		"tamper verdicts rely on the wire framing (Noise: 2-byte length prefix, 16-byte tag; TLS 1.3: 5-byte header, 17 bytes overhead) to locate the first tampered frame's plaintext offset (an upper bound for TLS)",
		"a truncation that removes whole trailing frames over a plain byte pipe is the byte sequence of an orderly close (Noise has no close message, TLS accepts EOF at a record boundary): there, and only there, io.EOF counts as the error the statement asks for; at every other cut position, and at every cut position of a WebSocket connection that ends without a close frame, io.EOF is a violation",
		"the WebSocket tests use real loopback sockets: a connection on 127.0.0.1 neither loses nor damages bytes by itself; a set-up failure or a stall of 3 real minutes is inconclusive, never a violation; if the transport cannot listen on loopback the tests are skipped and labelled config-unavailable:websocket; their labels and non-trivial verdicts are computed from the plan only, so the evidence does not depend on socket timing",
		"L6 (real loopback sockets: TCP, WebSocket, QUIC, WebTransport, WebRTC-direct, and TCP/WS behind the shared TCP listener) runs in the thorough tier only, with the default stack of each transport; a configuration that cannot be set up in the environment is skipped and labelled config-unavailable",
		"streams of one muxed connection are accepted in the order in which their first frames were sent (L4, L5 upgrader); host-level layers route streams by protocol id instead",
		"the 256-byte coalescing buffer of a mock stream is used only to aim the Write sizes and to label cases, never in a verdict; mocknet hosts run with the configuration mocknet gives them (no negotiation timeout, identify running)",
		"deadline cases: a reader that polls with an expired read deadline gets at most the initial stream window (256 KiB, minus 1 KiB at host level for protocol negotiation) of payload: go-yamux accounts a window update locally and then drops it when the deadline has expired (stream.go sendWindowUpdate/GrowTo), so such a reader never grants new credit and a longer payload stalls -- a liveness matter of the dependency outside the statement, not generated",
		"deadline cases: no deadline on the opener's end of a lazily negotiated stream (a timeout inside the lazy multistream handshake fails the stream for good, by design); no write deadlines and (Noise, pnet) no read deadlines on bare secured connections: a frame is atomic on the wire and their readers do not keep a partially read frame across calls, so a timed-out call cannot be resumed there (with the error reported, not wrong bytes, on the authenticated ones)",
	)
	hx.Main(m)
}

// lowerLayerFailed is set once a single-layer test (L1-L4) has failed in this process.
// The stacked tests (L5, L6) are built from those layers: after such a failure they add
// no information, and a broken lower layer can make a goroutine of an upper layer spin
// (e.g. yamux's receive loop over a session whose Read keeps returning (0, nil)), which
// would turn a clear violation into an inconclusive bubble hang.
var lowerLayerFailed atomic.Bool

func noteFailure(t *testing.T) {
	if t.Failed() {
		lowerLayerFailed.Store(true)
	}
}

func skipIfLowerLayerFailed(t *testing.T) {
	if lowerLayerFailed.Load() {
		t.Skip("a single-layer test already failed in this process; the stacked run is skipped")
	}
}

// ---------------------------------------------------------------------------
// payload: position-dependent content

func mix64(x uint64) uint64 {
	x += 0x9e3779b97f4a7c15
	x = (x ^ (x >> 30)) * 0xbf58476d1ce4e5b9
	x = (x ^ (x >> 27)) * 0x94d049bb133111eb
	return x ^ (x >> 31)
}

// payload expands (key, stream, dir) into n bytes; byte i depends on i.
func payload(key uint64, stream, dir, n int) []byte {
	k := mix64(key ^ mix64(uint64(stream)<<8|uint64(dir)))
	out := make([]byte, n+8)
	for i := 0; i < n; i += 8 {
		binary.LittleEndian.PutUint64(out[i:], mix64(k+uint64(i/8)))
	}
	return out[:n:n]
}

// ---------------------------------------------------------------------------
// plans

const (
	noiseFrame = 65519 // Noise transport message 65535 minus the 16-byte tag (libp2p noise spec)
	tlsFrame   = 16384
	yamuxFrame = 64*1024 - 12
)

const (
	specAbs  = iota // V bytes
	specRel         // pending + V
	specHalf        // pending / 2
)

type readSpec struct {
	Kind, V int
}

func (s readSpec) String() string {
	switch s.Kind {
	case specAbs:
		return fmt.Sprintf("%d", s.V)
	case specRel:
		return fmt.Sprintf("p%+d", s.V)
	default:
		return "p/2"
	}
}

type dirPlan struct {
	Total  int
	Writes []int
	Reads  []readSpec
	Tail   int    // buffer size used for small specs once the small-read budget is spent
	DL     dlPlan // deadlines and pauses (zero value: no deadline is ever set, nobody pauses)
}

func (p dirPlan) String() string {
	return fmt.Sprintf("{%d w=%v r=%v t=%d%v}", p.Total, rleInts(p.Writes), p.Reads, p.Tail, p.DL)
}

func rleInts(v []int) string {
	var b strings.Builder
	for i := 0; i < len(v); {
		j := i
		for j < len(v) && v[j] == v[i] {
			j++
		}
		if b.Len() > 0 {
			b.WriteByte(' ')
		}
		if j-i > 1 {
			fmt.Fprintf(&b, "%dx%d", v[i], j-i)
		} else {
			fmt.Fprintf(&b, "%d", v[i])
		}
		i = j
	}
	return "[" + b.String() + "]"
}

// frames is the plaintext size of every frame the plan's writes produce when a layer
// cuts each Write at max bytes (generator aim and labels only).
func (p dirPlan) frames(max int) []int {
	var f []int
	for _, w := range p.Writes {
		for w > 0 {
			c := min(w, max)
			f = append(f, c)
			w -= c
		}
	}
	return f
}

// small boundary lengths first
var boundaryTotals = []int{
	0, 1, 2, 15, 16, 17, 18, 4095, 4096, 4097, 16383, 16384, 16385,
	65518, 65519, 65520, 65534, 65535, 65536, 65537,
	2*65519 - 1, 2 * 65519, 2*65519 + 1, 3*65519 - 1, 3 * 65519, 3*65519 + 1, 3*65519 + 16, 3*65519 + 17,
}

// the same, multi-frame lengths first (rapid's draws favour low indexes)
var boundaryTotalsBig = []int{
	65519, 65520, 65518, 2*65519 + 1, 65535, 65536, 2*65519 - 1, 2 * 65519, 3*65519 + 1, 65534, 65537, 3*65519 - 1, 3 * 65519, 3*65519 + 16, 3*65519 + 17,
	16384, 16385, 16383, 4096, 4097, 4095, 0, 1, 2, 15, 16, 17, 18,
}

var boundaryChunks = []int{65519, 65520, 65518, 1, 16, 17, 15, 2, 100, 4096, 4095, 4097, 16384, 16385, 65535, 65536, 2 * 65519, 2*65519 + 1}

var absReads = []int{1, 16, 17, 15, 2, 3, 65535, 65519, 65520, 65518, 65534, 65536, 65537, 31, 32, 33, 100, 4095, 4096, 4097, 16384, 70000, 140000}

var relReads = []int{-1, 0, 15, 16, -16, 1, -17, -15, -2, 2, 17, 18, 100}

var tailReads = []int{1024, 4096, 65519, 65535, 65536, 70000}

// drawTotal draws a payload length. big selects the share of multi-frame lengths
// (0 = none above ~16 KiB, 1 = some, 2 = many).
func drawTotal(rt *rapid.T, label string, big int) int {
	k := rapid.IntRange(0, 99).Draw(rt, label+"-class")
	switch {
	case k < 30:
		switch big {
		case 0:
			return rapid.SampledFrom(boundaryTotals[:13]).Draw(rt, label+"-bsmall")
		case 1:
			return rapid.SampledFrom(boundaryTotals).Draw(rt, label+"-boundary")
		default:
			return rapid.SampledFrom(boundaryTotalsBig).Draw(rt, label+"-bbig")
		}
	case k < 50:
		return rapid.IntRange(0, 5000).Draw(rt, label+"-med")
	case k < 70:
		return rapid.IntRange(0, 64).Draw(rt, label+"-small")
	case k < 85 && big > 0:
		return rapid.IntRange(0, 70000).Draw(rt, label+"-rand")
	case big > 0:
		return rapid.IntRange(65000, 3*65519+100).Draw(rt, label+"-large")
	default:
		return rapid.IntRange(0, 20000).Draw(rt, label+"-rand0")
	}
}

// drawWrites splits total into Write sizes (constructive: always sums to total).
func drawWrites(rt *rapid.T, label string, total int) []int {
	var out []int
	mode := rapid.IntRange(0, 4).Draw(rt, label+"-wmode")
	rest := total
	switch mode {
	case 0: // one write
	case 1: // equal chunks at a boundary size
		c := rapid.SampledFrom(boundaryChunks).Draw(rt, label+"-chunk")
		for rest > c && len(out) < 48 {
			out = append(out, c)
			rest -= c
		}
	case 2: // random cuts
		n := rapid.IntRange(1, 8).Draw(rt, label+"-ncuts")
		for i := 0; i < n && rest > 0; i++ {
			c := rapid.IntRange(0, rest).Draw(rt, label+"-cut")
			out = append(out, c)
			rest -= c
		}
	case 3: // a boundary-sized head, then the rest (possibly again chunked small)
		c := rapid.SampledFrom(boundaryChunks).Draw(rt, label+"-head")
		if c < rest {
			out = append(out, c)
			rest -= c
		}
		if rest > 0 && rapid.Bool().Draw(rt, label+"-split2") {
			c2 := rapid.IntRange(0, rest).Draw(rt, label+"-cut2")
			out = append(out, c2)
			rest -= c2
		}
	case 4: // many small writes, then the rest
		n := rapid.IntRange(1, 40).Draw(rt, label+"-nsmall")
		for i := 0; i < n && rest > 0; i++ {
			c := min(rest, rapid.IntRange(0, 20).Draw(rt, label+"-sw"))
			out = append(out, c)
			rest -= c
		}
	}
	// an empty payload is sent either as one empty Write or as no Write call at all
	if rest > 0 || (len(out) == 0 && rapid.Bool().Draw(rt, label+"-emptywrite")) {
		out = append(out, rest)
	}
	return out
}

func drawReads(rt *rapid.T, label string) ([]readSpec, int) {
	n := rapid.IntRange(1, 8).Draw(rt, label+"-nreads")
	specs := make([]readSpec, n)
	for i := range specs {
		switch k := rapid.IntRange(0, 9).Draw(rt, label+"-rkind"); {
		case k < 4:
			specs[i] = readSpec{specAbs, rapid.SampledFrom(absReads).Draw(rt, label+"-abs")}
		case k < 8:
			specs[i] = readSpec{specRel, rapid.SampledFrom(relReads).Draw(rt, label+"-rel")}
		case k < 9:
			specs[i] = readSpec{specHalf, 0}
		default:
			specs[i] = readSpec{specAbs, rapid.IntRange(1, 70000).Draw(rt, label+"-rrand")}
		}
	}
	return specs, rapid.SampledFrom(tailReads).Draw(rt, label+"-tail")
}

func drawDir(rt *rapid.T, label string, big int) dirPlan {
	var p dirPlan
	p.Total = drawTotal(rt, label, big)
	p.Writes = drawWrites(rt, label, p.Total)
	p.Reads, p.Tail = drawReads(rt, label)
	return p
}

// simReads replays the plan's read specs against the frame model (a Read returns
// min(buffer, rest of the pending frame)) and reports whether some buffer is smaller than
// the pending frame and whether some buffer lies in [plaintext, plaintext+tagLen). It
// depends on the plan only, so the non-trivial verdict of a case is reproducible even
// where the real Read sizes depend on timing (pnet, yamux).
func simReads(p dirPlan, frames []int, tagLen int) (small, pooled bool) {
	fi, fo, budget := 0, 0, 400
	for step := 0; fi < len(frames) && step < 100000; step++ {
		pend := frames[fi] - fo
		spec := p.Reads[step%len(p.Reads)]
		var L int
		switch spec.Kind {
		case specAbs:
			L = spec.V
		case specRel:
			L = pend + spec.V
		case specHalf:
			L = pend / 2
		}
		if L < 256 {
			if budget > 0 {
				budget--
			} else {
				L = p.Tail
			}
		}
		L = max(1, L)
		if L < pend {
			small = true
		} else if fo == 0 && tagLen > 0 && L < pend+tagLen {
			pooled = true
		}
		fo += min(L, pend)
		if fo >= frames[fi] {
			fi, fo = fi+1, 0
		}
	}
	return small, pooled
}

// ---------------------------------------------------------------------------
// failure sink shared by the worker goroutines of one case (rapid's Fatalf must only be
// called from the goroutine that runs the property).

type sink struct {
	mu     sync.Mutex
	first  string
	failed chan struct{} // optional: closed when the first failure is recorded
}

func (s *sink) failf(format string, a ...any) {
	s.mu.Lock()
	defer s.mu.Unlock()
	if s.first == "" {
		s.first = fmt.Sprintf(format, a...)
		if s.failed != nil {
			close(s.failed)
		}
	}
}

func (s *sink) get() string {
	s.mu.Lock()
	defer s.mu.Unlock()
	return s.first
}

// guard turns a panic in a worker goroutine into a recorded failure of the case.
func (s *sink) guard(who string) {
	if r := recover(); r != nil {
		s.failf("%s: panic: %v\n%s", who, r, debug.Stack())
	}
}

type failer interface {
	Fatalf(format string, args ...any)
}

// ---------------------------------------------------------------------------
// writer / reader workers

// writeResult is what a writer worker did.
type writeResult struct {
	n        int // bytes accepted (sum of the counts Write returned)
	timeouts int // Write calls that returned a timeout
	partial  int // ... of which with 0 < n: the deadline fired after part of the buffer was accepted
	resumed  int // Write calls issued to continue a buffer after a timeout
}

func (a *writeResult) add(b writeResult) {
	a.n += b.n
	a.timeouts += b.timeouts
	a.partial += b.partial
	a.resumed += b.resumed
}

type writeDeadliner interface {
	SetWriteDeadline(time.Time) error
}

// runWriter performs the plan's Writes. With a write deadline in the plan (p.DL.W) every
// Write call gets a fresh deadline and a call that returns (n, timeout) has transferred
// p[:n]: the writer carries on at p[n:].
func runWriter(w io.Writer, p dirPlan, data []byte, sk *sink, who string, tolerateErr bool) (res writeResult) {
	wdl := p.DL.W
	sd, _ := w.(writeDeadliner)
	if sd == nil {
		wdl = 0
	}
	if wdl > 0 {
		defer sd.SetWriteDeadline(time.Time{})
	}
	off := 0
	defer func() { res.n = off }()
	for i, sz := range p.Writes {
		if p.DL.WGap > 0 && i < 24 {
			time.Sleep(p.DL.WGap)
		}
		if p.DL.WLong > 0 && i == p.DL.WLongAt {
			time.Sleep(p.DL.WLong)
		}
		chunk := data[off : off+sz : off+sz]
		done, fruitless := 0, 0
		for attempt := 0; ; attempt++ {
			if wdl > 0 {
				// back off after many timeouts without any progress so that a stalled peer costs
				// a bounded number of calls until the runner's virtual hour is over
				sd.SetWriteDeadline(time.Now().Add(wdl << min(fruitless/8, 16)))
			}
			if attempt > 0 {
				res.resumed++
			}
			rest := chunk[done:]
			n, err := w.Write(rest)
			if n < 0 || n > len(rest) {
				sk.failf("%s: Write #%d of %d bytes returned n=%d", who, i, len(rest), n)
				return
			}
			done += n
			off += n
			if err == nil {
				if n != len(rest) {
					sk.failf("%s: Write #%d accepted %d of %d bytes without an error", who, i, n, len(rest))
					return
				}
				break
			}
			if wdl > 0 && isTimeout(err) {
				res.timeouts++
				if n > 0 {
					res.partial++
					fruitless = 0
				} else {
					fruitless++
				}
				if done == sz {
					break
				}
				if fruitless > 400 {
					// the deadline doubles every 8 fruitless calls: 400 of them cannot fit into the
					// runner's virtual hour, so these timeouts are not caused by time passing
					sk.failf("%s: Write #%d: %d consecutive calls returned (0, %v) although each had a fresh deadline in the future (stream offset %d)", who, i, fruitless, err, off)
					return
				}
				continue
			}
			if !tolerateErr {
				sk.failf("%s: Write #%d (%d bytes at offset %d) failed after %d bytes: %v", who, i, sz, off-done, done, err)
			}
			return
		}
	}
	return
}

type readMode int

const (
	readUntilErr readMode = iota // conn layers: the stream ends when the pipe underneath is half-closed
	readUntilEOF                 // streams: the writer calls CloseWrite
)

type readResult struct {
	got        int   // bytes received in total
	gotAtErr   int   // bytes received when the first error was returned
	err        error // first error
	reads      int
	zeroReads  int // Read returned (0, nil) for a non-empty buffer
	small      bool
	inplace    int // Noise path model: buffer >= ciphertext
	pooledFull int // plaintext <= buffer < ciphertext
	queued     int // buffer < plaintext
	drain      int // served from the queued remainder
	drainEmpty int
	afterErrOK int // bytes (correct) received after the first error

	timeouts          int // Reads that returned a timeout the plan's read deadline accounts for
	timeoutsWithBytes int // ... of which together with n > 0 bytes
}

type readerCfg struct {
	mode      readMode
	frameMax  int                   // layer frame size for the pending-frame model
	tagLen    int                   // ciphertext overhead per frame (Noise 16), 0 = no path model
	tampered  bool                  // errors are expected; keep reading a little after the first one
	extraRead int                   // reads attempted after the first error when tampered
	setDL     func(time.Time) error // SetReadDeadline of the connection / stream being read (nil: the plan's read deadline is ignored)
	// untilTotal: stop as soon as the whole payload has arrived (connections without a half-close;
	// the caller checks separately that nothing follows)
	untilTotal bool
}

const canary = 0xA5

// runReader reads with the plan's buffer sizes and compares every byte with want at its
// position as it arrives.
func runReader(r io.Reader, p dirPlan, frames []int, want []byte, sk *sink, who string, cfg readerCfg) (res readResult) {
	const maxBuf = 300000
	arena := make([]byte, maxBuf+8)
	fi, fo := 0, 0 // pending-frame model: index and consumed offset
	pendEmptyQ := false
	budget := 400
	consecutiveZero := 0
	errsSeen := 0
	dl := p.DL
	if cfg.setDL == nil {
		dl.R = 0
	}
	if dl.RStart > 0 {
		time.Sleep(dl.RStart)
	}
	if dl.R < 0 {
		cfg.setDL(pastDeadline)
	}
	if dl.R != 0 {
		defer cfg.setDL(time.Time{})
	}
	emptyTimeouts, withBytes, pauses := 0, 0, 0
	for step := 0; ; step++ {
		if cfg.untilTotal && res.got == len(want) {
			return
		}
		if dl.RLong > 0 && step == dl.RLongAt {
			time.Sleep(dl.RLong)
		}
		pend := 1
		if fi < len(frames) {
			pend = frames[fi] - fo
		}
		spec := p.Reads[step%len(p.Reads)]
		var L int
		switch spec.Kind {
		case specAbs:
			L = spec.V
		case specRel:
			L = pend + spec.V
		case specHalf:
			L = pend / 2
		}
		if L < 256 {
			if budget > 0 {
				budget--
			} else {
				L = p.Tail
			}
		}
		L = max(1, min(L, maxBuf))
		buf := arena[:L:L]
		for i := L; i < L+8; i++ {
			arena[i] = canary
		}
		// path model (labels only)
		model, modelQ := res, pendEmptyQ
		if cfg.tagLen > 0 && errsSeen == 0 {
			switch {
			case pendEmptyQ:
				res.drainEmpty++
				pendEmptyQ = false
			case fo > 0:
				res.drain++
				if L < pend {
					res.small = true
				}
			case fi < len(frames):
				switch P := frames[fi]; {
				case L >= P+cfg.tagLen:
					res.inplace++
				case L >= P:
					res.pooledFull++
					pendEmptyQ = true
				default:
					res.queued++
					res.small = true
				}
			}
		} else if fi < len(frames) && L < pend {
			res.small = true
		}
		if dl.R > 0 {
			// back off after many empty-handed timeouts in a row (bounds the number of calls a
			// stalled peer costs until the runner's virtual hour is over)
			cfg.setDL(time.Now().Add(dl.R << min(emptyTimeouts/64, 16)))
		}
		n, err := r.Read(buf)
		res.reads++
		for i := L; i < L+8; i++ {
			if arena[i] != canary {
				sk.failf("%s: Read #%d wrote beyond its %d-byte buffer", who, step, L)
				return
			}
		}
		if n < 0 || n > L {
			sk.failf("%s: Read #%d into %d bytes returned n=%d", who, step, L, n)
			return
		}
		if res.got+n > len(want) {
			sk.failf("%s: Read #%d returned %d bytes at offset %d but only %d bytes were ever written (extra bytes %x...)",
				who, step, n, res.got, len(want), buf[max(0, len(want)-res.got):min(n, max(0, len(want)-res.got)+16)])
			return
		}
		if n > 0 {
			exp := want[res.got : res.got+n]
			if string(exp) != string(buf[:n]) {
				k := 0
				for k < n && exp[k] == buf[k] {
					k++
				}
				sk.failf("%s: Read #%d (buffer %d, returned %d) delivered wrong bytes at stream offset %d: got %x want %x (first error after %v; this read starts at offset %d)",
					who, step, L, n, res.got+k, buf[k:min(n, k+12)], exp[k:min(n, k+12)], res.err, res.got)
				return
			}
			res.got += n
			if errsSeen > 0 {
				res.afterErrOK += n
			}
			fo += n
			for fi < len(frames) && fo >= frames[fi] {
				fo -= frames[fi]
				fi++
			}
		}
		if n > 0 {
			emptyTimeouts = 0
			if withBytes++; dl.REvery > 0 && withBytes%dl.REvery == 0 && pauses < 24 {
				pauses++
				time.Sleep(dl.RGap)
			}
		}
		if err != nil && dl.R != 0 && errsSeen == 0 && isTimeout(err) {
			// the deadline the plan set: the n bytes that came with it count (checked above);
			// the reader carries on
			res.timeouts++
			if n > 0 {
				res.timeoutsWithBytes++
				continue
			}
			// nothing was delivered: this call did not happen as far as the frame model is concerned
			reads, tmo := res.reads, res.timeouts
			res, pendEmptyQ = model, modelQ
			res.reads, res.timeouts = reads, tmo
			emptyTimeouts++
			if dl.R < 0 {
				// poll: nothing available right now; look again a little later
				time.Sleep(time.Millisecond << min(emptyTimeouts/16, 10))
			}
			continue
		}
		if err != nil {
			errsSeen++
			if errsSeen == 1 {
				res.err, res.gotAtErr = err, res.got
			}
			if cfg.mode == readUntilEOF && errors.Is(err, io.EOF) && errsSeen == 1 && !cfg.tampered {
				// EOF must be sticky and nothing may follow it
				n2, err2 := r.Read(arena[:16:16])
				if n2 != 0 || !errors.Is(err2, io.EOF) {
					sk.failf("%s: Read after EOF returned n=%d err=%v", who, n2, err2)
				}
				return
			}
			if !cfg.tampered || errsSeen > cfg.extraRead {
				return
			}
			continue
		}
		if n == 0 {
			res.zeroReads++
			consecutiveZero++
			if consecutiveZero > 1000 {
				sk.failf("%s: 1000 consecutive Reads returned (0, nil) at offset %d", who, res.got)
				return
			}
		} else {
			consecutiveZero = 0
		}
	}
}

// ---------------------------------------------------------------------------
// chunking wrapper: short reads and short writes of the connection underneath

type chopPlan struct {
	R, W []int // cyclic chunk sizes, 0 = unlimited
	// EOFWithData: the Read that delivers the last bytes before the peer's close reports
	// io.EOF together with them (allowed by io.Reader; what a TLS-terminating proxy conn,
	// a pipe over a buffer or iotest.DataErrReader do)
	EOFWithData bool
}

var chopSizes = []int{0, 0, 0, 1, 1, 2, 3, 5, 16, 17, 18, 100, 1000, 4096, 4097, 65535, 65536}

func drawChop(rt *rapid.T, label string) chopPlan {
	var c chopPlan
	c.EOFWithData = rapid.IntRange(0, 2).Draw(rt, label+"-eofWithData") == 0
	if rapid.IntRange(0, 3).Draw(rt, label+"-chop") == 0 {
		return chopPlan{R: []int{0}, W: []int{0}, EOFWithData: c.EOFWithData}
	}
	for i, n := 0, rapid.IntRange(1, 5).Draw(rt, label+"-nr"); i < n; i++ {
		c.R = append(c.R, rapid.SampledFrom(chopSizes).Draw(rt, label+"-r"))
	}
	for i, n := 0, rapid.IntRange(1, 4).Draw(rt, label+"-nw"); i < n; i++ {
		c.W = append(c.W, rapid.SampledFrom(chopSizes).Draw(rt, label+"-w"))
	}
	return c
}

func (c chopPlan) short() bool {
	for _, v := range c.R {
		if v != 0 {
			return true
		}
	}
	return false
}

type chopConn struct {
	*memnet.Conn
	plan   chopPlan
	rmu    sync.Mutex
	ri     int
	rsmall int
	wmu    sync.Mutex
	wi     int
	wsmall int
}

const chopBudget = 3000 // tiny chunks per direction before the wrapper stops chopping (bounds the cost)

func newChop(c *memnet.Conn, p chopPlan) *chopConn { return &chopConn{Conn: c, plan: p} }

func (c *chopConn) Read(p []byte) (int, error) {
	c.rmu.Lock()
	k := c.plan.R[c.ri%len(c.plan.R)]
	c.ri++
	if k > 0 && k < 64 {
		if c.rsmall >= chopBudget {
			k = 0
		}
		c.rsmall++
	}
	c.rmu.Unlock()
	if k > 0 && k < len(p) {
		p = p[:k]
	}
	n, err := c.Conn.Read(p)
	if c.plan.EOFWithData && n > 0 && err == nil && c.Conn.AtEOF() {
		err = io.EOF
	}
	return n, err
}

func (c *chopConn) Write(p []byte) (int, error) {
	c.wmu.Lock()
	defer c.wmu.Unlock()
	total := 0
	for {
		k := c.plan.W[c.wi%len(c.plan.W)]
		c.wi++
		if k > 0 && k < 64 {
			if c.wsmall >= chopBudget {
				k = 0
			}
			c.wsmall++
		}
		if k == 0 || k > len(p)-total {
			k = len(p) - total
		}
		n, err := c.Conn.Write(p[total : total+k])
		total += n
		if err != nil || total == len(p) {
			return total, err
		}
	}
}

var _ net.Conn = (*chopConn)(nil)

// ---------------------------------------------------------------------------
// frame-aware man in the middle (sits under the secure channel of the writing side)

const (
	tNone = iota
	tFlip
	tDrop
	tDup
	tSwap
	tTrunc
	tInsert
)

var tamperNames = [...]string{"none", "flip", "drop", "dup", "swap", "trunc", "insert"}

// position classes for flip / truncate
const (
	pcHdrFirst  = iota // first header byte (Noise: high length byte; TLS: record type)
	pcHdrLast          // last header byte (low length byte)
	pcHdrMid           // TLS: version / high length byte; Noise: same as first
	pcBodyFirst        // first ciphertext byte
	pcBodyMid          // a drawn ciphertext byte
	pcTagFirst         // first byte of the authentication tag
	pcLast             // last byte of the frame
	pcCount
)

var pcNames = [...]string{"hdr-first", "hdr-last", "hdr-mid", "body-first", "body-mid", "tag-first", "last"}

// CUT POSITION of a truncation: the byte stream underneath the session ends (FIN, no error)
// after a drawn number of bytes of frame Frame; the frames before it are delivered whole.
// The classes aim the draw; the verdict uses the byte offset the cut really has (cutClass).
const (
	tcBoundary     = iota // 0 bytes of the frame: whole trailing frames are missing
	tcPrefixOne           // 1 byte of the header
	tcPrefixShort         // a drawn number 1..hdr-1 of header bytes
	tcPrefixLast          // the whole header but its last byte
	tcAfterPrefix         // the complete header, no body byte
	tcBodyOne             // header + 1 body byte
	tcBodyMid             // header + a drawn number 1..body-1 of body bytes
	tcTagMissing          // everything but the last 16 bytes (Noise: the whole ciphertext, no tag byte)
	tcTagShort            // a drawn number 1..15 of the last 16 bytes is missing ("only the tag is short")
	tcLastMissing         // everything but the last byte
	tcCount
)

var tcNames = [...]string{"frame-boundary", "prefix:1-byte", "prefix:drawn", "prefix:last-byte-missing", "after-prefix:0-body-bytes",
	"body:1-byte", "body:drawn", "body:tag-missing", "body:tag-short", "body:last-byte-missing"}

// where a cut of cut bytes into a frame of flen bytes (hdr of them header) lies
const (
	cutAtBoundary   = iota // the stream ends between two frames: the same bytes as a close by the writer
	cutInPrefix            // inside the length prefix / record header
	cutAfterPrefix         // the header is complete and announces a body of which nothing arrives
	cutInBody              // 1 .. len-1 body bytes arrive
	cutNothingLost         // (not generated) the whole frame was delivered
)

var cutClassNames = [...]string{"at-frame-boundary", "inside-prefix", "after-complete-prefix", "inside-body", "nothing-lost"}

func cutClass(cut, hdr, flen int) int {
	switch {
	case cut <= 0:
		return cutAtBoundary
	case cut < hdr:
		return cutInPrefix
	case cut == hdr && flen > hdr:
		return cutAfterPrefix
	case cut < flen:
		return cutInBody
	}
	return cutNothingLost
}

// cutOffset turns a cut class into a byte count 0..flen-1 for a frame of flen bytes.
func cutOffset(class int, rnd uint64, hdr, flen int) int {
	body := flen - hdr
	cut := 0
	switch class {
	case tcBoundary:
		cut = 0
	case tcPrefixOne:
		cut = 1
	case tcPrefixShort:
		cut = 1 + int(rnd%uint64(max(1, hdr-1)))
	case tcPrefixLast:
		cut = hdr - 1
	case tcAfterPrefix:
		cut = hdr
	case tcBodyOne:
		cut = hdr + 1
	case tcBodyMid:
		cut = hdr + 1 + int(rnd%uint64(max(1, body-1)))
	case tcTagMissing:
		cut = flen - 16
	case tcTagShort:
		cut = flen - 1 - int(rnd%15)
	default:
		cut = flen - 1
	}
	if class >= tcBodyOne {
		cut = max(cut, hdr+1)
	}
	return max(0, min(cut, flen-1))
}

type tamperPlan struct {
	Op    int
	Frame int
	Pos   int    // position class (flip)
	Cut   int    // cut class (truncate)
	Mask  byte   // flip mask, non-zero
	Rand  uint64 // position inside the body / forged bytes
}

func (t tamperPlan) String() string {
	if t.Op == tNone {
		return "none"
	}
	if t.Op == tTrunc {
		return fmt.Sprintf("trunc@%d/%s/%x", t.Frame, tcNames[t.Cut], t.Rand&0xffff)
	}
	return fmt.Sprintf("%s@%d/%s/%02x/%x", tamperNames[t.Op], t.Frame, pcNames[t.Pos], t.Mask, t.Rand&0xffff)
}

type tamperConn struct {
	net.Conn
	hdr      int // header length; the last two header bytes are the big-endian body length
	overhead int // ciphertext bytes per frame that are not plaintext
	plan     tamperPlan

	mu          sync.Mutex
	armed       bool
	buf         []byte
	idx         int
	plainBefore int
	held        []byte
	heldOff     int
	dead        bool
	applied     bool
	offset      int // plaintext offset of the first tampered frame (upper bound)
	cutBytes    int // truncate: bytes of the cut frame that were delivered ...
	cutFrameLen int // ... of this many
	closeWrite  func()
}

func (t *tamperConn) arm() {
	t.mu.Lock()
	t.armed = true
	t.mu.Unlock()
}

func (t *tamperConn) Write(p []byte) (int, error) {
	t.mu.Lock()
	defer t.mu.Unlock()
	if !t.armed {
		return t.Conn.Write(p)
	}
	t.buf = append(t.buf, p...)
	for {
		if len(t.buf) < t.hdr {
			break
		}
		bl := int(binary.BigEndian.Uint16(t.buf[t.hdr-2 : t.hdr]))
		if len(t.buf) < t.hdr+bl {
			break
		}
		frame := append([]byte(nil), t.buf[:t.hdr+bl]...)
		t.buf = t.buf[t.hdr+bl:]
		t.process(frame)
	}
	return len(p), nil
}

func (t *tamperConn) emit(b []byte) {
	if len(b) > 0 && !t.dead {
		t.Conn.Write(b)
	}
}

func (t *tamperConn) pos(class int, frame []byte) int {
	body := len(frame) - t.hdr
	switch class {
	case pcHdrFirst:
		return 0
	case pcHdrLast:
		return t.hdr - 1
	case pcHdrMid: // TLS: a version byte or the high length byte; Noise: the high length byte
		if t.hdr > 2 {
			return 1 + int(t.plan.Rand%uint64(t.hdr-2))
		}
		return 0
	case pcBodyFirst:
		return min(t.hdr, len(frame)-1)
	case pcBodyMid:
		if body <= 0 {
			return len(frame) - 1
		}
		return t.hdr + int(t.plan.Rand%uint64(body))
	case pcTagFirst:
		return max(t.hdr, len(frame)-16)
	default:
		return len(frame) - 1
	}
}

func (t *tamperConn) process(frame []byte) {
	j := t.idx
	t.idx++
	plain := max(0, len(frame)-t.hdr-t.overhead)
	defer func() { t.plainBefore += plain }()
	if t.dead {
		return
	}
	if t.held != nil {
		t.emit(frame)
		t.emit(t.held)
		t.held = nil
		t.applied, t.offset = true, t.heldOff
		return
	}
	if t.plan.Op == tNone || j != t.plan.Frame || t.applied {
		t.emit(frame)
		return
	}
	switch t.plan.Op {
	case tFlip:
		frame[t.pos(t.plan.Pos, frame)] ^= t.plan.Mask
		t.emit(frame)
		t.applied, t.offset = true, t.plainBefore
	case tDrop:
		t.applied, t.offset = true, t.plainBefore
	case tDup:
		t.emit(frame)
		t.emit(frame)
		t.applied, t.offset = true, t.plainBefore+plain
	case tSwap:
		t.held, t.heldOff = frame, t.plainBefore
	case tTrunc:
		cut := cutOffset(t.plan.Cut, t.plan.Rand, t.hdr, len(frame))
		t.cutBytes, t.cutFrameLen = cut, len(frame)
		t.emit(frame[:cut])
		t.applied, t.offset = true, t.plainBefore
		t.dead = true
		t.closeWrite()
	case tInsert:
		// a forged frame with a well-formed header and pseudo-random body of the same length
		forged := append([]byte(nil), frame...)
		x := t.plan.Rand
		for i := t.hdr; i < len(forged); i++ {
			x = mix64(x)
			forged[i] = byte(x)
		}
		t.emit(forged)
		t.emit(frame)
		t.applied, t.offset = true, t.plainBefore
	}
}

// flush forwards whatever is still held back (a swap whose partner never came).
func (t *tamperConn) flush() {
	t.mu.Lock()
	defer t.mu.Unlock()
	if t.held != nil {
		t.emit(t.held)
		t.held = nil
	}
	if len(t.buf) > 0 {
		t.emit(t.buf)
		t.buf = nil
	}
}

func (t *tamperConn) result() (bool, int) {
	t.mu.Lock()
	defer t.mu.Unlock()
	return t.applied, t.offset
}

// cutResult: where the truncation fell (cutClass), once it has been applied.
func (t *tamperConn) cutResult() (class, cut, flen int) {
	t.mu.Lock()
	defer t.mu.Unlock()
	return cutClass(t.cutBytes, t.hdr, t.cutFrameLen), t.cutBytes, t.cutFrameLen
}

// drawTamper draws one edit; nframes is a lower bound on the number of frames the
// tampered direction produces (>= 1).
func drawTamper(rt *rapid.T, nframes int) tamperPlan {
	var t tamperPlan
	ops := []int{tFlip, tFlip, tFlip, tDrop, tDup, tTrunc, tTrunc, tInsert}
	if nframes >= 2 {
		ops = append(ops, tSwap, tSwap)
	}
	t.Op = rapid.SampledFrom(ops).Draw(rt, "tamper-op")
	hi := nframes - 1
	if t.Op == tSwap {
		hi = nframes - 2
	}
	t.Frame = rapid.IntRange(0, hi).Draw(rt, "tamper-frame")
	t.Pos = rapid.IntRange(0, pcCount-1).Draw(rt, "tamper-pos")
	t.Mask = byte(rapid.IntRange(1, 255).Draw(rt, "tamper-mask"))
	t.Rand = rapid.Uint64().Draw(rt, "tamper-rand")
	if t.Op == tTrunc {
		t.Cut = rapid.IntRange(0, tcCount-1).Draw(rt, "tamper-cut")
	}
	return t
}

// ---------------------------------------------------------------------------
// waiting on virtual time

// runEnv says where a case runs: inside a synctest bubble (virtual time: a stall is a
// failure of the case) or on real sockets (real time: a stall is inconclusive).
type runEnv struct {
	real bool
}

var bubbleEnv = runEnv{}

// waitDone waits for n signals on ch or a virtual hour (3 real minutes outside
// bubbles); returns false on timeout.
func (e runEnv) waitDone(ch <-chan struct{}, n int) bool {
	d := time.Hour
	if e.real {
		d = 3 * time.Minute
	}
	timer := time.NewTimer(d)
	defer timer.Stop()
	for i := 0; i < n; i++ {
		select {
		case <-ch:
		case <-timer.C:
			return false
		}
	}
	return true
}

// stalled reports a case whose workers did not finish. In a bubble virtual time only
// advances when every goroutine is blocked, so this is a genuine deadlock / lost wakeup
// and fails the case; on real sockets it is a resource problem: inconclusive.
func (e runEnv) stalled(f failer, format string, a ...any) {
	if !e.real {
		f.Fatalf(format, a...)
	}
	buf := make([]byte, 4<<20)
	buf = buf[:runtime.Stack(buf, true)]
	fmt.Fprintf(os.Stderr, "INCONCLUSIVE (real-time stall): %s\n%s\n", fmt.Sprintf(format, a...), buf)
	stats.Flush()
	os.Exit(3)
}
