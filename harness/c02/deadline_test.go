package c02

import (
	"errors"
	"fmt"
	"net"
	"strings"
	"time"

	"pgregory.net/rapid"
)

// Deadlines with partial progress and a caller that carries on.
//
// The statement quantifies over every sequence of write sizes and read-buffer sizes; the
// sizes that actually take effect are the counts Read and Write return. Under the
// io.Reader / io.Writer contracts a call may return n > 0 TOGETHER with an error, and the
// n bytes count: a Write that gives up at its deadline after n bytes has transferred
// exactly p[:n] (a writer that carries on resumes at p[n:]); a Read that reports a
// timeout together with n bytes has delivered buf[:n]. A deadline is what splits one
// planned Write / Read into such pieces. The oracle does not change: the bytes the
// reader was handed (whatever error came with them) are, in order, exactly the bytes the
// writer was told were accepted, and in the end all of them.
//
// Virtual time makes the schedule reproducible: a deadline fires only when every
// goroutine of the case is blocked, i.e. when the writer is out of flow-control window
// because the reader pauses, or when the reader waits for a writer that pauses.

// dlPlan is the deadline / pause schedule of one direction of a stream or connection.
type dlPlan struct {
	W      time.Duration // writer: SetWriteDeadline(now+W) before every Write call, resume at p[n:] on a timeout; 0 = no write deadline
	WGap   time.Duration // writer pauses this long before each of its first 24 Write calls
	R      time.Duration // reader: <0 = read deadline in the past (non-blocking poll), >0 = SetReadDeadline(now+R) before every Read, 0 = none
	RStart time.Duration // reader issues its first Read this long after it got the stream
	REvery int           // reader pauses RGap after every REvery-th Read that returned bytes (0 = never; at most 24 pauses)
	RGap   time.Duration
	// one long idle period (longer than the timeouts the library arms by itself, see longPauses)
	WLong   time.Duration // writer pauses this long once, before its Write call number WLongAt (counted over the whole direction)
	WLongAt int
	RLong   time.Duration // reader pauses this long once, before its Read call number RLongAt
	RLongAt int
}

func (d dlPlan) active() bool { return d != dlPlan{} }

// from is the schedule for the Write calls from number k on, only for call number k.
func (d dlPlan) from(k int) dlPlan {
	if d.WLongAt -= k; d.WLongAt < 0 {
		d.WLong, d.WLongAt = 0, 0
	}
	return d
}

func (d dlPlan) only(k int) dlPlan {
	if d.WLongAt != k {
		d.WLong = 0
	}
	d.WLongAt = 0
	return d
}

func (d dlPlan) String() string {
	if !d.active() {
		return ""
	}
	var b strings.Builder
	b.WriteString(" dl[")
	if d.W > 0 {
		fmt.Fprintf(&b, "wdl=%v ", d.W)
	}
	if d.WGap > 0 {
		fmt.Fprintf(&b, "wgap=%v ", d.WGap)
	}
	switch {
	case d.R < 0:
		b.WriteString("rdl=past ")
	case d.R > 0:
		fmt.Fprintf(&b, "rdl=%v ", d.R)
	}
	if d.RStart > 0 {
		fmt.Fprintf(&b, "rstart=%v ", d.RStart)
	}
	if d.REvery > 0 {
		fmt.Fprintf(&b, "rpause=%v/%d ", d.RGap, d.REvery)
	}
	if d.WLong > 0 {
		fmt.Fprintf(&b, "widle=%v@%d ", d.WLong, d.WLongAt)
	}
	if d.RLong > 0 {
		fmt.Fprintf(&b, "ridle=%v@%d ", d.RLong, d.RLongAt)
	}
	return strings.TrimRight(b.String(), " ") + "]"
}

func isTimeout(err error) bool {
	var ne net.Error
	return errors.As(err, &ne) && ne.Timeout()
}

// deadline in the past for the polling reader (any instant before the bubble's epoch)
var pastDeadline = time.Unix(1, 0)

// yamuxWindow is the flow-control credit a yamux stream starts with in each direction
// (go-yamux initialStreamWindow; the configuration cannot go below it). Generator aim: a
// write deadline can only fire part-way through a Write once the writer has run out of
// credit, so the write-deadline class prefers payloads above it.
const yamuxWindow = 256 << 10

var wdlTotals = []int{yamuxWindow + 1, yamuxWindow + yamuxFrame, 300000, yamuxWindow + 17, yamuxWindow + 2*yamuxFrame + 1, 3*yamuxWindow/2 + 1}

var pollTotals = []int{yamuxWindow, yamuxWindow / 2, yamuxWindow/2 + 1, yamuxWindow - 1, 3 * yamuxWindow / 4, yamuxWindow/2 + yamuxFrame}

// drawStreamDeadlines draws the deadline schedule of one stream direction and re-aims
// the payload length where the class needs it (constructive; nothing is rejected).
//
//	write class: a write deadline W on every Write call and a reader that starts late and/or
//	  pauses, so that the writer runs out of window and the deadline fires after part of a
//	  Write was accepted; payloads mostly above the initial window.
//	poll class:  the reader polls with a read deadline in the past and keeps buf[:n] of every
//	  call (a Read that has data returns it; the window update that Read owes the peer cannot
//	  be sent with an expired deadline, so Read reports the timeout together with the bytes).
//	  Payload at most pollCap = the initial window minus what the layer itself sends on the
//	  stream (protocol negotiation): go-yamux drops (does not re-send) a window update that
//	  hit the deadline, so a poller never grants new credit and a longer payload would stall
//	  for a reason that has nothing to do with the bytes delivered (see assumptions).
//	short class: a short read deadline before every Read and a writer that pauses, so that
//	  Reads time out empty-handed between the writer's calls.
func drawStreamDeadlines(rt *rapid.T, label string, d *dirPlan, pollCap int) {
	ms := time.Millisecond
	k := rapid.IntRange(0, 9).Draw(rt, label+"-dlclass")
	redraw := false
	switch {
	case k < 6:
		return
	case k < 8: // write class
		d.DL.W = rapid.SampledFrom([]time.Duration{ms, 5 * ms, 50 * ms}).Draw(rt, label+"-wdl")
		d.DL.RStart = d.DL.W * time.Duration(rapid.SampledFrom([]int{3, 1, 0, 10, 30}).Draw(rt, label+"-rstart"))
		d.DL.REvery = rapid.SampledFrom([]int{0, 1, 2, 7}).Draw(rt, label+"-revery")
		if d.DL.REvery > 0 {
			d.DL.RGap = d.DL.W * time.Duration(rapid.SampledFrom([]int{2, 1, 5}).Draw(rt, label+"-rgap"))
		}
		if rapid.IntRange(0, 2).Draw(rt, label+"-wbig") > 0 {
			if rapid.Bool().Draw(rt, label+"-wbigb") {
				d.Total = rapid.SampledFrom(wdlTotals).Draw(rt, label+"-wtotal")
			} else {
				d.Total = rapid.IntRange(yamuxWindow+1, yamuxWindow+70000).Draw(rt, label+"-wtotalr")
			}
			redraw = true
		}
		// sometimes the reader of the same direction polls as well (payload capped below)
		if rapid.IntRange(0, 5).Draw(rt, label+"-wpoll") == 0 {
			d.DL.R = -1
		}
	case k < 9: // poll class
		d.DL.R = -1
		d.DL.WGap = rapid.SampledFrom([]time.Duration{ms, 7 * ms, 0}).Draw(rt, label+"-wgap")
		if d.Total > pollCap || rapid.IntRange(0, 2).Draw(rt, label+"-pbig") > 0 {
			if rapid.Bool().Draw(rt, label+"-pbigb") {
				d.Total = rapid.SampledFrom(pollTotals).Draw(rt, label+"-ptotal")
			} else {
				d.Total = rapid.IntRange(yamuxWindow/2, yamuxWindow).Draw(rt, label+"-ptotalr")
			}
			redraw = true
		}
		if rapid.IntRange(0, 3).Draw(rt, label+"-pwdl") == 0 {
			d.DL.W = rapid.SampledFrom([]time.Duration{ms, 5 * ms}).Draw(rt, label+"-wdl")
		}
	default: // short class
		d.DL.R = rapid.SampledFrom([]time.Duration{ms, 10 * ms}).Draw(rt, label+"-rdl")
		d.DL.WGap = rapid.SampledFrom([]time.Duration{3 * ms, 25 * ms, 0}).Draw(rt, label+"-wgap")
		if rapid.IntRange(0, 3).Draw(rt, label+"-swdl") == 0 {
			d.DL.W = rapid.SampledFrom([]time.Duration{ms, 5 * ms}).Draw(rt, label+"-wdl")
			d.DL.RStart = d.DL.W * time.Duration(rapid.SampledFrom([]int{3, 0, 10}).Draw(rt, label+"-rstart"))
		}
	}
	if d.DL.R < 0 && d.Total > pollCap {
		d.Total = pollCap - rapid.IntRange(0, 4096).Draw(rt, label+"-pcap")
		redraw = true
	}
	if !redraw {
		return
	}
	if d.DL.R < 0 && d.Total > yamuxWindow/2 && d.DL.WGap > 0 {
		// Aim: the Read that owes the peer a window update (half of the window consumed) comes
		// while the stream is still open, i.e. before the writer's last Write and half-close
		// (yamux clears the deadlines of a stream once both directions are closed): a pausing
		// writer whose last Write starts beyond half a window.
		first := rapid.IntRange(yamuxWindow/2, d.Total-1).Draw(rt, label+"-pfirst")
		d.Writes = append(drawWrites(rt, label+"d", first), drawWrites(rt, label+"e", d.Total-first)...)
		return
	}
	d.Writes = drawWrites(rt, label+"d", d.Total)
}

// longPauses are idle periods that exceed the timeouts the library arms on its own while a
// stream is set up or kept alive: the hosts' protocol-negotiation timeout (configurable,
// default 10 s; armed on every inbound stream before its handler runs), yamux' connection
// write timeout (10 s) and keep-alive interval (30 s), identify's 30 s / 60 s timeouts. The
// statement puts no bound on the time between two Writes or two Reads: bytes written after
// any such idle period must arrive like all the others. Virtual time: they cost nothing.
var longPauses = []time.Duration{11 * time.Second, 1500 * time.Millisecond, 35 * time.Second, 4 * time.Second, 65 * time.Second, 130 * time.Second}

// drawLongPause gives one direction of a stream one long idle period: the writer stops
// before one of its Write calls, or the reader before one of its Read calls (the first one,
// or one in the middle of the payload).
func drawLongPause(rt *rapid.T, label string, d *dirPlan) {
	dur := rapid.SampledFrom(longPauses).Draw(rt, label+"-idle")
	if rapid.IntRange(0, 2).Draw(rt, label+"-idle-who") > 0 && len(d.Writes) > 0 {
		d.DL.WLong = dur
		d.DL.WLongAt = rapid.IntRange(0, min(len(d.Writes)-1, 3)).Draw(rt, label+"-idle-at")
		return
	}
	d.DL.RLong = dur
	d.DL.RLongAt = rapid.IntRange(0, 3).Draw(rt, label+"-idle-at")
}

// drawConnDeadlines: connection layers (Noise, TLS, pnet). Only the part of the dimension
// that applies to them:
//
//   - pacing on all three: a reader that starts late and pauses, a writer that pauses
//     between its Write calls (no deadline involved; the pipe underneath runs full / empty);
//   - read deadlines (short, or in the past = polling) with a reader that carries on, on
//     TLS only (readDL): crypto/tls keeps a partially received record across Read calls and
//     treats a timeout as temporary. Noise's and pnet's readers do not keep a partially
//     read frame / nonce across calls, and a deadline can expire inside a frame whenever
//     the pipe has delivered only part of it (it does: found while building this), so a
//     read that timed out cannot be resumed on them in general: the dimension does not
//     apply;
//   - no write deadlines on any of them: a frame is atomic on the wire, a Write that timed
//     out part-way through a frame cannot be resumed (crypto/tls documents the connection
//     as corrupt afterwards; Noise would continue with a frame inside a frame; pnet has
//     advanced its key stream by the whole buffer).
func drawConnDeadlines(rt *rapid.T, label string, d *dirPlan, readDL bool) {
	ms := time.Millisecond
	k := rapid.IntRange(0, 7).Draw(rt, label+"-dlclass")
	switch {
	case k < 3:
	case k < 6:
		d.DL.WGap = rapid.SampledFrom([]time.Duration{3 * ms, 25 * ms, 0}).Draw(rt, label+"-wgap")
		if readDL {
			d.DL.R = rapid.SampledFrom([]time.Duration{ms, -1, 10 * ms}).Draw(rt, label+"-rdl")
		}
	default:
		d.DL.RStart = rapid.SampledFrom([]time.Duration{3 * ms, 50 * ms}).Draw(rt, label+"-rstart")
		d.DL.REvery = rapid.SampledFrom([]int{1, 2, 7}).Draw(rt, label+"-revery")
		d.DL.RGap = rapid.SampledFrom([]time.Duration{ms, 5 * ms}).Draw(rt, label+"-rgap")
		if readDL && rapid.Bool().Draw(rt, label+"-rpoll") {
			d.DL.R = -1
		}
	}
}

// dlLabels reports the generated class and what was observed for one direction.
func dlLabels(add func(string), d dirPlan, wr writeResult, rd readResult, stream bool) {
	dl := d.DL
	if !dl.active() {
		return
	}
	if dl.W > 0 {
		add("deadline:write+resume")
		if stream && d.Total > yamuxWindow {
			add("deadline:write+resume,len>window")
		}
	}
	switch {
	case dl.R < 0:
		add("deadline:read-poll-past")
		if stream && d.Total >= yamuxWindow/2 {
			add("deadline:read-poll-past,len>=window/2")
		}
	case dl.R > 0:
		add("deadline:read-short")
	}
	if dl.RStart > 0 || dl.REvery > 0 {
		add("slow-reader")
	}
	if dl.WGap > 0 {
		add("pausing-writer")
	}
	for _, idle := range []struct {
		who string
		d   time.Duration
	}{{"writer", dl.WLong}, {"reader", dl.RLong}} {
		if idle.d > 0 {
			add("idle:" + idle.who)
			for _, th := range []time.Duration{time.Second, 10 * time.Second, 30 * time.Second, time.Minute} {
				if idle.d > th {
					add(fmt.Sprintf("idle:>%v", th))
				}
			}
		}
	}
	if wr.partial > 0 {
		add("observed:Write=(0<n<len,timeout)")
	}
	if wr.timeouts > wr.partial {
		add("observed:Write=(0,timeout)")
	}
	if wr.resumed > 0 {
		add("observed:write-resumed-after-timeout")
	}
	if rd.timeoutsWithBytes > 0 {
		add("observed:Read=(n>0,timeout)")
	}
	if rd.timeouts > rd.timeoutsWithBytes {
		add("observed:Read=(0,timeout)")
	}
}
