package c02

import (
	"context"
	"errors"
	"fmt"
	"net"
	"sync"
	"testing"
	"time"

	"github.com/libp2p/go-libp2p/core/network"
	"github.com/libp2p/go-libp2p/core/peer"
	"github.com/libp2p/go-libp2p/core/transport"
	"github.com/libp2p/go-libp2p/p2p/transport/websocket"
	ma "github.com/multiformats/go-multiaddr"
	manet "github.com/multiformats/go-multiaddr/net"
	"pgregory.net/rapid"

	"verif/internal/hx"
	"verif/internal/keys"
	"verif/internal/stats"
)

// Transport dimension: the secured connection runs over a MESSAGE-FRAMED transport.
//
// The statement quantifies over "each security transport x muxer x transport combination
// the node can be configured with". Over TCP (and over the in-memory pipe of L1-L5) the
// connection underneath the security layer is a byte pipe: how a layer groups its bytes
// into Write calls is invisible below. The WebSocket transport is different: every
// Conn.Write is sent as one WebSocket message and the peer's Conn.Read re-assembles the
// byte stream from messages, so the size of the largest single Write a layer makes (a full
// Noise frame: 2 + 65535 bytes; a pnet Write: the caller's whole buffer; a yamux frame:
// 12 + 65524) becomes a property of the wire. These tests run the same plans (payload
// lengths and Write sizes around every layer's maximum frame size, read-buffer sizes) and
// the same oracle over connections made by the real WebSocket transport on loopback TCP.
//
// Real sockets: outside bubbles, real time; a stall is inconclusive, never a violation.
// Labels are derived from the plan only (what the reads return depends on timing here).

// captureUpgrader stands in for the transport's upgrader so that the test gets hold of the
// transport's own connections (websocket.Conn, made by the transport on both ends) before
// any security layer runs on them: Upgrade and Accept hand the connection over as it is.
type captureUpgrader struct {
	transport.Upgrader // the real one: gates the TCP listener
	mu                 sync.Mutex
	dialed             manet.Conn
	gated              transport.GatedMaListener
}

type rawCapable struct {
	transport.CapableConn // never used
}

func (u *captureUpgrader) Upgrade(_ context.Context, _ transport.Transport, c manet.Conn, _ network.Direction, _ peer.ID, _ network.ConnManagementScope) (transport.CapableConn, error) {
	u.mu.Lock()
	u.dialed = c
	u.mu.Unlock()
	return rawCapable{}, nil
}

func (u *captureUpgrader) UpgradeGatedMaListener(_ transport.Transport, l transport.GatedMaListener) transport.Listener {
	u.gated = l
	return rawListener{l}
}

type rawListener struct{ l transport.GatedMaListener }

func (r rawListener) Accept() (transport.CapableConn, error) {
	return nil, errors.New("connections are taken from the gated listener directly")
}
func (r rawListener) Close() error            { return r.l.Close() }
func (r rawListener) Addr() net.Addr          { return r.l.Addr() }
func (r rawListener) Multiaddr() ma.Multiaddr { return r.l.Multiaddr() }

// wsWorld is one WebSocket transport with a listener on loopback (one per test).
type wsWorld struct {
	tpt *websocket.WebsocketTransport
	up  *captureUpgrader
	l   transport.Listener
}

func newWSWorld() (*wsWorld, error) {
	real, err := mkUpgrader(keys.Ed(2), &muxCase{Sec: "noise"})
	if err != nil {
		return nil, err
	}
	up := &captureUpgrader{Upgrader: real}
	tpt, err := websocket.New(up, &network.NullResourceManager{}, nil)
	if err != nil {
		return nil, err
	}
	l, err := tpt.Listen(ma.StringCast("/ip4/127.0.0.1/tcp/0/ws"))
	if err != nil {
		return nil, err
	}
	return &wsWorld{tpt: tpt, up: up, l: l}, nil
}

func (w *wsWorld) Close() { w.l.Close() }

// pair makes one WebSocket connection: a is the dialer's end, b the listener's.
func (w *wsWorld) pair() (a, b manet.Conn, err error) {
	ctx, cancel := context.WithTimeout(context.Background(), time.Minute)
	defer cancel()
	if _, err := w.tpt.Dial(ctx, w.l.Multiaddr(), keys.Ed(2).ID); err != nil {
		return nil, nil, fmt.Errorf("dial %v: %w", w.l.Multiaddr(), err)
	}
	w.up.mu.Lock()
	a, w.up.dialed = w.up.dialed, nil
	w.up.mu.Unlock()
	type acc struct {
		c   manet.Conn
		err error
	}
	ch := make(chan acc, 1)
	go func() {
		c, _, err := w.up.gated.Accept()
		ch <- acc{c, err}
	}()
	select {
	case r := <-ch:
		if r.err != nil {
			a.Close()
			return nil, nil, fmt.Errorf("accept: %w", r.err)
		}
		return a, r.c, nil
	case <-ctx.Done():
		a.Close()
		return nil, nil, errors.New("accept: the listener did not deliver the dialed connection within a minute")
	}
}

var realEnv = runEnv{real: true}

// wsOrInconclusive: the loopback set-up itself (listen, dial, HTTP upgrade) is environment,
// not property.
func wsOrInconclusive(f failer, what string, err error) {
	if err != nil {
		realEnv.stalled(f, "websocket over loopback: %s: %v", what, err)
	}
}

// ---------------------------------------------------------------------------
// L1-L3 over a WebSocket connection

type wsConnCase struct {
	Layer string
	Key   uint64
	Dir   [2]dirPlan // 0: dialer's end writes; 1: listener's end writes
}

func (c *wsConnCase) fingerprint() string {
	return fmt.Sprintf("ws|%s|%v|%v", c.Layer, c.Dir[0], c.Dir[1])
}

func layerOf(name string, key uint64) (layerParams, secureSetup) {
	switch name {
	case "tls":
		return tlsParams, tlsSetup
	case "pnet":
		return pnetParams, pnetSetup(key)
	}
	return noiseParams, noiseSetup
}

// wireMessage is the size of the largest single Write the security layer hands to the
// connection underneath (= one WebSocket message) for a caller's Write of n bytes.
func wireMessage(layer string, n int) int {
	switch layer {
	case "noise":
		return 2 + min(n, noiseFrame) + 16
	case "tls":
		return 5 + min(n, tlsFrame) + 17
	}
	return n
}

func wsConnLabels(c *wsConnCase, lp layerParams) (labels []string, nontrivial bool) {
	labels = append(labels, "transport:websocket", "layer:"+c.Layer)
	for d := 0; d < 2; d++ {
		labels = append(labels, lenLabel(c.Dir[d].Total, lp.frameMax))
		frames := c.Dir[d].frames(lp.frameMax)
		small, pooled := simReads(c.Dir[d], frames, lp.tagLen)
		if len(frames) > 1 || small || pooled {
			nontrivial = true
		}
		maxW := 0
		for _, w := range c.Dir[d].Writes {
			maxW = max(maxW, w)
			if w >= lp.frameMax {
				labels = append(labels, "ws:Write>=full-frame-of-the-layer")
			}
			if w == lp.frameMax || w == lp.frameMax-1 || w == lp.frameMax+1 {
				labels = append(labels, "ws:Write=frame-max+-1")
			}
		}
		switch m := wireMessage(c.Layer, maxW); {
		case m > 1<<16:
			labels = append(labels, "ws:message>64KiB")
		case m == 1<<16:
			labels = append(labels, "ws:message=64KiB")
		case m > 1<<14:
			labels = append(labels, "ws:message>16KiB")
		}
	}
	return dedup(labels), nontrivial
}

// runWSConnCase: both directions concurrently over one secured WebSocket connection. There
// is no half-close here: each reader stops when it has the whole payload; then the dialer's
// end is closed and the other end must report the end of the stream without any further byte.
func runWSConnCase(f failer, w *wsWorld, c *wsConnCase, lp layerParams, setup secureSetup) {
	rawA, rawB, err := w.pair()
	wsOrInconclusive(f, "connection set-up", err)
	abort := func() { rawA.Close(); rawB.Close() }
	defer abort()
	a, b, err := setup(rawA, rawB)
	if err != nil {
		f.Fatalf("%s over websocket: handshake over a healthy loopback connection failed: %v", c.Layer, err)
	}
	defer a.Close()
	defer b.Close()
	data := [2][]byte{payload(c.Key, 0, 0, c.Dir[0].Total), payload(c.Key, 0, 1, c.Dir[1].Total)}
	ends := [2]net.Conn{a, b}
	sk := &sink{failed: make(chan struct{})}
	var rd [2]readResult
	var wr [2]writeResult
	done := make(chan struct{}, 4)
	for d := 0; d < 2; d++ {
		wc, rc := ends[d], ends[1-d]
		who := fmt.Sprintf("%s over websocket dir %d", c.Layer, d)
		go func() {
			defer func() { done <- struct{}{} }()
			defer sk.guard(who + " writer")
			wr[d] = runWriter(wc, c.Dir[d], data[d], sk, who+" writer", false)
		}()
		go func() {
			defer func() { done <- struct{}{} }()
			defer sk.guard(who + " reader")
			rd[d] = runReader(rc, c.Dir[d], c.Dir[d].frames(lp.frameMax), data[d], sk, who+" reader",
				readerCfg{mode: readUntilErr, frameMax: lp.frameMax, tagLen: lp.tagLen, untilTotal: true})
			if rd[d].got != len(data[d]) {
				sk.failf("%s reader: received %d of %d bytes, then %v", who, rd[d].got, len(data[d]), rd[d].err)
			}
		}()
	}
	// the first failure ends the case: cut both connections so that nobody stays blocked
	timer := time.NewTimer(3 * time.Minute)
	defer timer.Stop()
	failed := sk.failed
	for remaining := 4; remaining > 0; {
		select {
		case <-done:
			remaining--
		case <-failed:
			failed = nil
			abort()
		case <-timer.C:
			abort()
			realEnv.stalled(f, "%s over websocket: workers did not finish within 3 minutes (first failure so far: %q)", c.Layer, sk.get())
		}
	}
	if msg := sk.get(); msg != "" {
		f.Fatalf("%s", msg)
	}
	for d := 0; d < 2; d++ {
		if wr[d].n != c.Dir[d].Total {
			f.Fatalf("%s over websocket dir %d: Write counts sum to %d, payload is %d", c.Layer, d, wr[d].n, c.Dir[d].Total)
		}
	}
	// exactly once: nothing follows the payload
	a.Close()
	b.SetReadDeadline(time.Now().Add(time.Minute))
	buf := make([]byte, 64)
	for {
		n, err := b.Read(buf)
		if n > 0 {
			f.Fatalf("%s over websocket dir 0: Read returned %d more bytes (%x) after the whole payload of %d bytes had been received and the writer had closed", c.Layer, n, buf[:n], c.Dir[0].Total)
		}
		if err != nil {
			if isTimeout(err) {
				realEnv.stalled(f, "%s over websocket: the close of the peer was not seen within a minute", c.Layer)
			}
			return
		}
	}
}

func TestL13OverWebsocket(t *testing.T) {
	defer noteFailure(t)
	name := t.Name()
	w, err := newWSWorld()
	if err != nil {
		// no loopback listener in this environment: the class is not covered, and says so
		t.Logf("websocket transport cannot listen on loopback here, skipped: %v", err)
		stats.Label(name, "config-unavailable:websocket")
		return
	}
	defer w.Close()
	hx.Check(t, 1600, 40000, 0, func(rt *rapid.T) {
		c := &wsConnCase{}
		c.Layer = rapid.SampledFrom([]string{"noise", "noise", "pnet", "tls"}).Draw(rt, "layer")
		c.Key = rapid.Uint64().Draw(rt, "key")
		c.Dir[0] = drawDir(rt, "ab", 2)
		c.Dir[1] = drawDir(rt, "ba", 1)
		lp, setup := layerOf(c.Layer, c.Key)
		runWSConnCase(rt, w, c, lp, setup)
		labels, nontrivial := wsConnLabels(c, lp)
		stats.Case(name, c.fingerprint(), nontrivial, labels...)
		if stats.WantSample(name) {
			stats.Sample(name, map[string]any{"transport": "websocket (loopback)", "layer": c.Layer, "dialer_to_listener": c.Dir[0].String(), "listener_to_dialer": c.Dir[1].String()})
		}
	})
}

// ---------------------------------------------------------------------------
// L5 over a WebSocket connection: the real upgrader (PSK x Noise/TLS x yamux) on both ends

func TestL5UpgraderStackOverWebsocket(t *testing.T) {
	skipIfLowerLayerFailed(t)
	defer noteFailure(t)
	name := t.Name()
	w, err := newWSWorld()
	if err != nil {
		t.Logf("websocket transport cannot listen on loopback here, skipped: %v", err)
		stats.Label(name, "config-unavailable:websocket")
		return
	}
	defer w.Close()
	hx.Check(t, 480, 12000, 0, func(rt *rapid.T) {
		c := &muxCase{Layer: "upgrader over websocket"}
		c.Key = rapid.Uint64().Draw(rt, "key")
		drawStack(rt, c)
		c.Streams = drawStreams(rt, 3, 1, 0)
		idA, idB := keys.Ed(1), keys.Ed(2)
		uA, err := mkUpgrader(idA, c)
		if err != nil {
			rt.Fatalf("upgrader A: %v", err)
		}
		uB, err := mkUpgrader(idB, c)
		if err != nil {
			rt.Fatalf("upgrader B: %v", err)
		}
		rawA, rawB, err := w.pair()
		wsOrInconclusive(rt, "connection set-up", err)
		defer rawA.Close()
		defer rawB.Close()
		type res struct {
			c   transport.CapableConn
			err error
		}
		ch := make(chan res, 1)
		ctx, cancel := context.WithTimeout(context.Background(), 2*time.Minute)
		defer cancel()
		go func() {
			cc, err := uB.Upgrade(ctx, nil, rawB, network.DirInbound, "", &network.NullScope{})
			ch <- res{cc, err}
		}()
		ccA, errA := uA.Upgrade(ctx, nil, rawA, network.DirOutbound, idB.ID, &network.NullScope{})
		if errA != nil {
			rawA.Close()
		}
		rB := <-ch
		if errA != nil || rB.err != nil {
			if rB.c != nil {
				rB.c.Close()
			}
			if ccA != nil {
				ccA.Close()
			}
			if ctx.Err() != nil {
				realEnv.stalled(rt, "upgrade over loopback websocket did not finish in 2 minutes: outbound=%v inbound=%v", errA, rB.err)
			}
			rt.Fatalf("upgrade over a healthy loopback websocket connection failed: outbound=%v inbound=%v", errA, rB.err)
		}
		defer ccA.Close()
		defer rB.c.Close()
		o, a := muxedOpeners([2]network.MuxedConn{ccA, rB.c})
		runStreams(rt, realEnv, c.Layer, c.Key, c.Streams, yamuxFrame, o, a)
		// plan-derived labels only
		labels, nontrivial := streamLabels(c.Streams, streamsOutcome{rd: make([][2]readResult, len(c.Streams)), ws: make([][2]writeResult, len(c.Streams))}, yamuxFrame)
		labels = append(labels, "transport:websocket", "sec:"+c.Sec)
		if c.PSK {
			labels = append(labels, "psk")
		}
		if c.Early {
			labels = append(labels, "early-muxer-negotiation")
		} else {
			labels = append(labels, "multistream-muxer-negotiation")
		}
		maxW := 0
		for _, sp := range c.Streams {
			for _, dp := range [2]dirPlan{sp.Fwd, sp.Rev} {
				for _, wsz := range dp.Writes {
					maxW = max(maxW, wsz)
				}
			}
		}
		// a stream Write of at least one yamux frame makes yamux hand 12 + 65524 = 64 KiB to the
		// security layer in one go: a full Noise frame, a pnet message of 64 KiB (+ Noise overhead)
		if maxW >= yamuxFrame {
			labels = append(labels, "ws:stream-Write>=full-yamux-frame")
		}
		stats.Case(name, c.fingerprint(), nontrivial, dedup(labels)...)
		if stats.WantSample(name) {
			m := c.sample()
			m["transport"] = "websocket (loopback)"
			stats.Sample(name, m)
		}
	})
}
