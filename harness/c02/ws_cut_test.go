package c02

import (
	"bufio"
	"context"
	"encoding/binary"
	"errors"
	"fmt"
	"io"
	"net"
	"sync"
	"testing"
	"time"

	ma "github.com/multiformats/go-multiaddr"
	manet "github.com/multiformats/go-multiaddr/net"
	"pgregory.net/rapid"

	"verif/internal/hx"
	"verif/internal/keys"
	"verif/internal/stats"
)

// Truncation over the message-framed transport.
//
// "If ciphertext of an authenticated channel is ... truncated ... in transit the reader gets
// an error": over TCP a stream that ends exactly between two frames of the security layer is
// the byte sequence of an orderly close, so a clean end is all a reader can be told. Over
// the WebSocket transport it is not: an orderly close is a close frame, and a TCP stream
// that simply ends (FIN) -- between two WebSocket messages or inside one -- is visibly cut
// short. Since every frame of the security layer is one WebSocket message, this is the path
// fault "the trailing frames were lost, the path ended the stream on a frame boundary".
//
// A TCP proxy sits between the two ends of a connection made by the real WebSocket transport
// (Dial goes to the proxy, the proxy connects to the transport's listener). It forwards the
// HTTP upgrade and every byte of both directions faithfully, and parses the WebSocket frames
// of both directions (RFC 6455 framing; masked or not, fragmented or not). After the
// security handshake it is armed for one direction: it forwards k more complete messages,
// then x bytes of the next message (x = 0: exactly at the message boundary), then ends that
// TCP byte stream towards the reader with a FIN and discards whatever the writer still sends.
// The writer's Writes all succeed (the path accepted them); at least one frame never arrives.

// ---------------------------------------------------------------------------
// the proxy

type wsCutPlan struct {
	Dir   int    // 0: dialer's end writes (client frames: masked, fragmented above the write buffer); 1: listener's end writes
	K     int    // complete messages delivered after the handshake
	Class int    // wcBoundary ...
	Rand  uint64 // position for wcDrawn
}

const (
	wcBoundary = iota // FIN exactly after message K
	wcOneByte         // 1 byte of message K+1 (inside the first frame header)
	wcHeader          // 2 bytes: the basic frame header, nothing of the extended length / mask / payload
	wcDrawn           // a drawn number of bytes of message K+1
	wcAlmost          // all but the last 1..4 bytes of message K+1
	wcCount
)

var wcNames = [...]string{"at-message-boundary", "inside-message:1-byte", "inside-message:2-byte-header", "inside-message:drawn", "inside-message:last-bytes-missing"}

func (p wsCutPlan) String() string {
	return fmt.Sprintf("cut{dir %d after %d msgs %s %x}", p.Dir, p.K, wcNames[p.Class], p.Rand&0xffff)
}

// extra is the number of wire bytes of message K+1 that are still delivered; wire is the
// number of bytes that message has on the wire (all its fragments, headers included; at
// least 3). 0 < extra < wire for every class but wcBoundary.
func (p wsCutPlan) extra(wire int) int {
	n := 0
	switch p.Class {
	case wcBoundary:
		return 0
	case wcOneByte:
		n = 1
	case wcHeader:
		n = 2
	case wcDrawn:
		n = 1 + int(p.Rand%uint64(max(1, wire-1)))
	default:
		n = wire - 1 - int(p.Rand%4)
	}
	return max(1, min(n, wire-1))
}

type halfCloser interface {
	net.Conn
	CloseWrite() error
}

// pump forwards one direction of one proxied connection.
type wsPump struct {
	mu      sync.Mutex
	src     net.Conn
	dst     halfCloser
	msgs    int   // complete data messages forwarded so far
	sizes   []int // payload length of each of them
	armed   bool
	cutAt   int // cut once msgs == cutAt
	plan    wsCutPlan
	cutting bool
	hold    []byte // cutting: the wire bytes of the message that is cut
	dead    bool // FIN sent: everything else is discarded
	inMsg   bool // a fragmented message is under way
	cur     int  // payload bytes of the message under way
}

func (p *wsPump) fin() {
	p.dst.CloseWrite()
	p.dead = true
}

// arm: from now on forward k more complete messages and extra bytes of the one after.
// Returns the number of messages seen so far (the handshake's).
func (p *wsPump) arm(plan wsCutPlan) int {
	p.mu.Lock()
	defer p.mu.Unlock()
	p.armed, p.cutAt, p.plan = true, p.msgs+plan.K, plan
	if plan.K == 0 && plan.Class == wcBoundary {
		p.fin()
	}
	return p.msgs
}

func (p *wsPump) delivered() (sizes []int, dead bool) {
	p.mu.Lock()
	defer p.mu.Unlock()
	return append([]int(nil), p.sizes...), p.dead
}

// readFrame reads one WebSocket frame (RFC 6455 section 5.2) and returns its wire bytes.
func readWSFrame(br *bufio.Reader) (wire []byte, fin bool, opcode byte, payload int, err error) {
	var h [14]byte
	if _, err = io.ReadFull(br, h[:2]); err != nil {
		return
	}
	n := 2
	fin, opcode = h[0]&0x80 != 0, h[0]&0x0f
	masked := h[1]&0x80 != 0
	l := uint64(h[1] & 0x7f)
	switch l {
	case 126:
		if _, err = io.ReadFull(br, h[n:n+2]); err != nil {
			return
		}
		l = uint64(binary.BigEndian.Uint16(h[n:]))
		n += 2
	case 127:
		if _, err = io.ReadFull(br, h[n:n+8]); err != nil {
			return
		}
		l = binary.BigEndian.Uint64(h[n:])
		n += 8
	}
	if masked {
		if _, err = io.ReadFull(br, h[n:n+4]); err != nil {
			return
		}
		n += 4
	}
	if l > 1<<24 {
		err = fmt.Errorf("websocket frame of %d bytes", l)
		return
	}
	wire = make([]byte, n+int(l))
	copy(wire, h[:n])
	_, err = io.ReadFull(br, wire[n:])
	return wire, fin, opcode, int(l), err
}

func (p *wsPump) run() {
	br := bufio.NewReaderSize(p.src, 1<<16)
	// the HTTP upgrade: up to and including the empty line
	var hdr []byte
	for len(hdr) < 4 || string(hdr[len(hdr)-4:]) != "\r\n\r\n" {
		b, err := br.ReadByte()
		if err != nil {
			p.dst.Write(hdr)
			p.dst.CloseWrite()
			return
		}
		hdr = append(hdr, b)
	}
	if _, err := p.dst.Write(hdr); err != nil {
		return
	}
	for {
		wire, fin, opcode, payload, err := readWSFrame(br)
		p.mu.Lock()
		if err != nil {
			// the source ended (the case is over): pass the end of the stream on
			if !p.dead {
				p.fin()
			}
			p.mu.Unlock()
			io.Copy(io.Discard, br)
			return
		}
		data := opcode <= 2
		switch {
		case p.dead:
		case data && !p.inMsg && !p.cutting && p.armed && p.msgs == p.cutAt:
			p.cutting = true
			fallthrough
		case p.cutting:
			// the whole message is collected first: the cut position is relative to its real length
			p.hold = append(p.hold, wire...)
			if data && fin {
				p.dst.Write(p.hold[:p.plan.extra(len(p.hold))])
				p.fin()
			}
		default:
			p.dst.Write(wire)
			if data {
				p.inMsg, p.cur = !fin, p.cur+payload
				if fin {
					p.msgs++
					p.sizes = append(p.sizes, p.cur)
					p.cur = 0
					if p.armed && p.msgs == p.cutAt && p.plan.Class == wcBoundary {
						p.fin()
					}
				}
			}
		}
		p.mu.Unlock()
	}
}

// wsProxiedConn is one connection through the proxy: dir[0] carries the dialer's bytes to
// the listener, dir[1] the listener's to the dialer.
type wsProxiedConn struct {
	dir  [2]*wsPump
	c, s net.Conn
}

func (pc *wsProxiedConn) Close() { pc.c.Close(); pc.s.Close() }

type wsProxy struct {
	ln     net.Listener
	target string
	conns  chan *wsProxiedConn
	wg     sync.WaitGroup
}

func newWSProxy(target string) (*wsProxy, error) {
	ln, err := net.Listen("tcp", "127.0.0.1:0")
	if err != nil {
		return nil, err
	}
	p := &wsProxy{ln: ln, target: target, conns: make(chan *wsProxiedConn, 4)}
	go func() {
		for {
			c, err := ln.Accept()
			if err != nil {
				return
			}
			s, err := net.Dial("tcp", target)
			if err != nil {
				c.Close()
				continue
			}
			pc := &wsProxiedConn{c: c, s: s}
			pc.dir[0] = &wsPump{src: c, dst: s.(*net.TCPConn)}
			pc.dir[1] = &wsPump{src: s, dst: c.(*net.TCPConn)}
			p.wg.Add(2)
			go func() { defer p.wg.Done(); pc.dir[0].run() }()
			go func() { defer p.wg.Done(); pc.dir[1].run() }()
			p.conns <- pc
		}
	}()
	return p, nil
}

func (p *wsProxy) Close() { p.ln.Close() }

func (p *wsProxy) multiaddr() ma.Multiaddr {
	return ma.StringCast(fmt.Sprintf("/ip4/127.0.0.1/tcp/%d/ws", p.ln.Addr().(*net.TCPAddr).Port))
}

// pairVia makes one WebSocket connection whose TCP bytes run through the proxy.
func (w *wsWorld) pairVia(p *wsProxy) (a, b manet.Conn, pc *wsProxiedConn, err error) {
	ctx, cancel := context.WithTimeout(context.Background(), time.Minute)
	defer cancel()
	if _, err := w.tpt.Dial(ctx, p.multiaddr(), keys.Ed(2).ID); err != nil {
		return nil, nil, nil, fmt.Errorf("dial %v: %w", p.multiaddr(), err)
	}
	w.up.mu.Lock()
	a, w.up.dialed = w.up.dialed, nil
	w.up.mu.Unlock()
	select {
	case pc = <-p.conns:
	case <-ctx.Done():
		a.Close()
		return nil, nil, nil, errors.New("the proxy did not see the dialed connection within a minute")
	}
	type acc struct {
		c   manet.Conn
		err error
	}
	ch := make(chan acc, 1)
	go func() {
		c, _, err := w.up.gated.Accept()
		ch <- acc{c, err}
	}()
	select {
	case r := <-ch:
		if r.err != nil {
			a.Close()
			pc.Close()
			return nil, nil, nil, fmt.Errorf("accept: %w", r.err)
		}
		return a, r.c, pc, nil
	case <-ctx.Done():
		a.Close()
		pc.Close()
		return nil, nil, nil, errors.New("accept: the listener did not deliver the dialed connection within a minute")
	}
}

// ---------------------------------------------------------------------------
// the cases

type wsCutCase struct {
	Layer string
	Key   uint64
	Plan  dirPlan // the payload of the cut direction (the other direction stays silent)
	Cut   wsCutPlan
}

func (c *wsCutCase) fingerprint() string {
	return fmt.Sprintf("wscut|%s|%v|%v", c.Layer, c.Plan, c.Cut)
}

// wireOverhead: bytes of one frame of the layer that are not plaintext (= WebSocket message
// payload minus plaintext).
func wireOverhead(lp layerParams) int { return lp.hdr + lp.overhead }

func drawWSCutCase(rt *rapid.T) (*wsCutCase, layerParams, secureSetup) {
	c := &wsCutCase{}
	c.Layer = rapid.SampledFrom([]string{"noise", "noise", "noise", "tls"}).Draw(rt, "layer")
	c.Key = rapid.Uint64().Draw(rt, "key")
	lp, setup := layerOf(c.Layer, c.Key)
	c.Plan = drawDir(rt, "w", 1)
	if c.Plan.Total == 0 {
		// at least one byte, so at least one frame exists that can be lost
		c.Plan.Total = rapid.IntRange(1, 2*lp.frameMax).Draw(rt, "total")
		c.Plan.Writes = drawWrites(rt, "tw", c.Plan.Total)
	}
	nframes := len(c.Plan.frames(lp.frameMax))
	c.Cut.Dir = rapid.IntRange(0, 1).Draw(rt, "cut-dir")
	c.Cut.K = rapid.IntRange(0, nframes-1).Draw(rt, "cut-after")
	// half of the cuts exactly on a message boundary
	if !rapid.Bool().Draw(rt, "cut-boundary") {
		c.Cut.Class = rapid.IntRange(1, wcCount-1).Draw(rt, "cut-class")
	}
	c.Cut.Rand = rapid.Uint64().Draw(rt, "cut-rand")
	return c, lp, setup
}

type wsCutOutcome struct {
	rd        readResult
	offset    int  // plaintext carried by the messages that were delivered whole
	allFrames bool // the reader received all of it before the error
}

func runWSCutCase(f failer, w *wsWorld, px *wsProxy, c *wsCutCase, lp layerParams, setup secureSetup) (out wsCutOutcome) {
	rawA, rawB, pc, err := w.pairVia(px)
	wsOrInconclusive(f, "connection set-up through the proxy", err)
	abort := func() { rawA.Close(); rawB.Close(); pc.Close() }
	defer abort()
	a, b, err := setup(rawA, rawB)
	if err != nil {
		f.Fatalf("%s over websocket through a faithful proxy: handshake failed: %v", c.Layer, err)
	}
	defer a.Close()
	defer b.Close()
	frames := c.Plan.frames(lp.frameMax)
	pump := pc.dir[c.Cut.Dir]
	before := pump.arm(c.Cut)

	ends := [2]net.Conn{a, b}
	wc, rc := ends[c.Cut.Dir], ends[1-c.Cut.Dir]
	data := payload(c.Key, 0, c.Cut.Dir, c.Plan.Total)
	who := fmt.Sprintf("%s over websocket, %v", c.Layer, c.Cut)
	sk := &sink{failed: make(chan struct{})}
	done := make(chan struct{}, 2)
	rc.SetReadDeadline(time.Now().Add(2 * time.Minute))
	go func() {
		defer func() { done <- struct{}{} }()
		defer sk.guard(who + " writer")
		// the path swallows what it does not deliver: the Writes succeed
		runWriter(wc, c.Plan, data, sk, who+" writer", true)
	}()
	go func() {
		defer func() { done <- struct{}{} }()
		defer sk.guard(who + " reader")
		out.rd = runReader(rc, c.Plan, frames, data, sk, who+" reader", readerCfg{mode: readUntilErr, frameMax: lp.frameMax})
		// The proxy sends the FIN and records the cut in one critical section, so a reader that was
		// ended by the FIN finds the cut recorded. An error that ends the Read sequence while the path
		// is still delivering every byte faithfully has nothing to do with the truncation.
		if _, cut := pump.delivered(); !cut && out.rd.err != nil && !isTimeout(out.rd.err) {
			sk.failf("%s reader: Read failed with %v after %d bytes while the path was still delivering every byte faithfully (the stream had not been cut yet)", who, out.rd.err, out.rd.got)
		}
	}()
	timer := time.NewTimer(3 * time.Minute)
	defer timer.Stop()
	failed := sk.failed
	for remaining := 2; remaining > 0; {
		select {
		case <-done:
			remaining--
		case <-failed:
			failed = nil
			abort()
		case <-timer.C:
			abort()
			realEnv.stalled(f, "%s: workers did not finish within 3 minutes (first failure so far: %q)", who, sk.get())
		}
	}
	if msg := sk.get(); msg != "" {
		f.Fatalf("%s", msg)
	}
	rd := out.rd
	if rd.err != nil && isTimeout(rd.err) {
		realEnv.stalled(f, "%s: the reader saw neither data nor the end of the TCP stream within 2 minutes (received %d bytes)", who, rd.got)
	}
	sizes, dead := pump.delivered()
	if !dead || len(sizes) != before+c.Cut.K {
		realEnv.stalled(f, "%s: the proxy did not get to cut the stream (cut made: %v; %d messages forwarded, %d of them during the handshake)", who, dead, len(sizes), before)
	}
	for _, n := range sizes[before:] {
		out.offset += n - wireOverhead(lp)
	}
	if rd.err == nil {
		f.Fatalf("%s: the reader stopped without an error after %d bytes", who, rd.got)
	}
	if rd.gotAtErr > out.offset {
		f.Fatalf("%s: the reader received %d bytes, but the %d messages that reached it carry only %d bytes of plaintext", who, rd.gotAtErr, c.Cut.K, out.offset)
	}
	if errors.Is(rd.err, io.EOF) {
		f.Fatalf("%s: the TCP stream under the WebSocket connection ended (FIN, no close frame) %s after %d complete messages; Write had accepted %d bytes, "+
			"the reader received %d and then got %v: a stream that lost frames in transit is reported as a clean end (io.ReadAll returns a nil error)",
			who, wcNames[c.Cut.Class], c.Cut.K, c.Plan.Total, rd.got, rd.err)
	}
	out.allFrames = rd.gotAtErr == out.offset
	return out
}

func TestL12OverWebsocketPathCut(t *testing.T) {
	defer noteFailure(t)
	name := t.Name()
	w, err := newWSWorld()
	if err != nil {
		t.Logf("websocket transport cannot listen on loopback here, skipped: %v", err)
		stats.Label(name, "config-unavailable:websocket")
		return
	}
	defer w.Close()
	port, err := w.l.Multiaddr().ValueForProtocol(ma.P_TCP)
	if err != nil {
		t.Fatalf("listener address %v: %v", w.l.Multiaddr(), err)
	}
	px, err := newWSProxy("127.0.0.1:" + port)
	if err != nil {
		t.Logf("no loopback listener for the proxy, skipped: %v", err)
		stats.Label(name, "config-unavailable:websocket")
		return
	}
	defer px.Close()
	hx.Check(t, 600, 15000, 0, func(rt *rapid.T) {
		c, lp, setup := drawWSCutCase(rt)
		out := runWSCutCase(rt, w, px, c, lp, setup)
		labels := []string{"transport:websocket", "layer:" + c.Layer, "ws-cut:" + wcNames[c.Cut.Class], lenLabel(c.Plan.Total, lp.frameMax)}
		if c.Cut.Dir == 0 {
			labels = append(labels, "ws-cut-dir:dialer->listener(masked frames)")
		} else {
			labels = append(labels, "ws-cut-dir:listener->dialer")
		}
		if c.Cut.K == 0 {
			labels = append(labels, "ws-cut:first-message")
		} else {
			labels = append(labels, "ws-cut:after-delivered-messages")
		}
		nframes := len(c.Plan.frames(lp.frameMax))
		if nframes > 1 {
			labels = append(labels, "multi-frame")
		}
		if c.Cut.K < nframes-1 {
			labels = append(labels, "ws-cut:more-than-one-frame-lost")
		}
		if out.allFrames && out.offset > 0 {
			labels = append(labels, "ws-cut:reader-got-every-delivered-frame")
		}
		stats.Case(name, c.fingerprint(), true, dedup(labels)...)
		if stats.WantSample(name) {
			stats.Sample(name, map[string]any{"transport": "websocket (loopback) through a cutting TCP proxy", "layer": c.Layer, "payload": c.Plan.String(), "cut": c.Cut.String(),
				"reader_got": out.rd.got, "reader_error": fmt.Sprint(out.rd.err)})
		}
	})
}
