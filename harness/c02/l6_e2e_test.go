package c02

import (
	"context"
	"fmt"
	"strings"
	"testing"
	"time"

	"github.com/libp2p/go-libp2p"
	"github.com/libp2p/go-libp2p/core/host"
	"github.com/libp2p/go-libp2p/core/network"
	"github.com/libp2p/go-libp2p/core/peer"
	"github.com/libp2p/go-libp2p/p2p/muxer/yamux"
	"github.com/libp2p/go-libp2p/p2p/security/noise"
	libp2ptls "github.com/libp2p/go-libp2p/p2p/security/tls"
	libp2pquic "github.com/libp2p/go-libp2p/p2p/transport/quic"
	"github.com/libp2p/go-libp2p/p2p/transport/tcp"
	libp2pwebrtc "github.com/libp2p/go-libp2p/p2p/transport/webrtc"
	"github.com/libp2p/go-libp2p/p2p/transport/websocket"
	webtransport "github.com/libp2p/go-libp2p/p2p/transport/webtransport"
	ma "github.com/multiformats/go-multiaddr"
	"pgregory.net/rapid"

	"verif/internal/hx"
	"verif/internal/keys"
	"verif/internal/stats"
)

// L6: real libp2p hosts over loopback sockets (thorough tier only, outside bubbles).

type e2eConfig struct {
	name   string
	listen []string // listen addresses of host B ("PORT" = the port of the first address)
	dialTo string   // suffix selecting which of B's addresses A dials
	opts   func(key uint64) []libp2p.Option
	shared bool
}

func secOpts(sec string) []libp2p.Option {
	o := []libp2p.Option{libp2p.Muxer(yamux.ID, yamux.DefaultTransport)}
	if sec == "tls" {
		return append(o, libp2p.Security(libp2ptls.ID, libp2ptls.New))
	}
	return append(o, libp2p.Security(noise.ID, noise.New))
}

var e2eConfigs = []e2eConfig{
	{name: "tcp+noise+yamux", listen: []string{"/ip4/127.0.0.1/tcp/0"}, dialTo: "",
		opts: func(uint64) []libp2p.Option { return append(secOpts("noise"), libp2p.Transport(tcp.NewTCPTransport)) }},
	{name: "tcp+tls+yamux", listen: []string{"/ip4/127.0.0.1/tcp/0"}, dialTo: "",
		opts: func(uint64) []libp2p.Option { return append(secOpts("tls"), libp2p.Transport(tcp.NewTCPTransport)) }},
	{name: "tcp+psk+noise+yamux", listen: []string{"/ip4/127.0.0.1/tcp/0"}, dialTo: "",
		opts: func(key uint64) []libp2p.Option {
			return append(secOpts("noise"), libp2p.Transport(tcp.NewTCPTransport), libp2p.PrivateNetwork(pskOf(key)))
		}},
	{name: "ws+noise+yamux", listen: []string{"/ip4/127.0.0.1/tcp/0/ws"}, dialTo: "/ws",
		opts: func(uint64) []libp2p.Option { return append(secOpts("noise"), libp2p.Transport(websocket.New)) }},
	{name: "quic", listen: []string{"/ip4/127.0.0.1/udp/0/quic-v1"}, dialTo: "/quic-v1",
		opts: func(uint64) []libp2p.Option { return []libp2p.Option{libp2p.Transport(libp2pquic.NewTransport)} }},
	{name: "webtransport", listen: []string{"/ip4/127.0.0.1/udp/0/quic-v1/webtransport"}, dialTo: "/webtransport",
		opts: func(uint64) []libp2p.Option { return []libp2p.Option{libp2p.Transport(webtransport.New)} }},
	{name: "webrtc-direct", listen: []string{"/ip4/127.0.0.1/udp/0/webrtc-direct"}, dialTo: "/webrtc-direct",
		opts: func(uint64) []libp2p.Option { return []libp2p.Option{libp2p.Transport(libp2pwebrtc.New)} }},
	{name: "shared-listener:tcp+tls", shared: true, listen: []string{"/ip4/127.0.0.1/tcp/0", "/ip4/127.0.0.1/tcp/PORT/ws"}, dialTo: "",
		opts: func(uint64) []libp2p.Option {
			return append(secOpts("tls"), libp2p.ShareTCPListener(), libp2p.Transport(tcp.NewTCPTransport), libp2p.Transport(websocket.New))
		}},
	{name: "shared-listener:tcp+noise", shared: true, listen: []string{"/ip4/127.0.0.1/tcp/0", "/ip4/127.0.0.1/tcp/PORT/ws"}, dialTo: "",
		opts: func(uint64) []libp2p.Option {
			return append(secOpts("noise"), libp2p.ShareTCPListener(), libp2p.Transport(tcp.NewTCPTransport), libp2p.Transport(websocket.New))
		}},
	{name: "shared-listener:ws+noise", shared: true, listen: []string{"/ip4/127.0.0.1/tcp/0", "/ip4/127.0.0.1/tcp/PORT/ws"}, dialTo: "/ws",
		opts: func(uint64) []libp2p.Option {
			return append(secOpts("noise"), libp2p.ShareTCPListener(), libp2p.Transport(tcp.NewTCPTransport), libp2p.Transport(websocket.New))
		}},
}

// newE2EPair builds two fresh hosts; B listens, A does not. The returned address list of
// B is restricted to the addresses the configuration wants dialled.
func newE2EPair(cfg e2eConfig, key uint64) (hosts [2]host.Host, dial []ma.Multiaddr, err error) {
	common := []libp2p.Option{
		libp2p.DisableRelay(), libp2p.ResourceManager(&network.NullResourceManager{}), libp2p.DisableMetrics(),
	}
	mk := func(id *keys.Identity, extra ...libp2p.Option) (host.Host, error) {
		o := append([]libp2p.Option{libp2p.Identity(id.Priv)}, common...)
		o = append(o, cfg.opts(key)...)
		o = append(o, extra...)
		return libp2p.New(o...)
	}
	hB, err := mk(keys.Ed(2), libp2p.ListenAddrStrings(cfg.listen[0]))
	if err != nil {
		return hosts, nil, fmt.Errorf("host B: %w", err)
	}
	port := ""
	for _, a := range hB.Network().ListenAddresses() {
		if p, err := a.ValueForProtocol(ma.P_TCP); err == nil {
			port = p
		}
	}
	for _, l := range cfg.listen[1:] {
		if err := hB.Network().Listen(ma.StringCast(strings.ReplaceAll(l, "PORT", port))); err != nil {
			hB.Close()
			return hosts, nil, fmt.Errorf("host B listen %s: %w", l, err)
		}
	}
	hA, err := mk(keys.Ed(1), libp2p.NoListenAddrs)
	if err != nil {
		hB.Close()
		return hosts, nil, fmt.Errorf("host A: %w", err)
	}
	for _, a := range hB.Network().ListenAddresses() {
		if kindOf(a) == cfg.dialTo {
			dial = append(dial, a)
		}
	}
	if len(dial) == 0 {
		hA.Close()
		hB.Close()
		return hosts, nil, fmt.Errorf("no address of kind %q among %v", cfg.dialTo, hB.Network().ListenAddresses())
	}
	return [2]host.Host{hA, hB}, dial, nil
}

// fixedAddrHost makes Connect use exactly the chosen addresses.
type fixedAddrHost struct {
	host.Host
	addrs []ma.Multiaddr
}

func (h fixedAddrHost) Addrs() []ma.Multiaddr { return h.addrs }

func TestL6Loopback(t *testing.T) {
	if !hx.Thorough() {
		t.Skip("real-socket configurations run in the thorough tier only")
	}
	skipIfLowerLayerFailed(t)
	name := t.Name()
	env := runEnv{real: true}
	baseOK := map[string]bool{} // dial kind -> a configuration without the shared listener connected
	for ci, cfg := range e2eConfigs {
		// pre-flight: is this configuration usable in this environment at all?
		hosts, dial, err := newE2EPair(cfg, 1)
		connectFailed := false
		if err == nil {
			ctx, cancel := context.WithTimeout(context.Background(), 30*time.Second)
			err = hosts[0].Connect(ctx, peer.AddrInfo{ID: hosts[1].ID(), Addrs: dial})
			connectFailed = err != nil && ctx.Err() == nil
			cancel()
			hosts[0].Close()
			hosts[1].Close()
		}
		if err != nil {
			if cfg.shared && connectFailed && baseOK[cfg.dialTo] {
				// differential: the same stack connects when the listener is not shared, and this
				// is not a timeout: the bytes replayed by the shared listener's peek did not
				// reach the upgrader intact
				t.Errorf("configuration %s: the hosts listen, the same stack without the shared TCP listener connects, but here the handshake fails: %v", cfg.name, err)
				continue
			}
			t.Logf("configuration %s is not usable here, skipped: %v", cfg.name, err)
			stats.Label(name, "config-unavailable:"+cfg.name)
			continue
		}
		if !cfg.shared {
			baseOK[cfg.dialTo] = true
		}
		t.Run(fmt.Sprintf("%d", ci), func(t *testing.T) {
			hx.Check(t, 8, 1600, 0, func(rt *rapid.T) {
				c := &hostCase{}
				c.Layer = "e2e:" + cfg.name
				c.Key = rapid.Uint64().Draw(rt, "key")
				c.Streams = drawStreams(rt, 3, 1, 0)
				for i := range c.Streams {
					c.Lazy = append(c.Lazy, rapid.IntRange(0, 2).Draw(rt, fmt.Sprintf("s%d-lazy", i)) > 0)
				}
				hosts, dial, err := newE2EPair(cfg, c.Key)
				if err != nil {
					env.stalled(rt, "creating hosts for %s: %v", cfg.name, err)
				}
				defer hosts[0].Close()
				defer hosts[1].Close()
				out := runHostStreams(rt, env, [2]host.Host{hosts[0], fixedAddrHost{hosts[1], dial}}, c)
				labels, nontrivial := streamLabels(c.Streams, out, yamuxFrame)
				labels = append(labels, "config:"+cfg.name)
				for _, cn := range hosts[0].Network().ConnsToPeer(hosts[1].ID()) {
					labels = append(labels, "transport:"+transportOf(cn.RemoteMultiaddr()))
				}
				stats.Case(name, c.fingerprint()+fmt.Sprint(c.Lazy), nontrivial, dedup(labels)...)
				if stats.WantSample(name) {
					m := c.sample()
					m["lazy"] = c.Lazy
					stats.Sample(name, m)
				}
			})
		})
	}
}

// kindOf classifies a listen address by the dialTo suffix of the configurations.
func kindOf(a ma.Multiaddr) string {
	s := a.String()
	switch {
	case strings.Contains(s, "/webtransport"):
		return "/webtransport"
	case strings.Contains(s, "/webrtc-direct"):
		return "/webrtc-direct"
	case strings.Contains(s, "/quic-v1"):
		return "/quic-v1"
	case strings.HasSuffix(s, "/ws"):
		return "/ws"
	default:
		return ""
	}
}

func transportOf(a ma.Multiaddr) string {
	s := a.String()
	switch {
	case strings.Contains(s, "/webtransport"):
		return "webtransport"
	case strings.Contains(s, "/webrtc-direct"):
		return "webrtc-direct"
	case strings.Contains(s, "/quic-v1"):
		return "quic"
	case strings.HasSuffix(s, "/ws"):
		return "ws"
	default:
		return "tcp"
	}
}
