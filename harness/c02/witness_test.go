package c02

import (
	"fmt"
	"io"
	"testing"

	"verif/internal/hx"
	"verif/internal/kf"
	"verif/internal/memnet"
)

// cutOutcome runs one fixed truncation on a Noise session over a faithful in-memory pipe:
// the writer's Writes (sizes) are accepted, the wire carries frames 0..frame-1 whole and
// then the first cut bytes of frame `frame`, then the byte stream ends (FIN). The reader
// uses io.ReadAll.
func noiseCutOutcome(t *testing.T, sizes []int, frame, cutClass int) (got []byte, sent []byte, err error, fail string) {
	fail = hx.RunBubble(t, func() {
		ma, mb := memnet.Pipe(memnet.Options{})
		defer ma.Close()
		defer mb.Close()
		ta := &tamperConn{Conn: ma, hdr: noiseParams.hdr, overhead: noiseParams.overhead, closeWrite: func() { ma.CloseWrite() },
			plan: tamperPlan{Op: tTrunc, Frame: frame, Cut: cutClass}}
		a, b, herr := noiseSetup(ta, mb)
		if herr != nil {
			panic(fmt.Sprintf("handshake: %v", herr))
		}
		defer a.Close()
		defer b.Close()
		ta.arm()
		total := 0
		for _, n := range sizes {
			total += n
		}
		sent = payload(7, 0, 0, total)
		off := 0
		for _, n := range sizes {
			if _, werr := a.Write(sent[off : off+n]); werr != nil {
				panic(fmt.Sprintf("Write: %v", werr))
			}
			off += n
		}
		ma.CloseWrite()
		got, err = io.ReadAll(b)
	})
	return
}

// Noise: the byte stream ends right after a complete 2-byte length prefix (which announces
// a frame of n > 0 bytes), before the first body byte. readNextMsgInsecure's io.ReadFull
// returns io.EOF when it read nothing at all, the session's Read passes it on, and the
// reader is told the stream ended normally although the announced frame -- bytes that Write
// had accepted -- never arrived. One byte earlier (inside the prefix) and one byte later
// (inside the body) the same session reports io.ErrUnexpectedEOF.
func TestWitness_NoiseCutAfterLengthPrefix(t *testing.T) {
	hx.Shard0(t)
	kf.Witness(t, findingNoiseAfterPrefix, func() (bool, string) {
		got, sent, err, fail := noiseCutOutcome(t, []int{100, 100}, 1, tcAfterPrefix)
		if fail != "" {
			t.Fatalf("%s", fail)
		}
		if string(got) != string(sent[:len(got)]) || len(got) > 100 {
			t.Fatalf("reader received %d bytes that are not a prefix of the first frame", len(got))
		}
		if err == nil {
			return true, fmt.Sprintf("Write accepted 100+100 bytes; the wire carried frame 0 and the 2-byte length prefix of frame 1, then FIN; io.ReadAll returned %d bytes and a nil error", len(got))
		}
		return false, ""
	})
}

// The neighbours of that cut are reported properly (regression guards, no finding).
func TestCutNextToLengthPrefix(t *testing.T) {
	hx.Shard0(t)
	for _, cl := range []int{tcPrefixOne, tcBodyOne, tcTagMissing, tcLastMissing} {
		got, _, err, fail := noiseCutOutcome(t, []int{100, 100}, 1, cl)
		if fail != "" {
			t.Fatalf("%s", fail)
		}
		if err == nil {
			t.Errorf("cut %s of frame 1: io.ReadAll returned %d bytes and a nil error although the second Write's 100 bytes were lost", tcNames[cl], len(got))
		}
	}
}
