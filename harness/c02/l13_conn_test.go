package c02

import (
	"context"
	"errors"
	"fmt"
	"io"
	"net"
	"testing"

	"github.com/libp2p/go-libp2p/core/sec"
	"github.com/libp2p/go-libp2p/p2p/net/pnet"
	"github.com/libp2p/go-libp2p/p2p/security/noise"
	libp2ptls "github.com/libp2p/go-libp2p/p2p/security/tls"
	"pgregory.net/rapid"

	"verif/internal/hx"
	"verif/internal/keys"
	"verif/internal/memnet"
	"verif/internal/stats"
)

// connCase is one generated scenario for a connection-level layer (L1-L3).
type connCase struct {
	Layer  string
	Cap    int // pipe capacity per direction, 0 = unbounded
	Chop   [2]chopPlan
	Dir    [2]dirPlan // 0: A writes, B reads; 1: B writes, A reads
	Key    uint64
	Tamper tamperPlan
	TDir   int // direction whose ciphertext is edited
}

func (c *connCase) fingerprint() string {
	return fmt.Sprintf("%s|%d|%v|%v|%v|%v|%d", c.Layer, c.Cap, c.Chop, c.Dir[0], c.Dir[1], c.Tamper, c.TDir)
}

func (c *connCase) sample() map[string]any {
	m := map[string]any{"layer": c.Layer, "pipe_capacity": c.Cap, "chop_A": fmt.Sprint(c.Chop[0]), "chop_B": fmt.Sprint(c.Chop[1]),
		"A_to_B": c.Dir[0].String(), "B_to_A": c.Dir[1].String()}
	if c.Tamper.Op != tNone {
		m["tamper"] = c.Tamper.String()
		m["tamper_dir"] = c.TDir
	}
	return m
}

type layerParams struct {
	hdr, overhead int // wire framing (tamper only)
	frameMax      int // plaintext bytes per frame (generator aim / labels)
	tagLen        int // >0 enables the Noise read-path model
	strictOther   bool
	readDeadlines bool // a Read that timed out can be resumed (see drawConnDeadlines)
}

var (
	noiseParams = layerParams{hdr: 2, overhead: 16, frameMax: noiseFrame, tagLen: 16, strictOther: true}
	tlsParams   = layerParams{hdr: 5, overhead: 17, frameMax: tlsFrame, readDeadlines: true}
	pnetParams  = layerParams{frameMax: 1 << 30}
)

type secureSetup func(rawA, rawB net.Conn) (a, b net.Conn, err error)

type connOutcome struct {
	rd      [2]readResult
	wr      [2]int
	ws      [2]writeResult
	applied bool
	offset  int
	cutClass int // truncation: where the cut fell (cutClass)
}

var capSizes = []int{0, 0, 0, 4096, 65537, 17, 1, 1 << 20} // rapid favours the front

func drawConnCase(rt *rapid.T, layer string, lp layerParams, tamper bool) *connCase {
	c := &connCase{Layer: layer}
	c.Key = rapid.Uint64().Draw(rt, "key")
	c.Chop[0], c.Chop[1] = drawChop(rt, "chopA"), drawChop(rt, "chopB")
	c.Dir[0] = drawDir(rt, "ab", 2)
	c.Dir[1] = drawDir(rt, "ba", 1)
	if !tamper {
		c.Cap = rapid.SampledFrom(capSizes).Draw(rt, "cap")
		// pausing writers, slow readers; where the layer allows it read deadlines with a reader that carries on
		if rapid.IntRange(0, 3).Draw(rt, "dl-case") == 0 {
			drawConnDeadlines(rt, "ab", &c.Dir[0], lp.readDeadlines)
			drawConnDeadlines(rt, "ba", &c.Dir[1], lp.readDeadlines)
			if (c.Dir[0].DL.R < 0 || c.Dir[1].DL.R < 0) && c.Cap > 0 && c.Cap < 4096 {
				// a polling reader is the only one who drains the pipe: every poll moves at most one
				// pipe capacity; keep the number of polls per frame small
				c.Cap = 4096
			}
		}
		return c
	}
	// tampered direction: at least one byte, so at least one frame exists
	c.TDir = rapid.IntRange(0, 1).Draw(rt, "tdir")
	d := &c.Dir[c.TDir]
	if d.Total == 0 {
		d.Total = rapid.IntRange(1, 3*lp.frameMax).Draw(rt, "ttotal")
		d.Writes = drawWrites(rt, "tw", d.Total)
	}
	c.Tamper = drawTamper(rt, len(d.frames(lp.frameMax)))
	return c
}

// runConnCase runs one scenario inside the current bubble.
func runConnCase(f failer, env runEnv, c *connCase, lp layerParams, setup secureSetup) connOutcome {
	var out connOutcome
	ma, mb := memnet.Pipe(memnet.Options{Capacity: c.Cap})
	defer ma.Close()
	defer mb.Close()
	ta := &tamperConn{Conn: newChop(ma, c.Chop[0]), hdr: lp.hdr, overhead: lp.overhead, closeWrite: func() { ma.CloseWrite() }}
	tb := &tamperConn{Conn: newChop(mb, c.Chop[1]), hdr: lp.hdr, overhead: lp.overhead, closeWrite: func() { mb.CloseWrite() }}
	tampering := c.Tamper.Op != tNone
	if tampering {
		[]*tamperConn{ta, tb}[c.TDir].plan = c.Tamper
	}
	a, b, err := setup(ta, tb)
	if err != nil {
		f.Fatalf("%s: handshake over a faithful pipe failed: %v", c.Layer, err)
	}
	defer a.Close()
	defer b.Close()
	if tampering {
		ta.arm()
		tb.arm()
	}

	data := [2][]byte{payload(c.Key, 0, 0, c.Dir[0].Total), payload(c.Key, 0, 1, c.Dir[1].Total)}
	ends := [2]net.Conn{a, b}
	sk := &sink{}
	wdone, rdone := make(chan struct{}, 2), make(chan struct{}, 2)
	tolerate := tampering && !lp.strictOther
	for d := 0; d < 2; d++ {
		w, r := ends[d], ends[1-d]
		who := fmt.Sprintf("%s dir %d", c.Layer, d)
		go func() {
			defer func() { wdone <- struct{}{} }()
			defer sk.guard(who + " writer")
			out.ws[d] = runWriter(w, c.Dir[d], data[d], sk, who+" writer", tolerate)
			out.wr[d] = out.ws[d].n
		}()
		go func() {
			defer func() { rdone <- struct{}{} }()
			defer sk.guard(who + " reader")
			out.rd[d] = runReader(r, c.Dir[d], c.Dir[d].frames(lp.frameMax), data[d], sk, who+" reader",
				readerCfg{mode: readUntilErr, frameMax: lp.frameMax, tagLen: lp.tagLen, tampered: tampering && d == c.TDir, extraRead: 4,
					setDL: r.SetReadDeadline})
		}()
	}
	if !env.waitDone(wdone, 2) {
		env.stalled(f, "%s: writers did not finish within a virtual hour (first failure so far: %q)", c.Layer, sk.get())
	}
	// no more bytes will be sent: end both byte streams underneath the secure channel
	ta.flush()
	tb.flush()
	ma.CloseWrite()
	mb.CloseWrite()
	if !env.waitDone(rdone, 2) {
		env.stalled(f, "%s: readers did not finish within a virtual hour after the pipe was half-closed (first failure so far: %q)", c.Layer, sk.get())
	}
	if msg := sk.get(); msg != "" {
		f.Fatalf("%s", msg)
	}
	if tampering {
		tc := []*tamperConn{ta, tb}[c.TDir]
		out.applied, out.offset = tc.result()
		if out.applied && c.Tamper.Op == tTrunc {
			out.cutClass, _, _ = tc.cutResult()
		}
	}
	for d := 0; d < 2; d++ {
		total := c.Dir[d].Total
		rd := out.rd[d]
		switch {
		case !out.applied || (d != c.TDir && lp.strictOther):
			if out.wr[d] != total {
				f.Fatalf("%s dir %d: Write counts sum to %d, payload is %d", c.Layer, d, out.wr[d], total)
			}
			if rd.got != total {
				f.Fatalf("%s dir %d: reader received %d of %d bytes, then %v", c.Layer, d, rd.got, total, rd.err)
			}
		case d == c.TDir:
			if rd.err == nil {
				f.Fatalf("%s dir %d: ciphertext was edited (%v) but the reader saw no error", c.Layer, d, c.Tamper)
			}
			if rd.gotAtErr > out.offset {
				f.Fatalf("%s dir %d: %v: reader had received %d bytes at the first error, but the first tampered frame starts at plaintext offset %d",
					c.Layer, d, c.Tamper, rd.gotAtErr, out.offset)
			}
			if c.Tamper.Op == tTrunc {
				checkCleanEnd(f, c, d, out.cutClass, rd, out.wr[d])
			}
		default:
			// the other direction of a channel that may shut down as a whole (TLS alert): prefix only,
			// already checked byte by byte by the reader
		}
	}
	return out
}

// findingNoiseAfterPrefix: see TestWitness_NoiseCutAfterLengthPrefix (repaired in /repo; nothing is excluded here).
const findingNoiseAfterPrefix = "C02-noise-cut-after-length-prefix-clean-eof"

// checkCleanEnd is the truncation rule: the byte stream under the session ended (FIN, no
// error underneath) inside a frame, so bytes that the writer's Write had accepted never
// reached the reader. The reader must not be told that the stream ended normally: the error
// that ends its Read sequence must not be io.EOF (io.ReadAll, io.Copy, bufio.Scanner turn
// io.EOF into "no error"). A cut exactly between two frames is the byte sequence a writer
// produces who closes after those frames: there io.EOF is as good as any other error.
func checkCleanEnd(f failer, c *connCase, d, class int, rd readResult, accepted int) {
	if class == cutAtBoundary || class == cutNothingLost {
		return
	}
	if errors.Is(rd.err, io.EOF) {
		f.Fatalf("%s dir %d: %v: the byte stream under the session ended %s (FIN); Write had accepted %d bytes, the reader received %d and then got %v: "+
			"a stream that lost bytes in transit is reported as a clean end (io.ReadAll returns a nil error)",
			c.Layer, d, c.Tamper, cutClassNames[class], accepted, rd.got, rd.err)
	}
}

func handshake(ctx context.Context, out, in sec.SecureTransport, rawA, rawB net.Conn, idB *keys.Identity) (net.Conn, net.Conn, error) {
	type res struct {
		c   sec.SecureConn
		err error
	}
	ch := make(chan res, 1)
	go func() {
		c, err := in.SecureInbound(ctx, rawB, "")
		ch <- res{c, err}
	}()
	a, errA := out.SecureOutbound(ctx, rawA, idB.ID)
	if errA != nil {
		rawA.Close()
	}
	rb := <-ch
	if errA != nil {
		return nil, nil, fmt.Errorf("outbound: %w", errA)
	}
	if rb.err != nil {
		a.Close()
		return nil, nil, fmt.Errorf("inbound: %w", rb.err)
	}
	return a, rb.c, nil
}

func noiseSetup(rawA, rawB net.Conn) (net.Conn, net.Conn, error) {
	idA, idB := keys.Ed(1), keys.Ed(2)
	ta, err := noise.New(noise.ID, idA.Priv, nil)
	if err != nil {
		return nil, nil, err
	}
	tb, err := noise.New(noise.ID, idB.Priv, nil)
	if err != nil {
		return nil, nil, err
	}
	return handshake(context.Background(), ta, tb, rawA, rawB, idB)
}

func tlsSetup(rawA, rawB net.Conn) (net.Conn, net.Conn, error) {
	// certificates carry validity times: the transports must be created on the bubble's clock
	idA, idB := keys.Ed(1), keys.Ed(2)
	ta, err := libp2ptls.New(libp2ptls.ID, idA.Priv, nil)
	if err != nil {
		return nil, nil, err
	}
	tb, err := libp2ptls.New(libp2ptls.ID, idB.Priv, nil)
	if err != nil {
		return nil, nil, err
	}
	return handshake(context.Background(), ta, tb, rawA, rawB, idB)
}

func pskOf(key uint64) []byte {
	return payload(key, 255, 255, 32)
}

func pnetSetup(key uint64) secureSetup {
	return func(rawA, rawB net.Conn) (net.Conn, net.Conn, error) {
		psk := pskOf(key)
		a, err := pnet.NewProtectedConn(psk, rawA)
		if err != nil {
			return nil, nil, err
		}
		b, err := pnet.NewProtectedConn(psk, rawB)
		return a, b, err
	}
}

// ---------------------------------------------------------------------------
// labels

func lenLabel(total, frame int) string {
	switch {
	case total == 0:
		return "len:0"
	case total <= frame:
		return "len:<=1frame"
	case total <= 2*frame:
		return "len:2frames"
	default:
		return "len:3+frames"
	}
}

func connLabels(c *connCase, lp layerParams, out connOutcome) (labels []string, nontrivial bool) {
	set := map[string]bool{}
	add := func(l string) {
		if !set[l] {
			set[l] = true
			labels = append(labels, l)
		}
	}
	for d := 0; d < 2; d++ {
		add(lenLabel(c.Dir[d].Total, lp.frameMax))
		frames := c.Dir[d].frames(lp.frameMax)
		small, pooled := simReads(c.Dir[d], frames, lp.tagLen)
		if len(frames) > 1 || small || pooled {
			nontrivial = true
		}
		if len(frames) > 1 {
			add("multi-frame")
		}
		rd := out.rd[d]
		if rd.small {
			add("read<pending")
		}
		if lp.tagLen > 0 {
			if rd.inplace > 0 {
				add("noise-path:in-place")
			}
			if rd.pooledFull > 0 {
				add("noise-path:pooled-whole-frame")
			}
			if rd.queued > 0 {
				add("noise-path:pooled-queued-remainder")
			}
			if rd.drain > 0 {
				add("noise-path:drain-queue")
			}
		}
		if rd.zeroReads > 0 {
			add("saw-Read=(0,nil)")
		}
		if len(c.Dir[d].Writes) > 1 {
			add("writes>1")
		}
		dlLabels(add, c.Dir[d], out.ws[d], rd, false)
	}
	if c.Cap > 0 {
		add("pipe:bounded")
	} else {
		add("pipe:unbounded")
	}
	if c.Chop[0].short() || c.Chop[1].short() {
		add("short-reads")
	}
	if c.Chop[0].EOFWithData || c.Chop[1].EOFWithData {
		add("eof-delivered-with-last-bytes")
	}
	if c.Tamper.Op != tNone {
		if out.applied {
			nontrivial = true
			l := "tamper:" + tamperNames[c.Tamper.Op]
			if c.Tamper.Op == tFlip {
				l += ":" + pcNames[c.Tamper.Pos]
			}
			add(l)
			if c.Tamper.Op == tTrunc {
				add("cut:" + tcNames[c.Tamper.Cut])
				add("cut-lies:" + cutClassNames[out.cutClass])
				rd := out.rd[c.TDir]
				if out.cutClass == cutAtBoundary {
					add("cut-verdict:either(indistinguishable from a close)")
				} else {
					add("cut-verdict:error-other-than-EOF-required")
				}
				if errors.Is(rd.err, io.EOF) {
					add("cut-reader-saw:io.EOF")
				} else {
					add("cut-reader-saw:other-error")
				}
				if c.Tamper.Frame > 0 && rd.got > 0 {
					add("cut:after-delivered-frames")
				}
				if c.Chop[1-c.TDir].EOFWithData {
					add("cut:EOF-reported-with-the-last-bytes-underneath")
				}
			}
			if c.Tamper.Frame > 0 {
				add("tamper:later-frame")
			} else {
				add("tamper:first-frame")
			}
			rd := out.rd[c.TDir]
			if rd.gotAtErr < out.offset {
				add("tamper:error-before-tampered-offset")
			}
			if rd.afterErrOK > 0 {
				add("tamper:correct-bytes-after-error")
			}
		} else {
			add("tamper:NOT-APPLIED")
		}
	}
	return labels, nontrivial
}

func connProperty(t *testing.T, layer string, lp layerParams, tamper bool, setupFor func(c *connCase) secureSetup) func(rt *rapid.T) {
	name := t.Name()
	return func(rt *rapid.T) {
		c := drawConnCase(rt, layer, lp, tamper)
		var out connOutcome
		hx.Bubble(t, rt, func() {
			out = runConnCase(rt, bubbleEnv, c, lp, setupFor(c))
		})
		labels, nontrivial := connLabels(c, lp, out)
		stats.Case(name, c.fingerprint(), nontrivial, labels...)
		if stats.WantSample(name) {
			stats.Sample(name, c.sample())
		}
	}
}

// ---------------------------------------------------------------------------
// L1 Noise

func TestL1NoiseFidelity(t *testing.T) {
	defer noteFailure(t)
	hx.Check(t, 4000, 100000, 0, connProperty(t, "noise", noiseParams, false, func(*connCase) secureSetup { return noiseSetup }))
}

func TestL1NoiseTamper(t *testing.T) {
	defer noteFailure(t)
	hx.Check(t, 2000, 60000, 0, connProperty(t, "noise", noiseParams, true, func(*connCase) secureSetup { return noiseSetup }))
}

// L2 TLS

func TestL2TLSFidelity(t *testing.T) {
	defer noteFailure(t)
	hx.Check(t, 1500, 45000, 0, connProperty(t, "tls", tlsParams, false, func(*connCase) secureSetup { return tlsSetup }))
}

func TestL2TLSTamper(t *testing.T) {
	defer noteFailure(t)
	hx.Check(t, 1000, 30000, 0, connProperty(t, "tls", tlsParams, true, func(*connCase) secureSetup { return tlsSetup }))
}

// L3 private-network conn (confidentiality only: fidelity part of the property)

func TestL3PnetFidelity(t *testing.T) {
	defer noteFailure(t)
	hx.Check(t, 1200, 36000, 0, connProperty(t, "pnet", pnetParams, false, func(c *connCase) secureSetup { return pnetSetup(c.Key) }))
}
