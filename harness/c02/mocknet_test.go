package c02

import (
	"fmt"
	"testing"
	"time"

	"github.com/libp2p/go-libp2p/core/host"
	mocknet "github.com/libp2p/go-libp2p/p2p/net/mock"
	ma "github.com/multiformats/go-multiaddr"
	"pgregory.net/rapid"

	"verif/internal/hx"
	"verif/internal/keys"
	"verif/internal/stats"
)

// TRANSPORT DIMENSION: the mock network (p2p/net/mock). A node (BasicHost) can be
// configured on a mocknet peer network instead of a swarm; its streams carry the same
// byte-stream contract ("bytes written to a multiplexed stream reach the remote reader
// exactly once, in order and unmodified, for every sequence of write sizes and read-buffer
// sizes ... half-close followed by further reads"). A mocknet link has a latency; a stream
// collects Writes in a coalescing buffer (256 bytes) and hands them over when the latency
// has passed or the buffer is full. The generator therefore adds: the link latency
// (0 and > 0, virtual time), Write sizes around the 256-byte threshold (small Writes that
// stay in the buffer followed by one that fills it), and writers that pause for less / more
// than the latency between their calls.

// mockBuf is the size of the mock stream's coalescing buffer (generator aim and labels only).
const mockBuf = 256

var mockLatencies = []time.Duration{10 * time.Millisecond, 0, time.Millisecond, 100 * time.Millisecond, 2 * time.Second}

var mockWriteSizes = []int{10, 1, 100, 255, 256, 257, 300, 0, 2, 16, 56, 127, 128, 129, 200, 246, 254, 512, 1000, 4096, 70000}

type mockCase struct {
	hostCase
	Latency time.Duration
}

// drawMockWrites replaces the direction's payload by a sequence of Write sizes drawn around
// the coalescing threshold (constructive: the total is the sum).
func drawMockWrites(rt *rapid.T, label string, d *dirPlan) {
	n := rapid.IntRange(1, 12).Draw(rt, label+"-mock-nwrites")
	d.Writes, d.Total = nil, 0
	for i := 0; i < n; i++ {
		w := rapid.SampledFrom(mockWriteSizes).Draw(rt, label+"-mock-w")
		d.Writes = append(d.Writes, w)
		d.Total += w
	}
}

// fillsAfterSmall: some Write brings the bytes written since the last buffer-filling Write
// from below the threshold to the threshold or above (the plan's view: all Writes of one
// direction inside one latency window).
func fillsAfterSmall(d dirPlan) (fills, allSmall bool) {
	buffered := 0
	for _, w := range d.Writes {
		if buffered > 0 && buffered < mockBuf && buffered+w >= mockBuf {
			fills = true
		}
		if buffered+w >= mockBuf {
			buffered = 0
		} else {
			buffered += w
		}
	}
	return fills, d.Total > 0 && d.Total < mockBuf
}

func mockLabels(c *mockCase) (labels []string, nontrivial bool) {
	if c.Latency > 0 {
		labels = append(labels, "mocknet:latency>0", fmt.Sprintf("mocknet:latency=%v", c.Latency))
	} else {
		labels = append(labels, "mocknet:latency=0")
	}
	for _, sp := range c.Streams {
		for _, d := range [2]dirPlan{sp.Fwd, sp.Rev} {
			fills, allSmall := fillsAfterSmall(d)
			if fills {
				labels = append(labels, "mocknet:small-writes-then-buffer-filling-write")
				if c.Latency > 0 {
					nontrivial = true
					labels = append(labels, "mocknet:small-then-filling-write,latency>0")
					if d.DL.WGap > c.Latency {
						labels = append(labels, "mocknet:writer-pauses-longer-than-latency")
					} else if d.DL.WGap > 0 {
						labels = append(labels, "mocknet:writer-pauses-within-latency")
					}
				}
			}
			if allSmall {
				labels = append(labels, "mocknet:whole-payload-below-buffer")
			}
			if len(d.Writes) > 0 && d.Writes[0] >= mockBuf {
				labels = append(labels, "mocknet:first-write>=buffer")
			}
		}
	}
	return labels, nontrivial
}

// TestL4MocknetStreams: two BasicHosts on a mock network, one link with the drawn latency;
// streams through Host.NewStream / SetStreamHandler (eager or lazy protocol negotiation on
// the mock stream itself, so the negotiation bytes sit in the coalescing buffer in front of
// the payload), both directions concurrently, half-close at the end of each direction.
// Oracle: the one of every stream layer (runStreams).
func TestL4MocknetStreams(t *testing.T) {
	name := t.Name()
	hx.Check(t, 400, 12000, 0, func(rt *rapid.T) {
		c := &mockCase{}
		c.Layer = "mocknet"
		c.Key = rapid.Uint64().Draw(rt, "key")
		c.Latency = rapid.SampledFrom(mockLatencies).Draw(rt, "latency")
		// mock streams ignore deadlines (documented no-ops): no deadline classes
		c.Streams = drawStreams(rt, 3, 1, 0)
		for i := range c.Streams {
			for k, d := range []*dirPlan{&c.Streams[i].Fwd, &c.Streams[i].Rev} {
				l := fmt.Sprintf("s%d%c", i, "fr"[k])
				if rapid.IntRange(0, 2).Draw(rt, l+"-mock-sizes") > 0 {
					drawMockWrites(rt, l, d)
				}
				if rapid.IntRange(0, 2).Draw(rt, l+"-pacing") == 0 {
					drawConnDeadlines(rt, l, d, false)
				}
			}
			c.Lazy = append(c.Lazy, rapid.IntRange(0, 2).Draw(rt, fmt.Sprintf("s%d-lazy", i)) > 0)
			c.Sync = append(c.Sync, rapid.IntRange(0, 2).Draw(rt, fmt.Sprintf("s%d-sync-handler", i)) > 0)
		}
		c.NegTimeout = -1 // what mocknet configures its hosts with
		var out streamsOutcome
		hx.Bubble(t, rt, func() {
			mn := mocknet.New()
			defer mn.Close()
			mn.SetLinkDefaults(mocknet.LinkOptions{Latency: c.Latency})
			hA, err := mn.AddPeer(keys.Ed(1).Priv, ma.StringCast("/ip4/10.0.0.1/tcp/4001"))
			if err != nil {
				rt.Fatalf("mocknet peer A: %v", err)
			}
			hB, err := mn.AddPeer(keys.Ed(2).Priv, ma.StringCast("/ip4/10.0.0.2/tcp/4001"))
			if err != nil {
				rt.Fatalf("mocknet peer B: %v", err)
			}
			if _, err := mn.LinkPeers(hA.ID(), hB.ID()); err != nil {
				rt.Fatalf("mocknet link: %v", err)
			}
			out = runHostStreams(rt, bubbleEnv, [2]host.Host{hA, hB}, &c.hostCase)
		})
		labels, nontrivial := streamLabels(c.Streams, out, yamuxFrame)
		labels = append(labels, hostLabels(&c.hostCase)...)
		ml, mnt := mockLabels(c)
		labels = append(labels, ml...)
		stats.Case(name, c.fingerprint()+fmt.Sprint(c.Lazy, c.Sync, c.Latency), nontrivial || mnt, dedup(labels)...)
		if stats.WantSample(name) {
			m := c.sample()
			m["lazy"], m["handler_keeps_stream"], m["link_latency"] = c.Lazy, c.Sync, c.Latency.String()
			stats.Sample(name, m)
		}
	})
}
