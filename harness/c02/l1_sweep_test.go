package c02

import (
	"fmt"
	"io"
	"testing"
	"testing/synctest"

	"verif/internal/hx"
	"verif/internal/memnet"
	"verif/internal/stats"
)

// TestL1NoiseReadSweep enumerates, for every pair of consecutive frame sizes (P1, P2)
// from a grid, every triple of read-buffer sizes taken from a grid of sizes relative to
// the pending frame (remaining plaintext of the current frame, or the next frame at a
// boundary) -- the relation that selects between the in-place, pooled and queued-remainder
// paths of the Noise reader -- followed by fixed-size reads until both frames are consumed.
// All triples of one (P1, P2) pair run on ONE session, one after the other, so the state a
// triple leaves behind (an exhausted but not yet released queue) is the start state of
// the next. Oracle: the bytes read equal the bytes written, position by position.
func TestL1NoiseReadSweep(t *testing.T) {
	defer noteFailure(t)
	name := t.Name()
	small := hx.Pick([]int{1, 2, 17, 40}, []int{1, 2, 3, 15, 16, 17, 18, 33, 100})
	type pair struct{ p1, p2 int }
	var pairs []pair
	for _, a := range small {
		for _, b := range small {
			pairs = append(pairs, pair{a, b})
		}
	}
	for _, big := range hx.Pick([]int{noiseFrame}, []int{noiseFrame, noiseFrame - 1}) {
		pairs = append(pairs, pair{big, 1}, pair{1, big}, pair{big, big}, pair{big, 17})
	}
	deltas := []int{-17, -16, -15, -2, -1, 0, 1, 2, 15, 16, 17, 18}
	abs := []int{1, 2, 16}
	nspec := len(deltas) + len(abs)
	resolve := func(spec, pending int) int {
		if spec < len(deltas) {
			return max(1, pending+deltas[spec])
		}
		return abs[spec-len(deltas)]
	}
	for pi, pr := range pairs {
		if !hx.Mine(pi) {
			continue
		}
		synctest.Test(t, func(t *testing.T) {
			ma, mb := memnet.Pipe(memnet.Options{})
			defer ma.Close()
			defer mb.Close()
			a, b, err := noiseSetup(ma, mb)
			if err != nil {
				t.Fatalf("handshake: %v", err)
			}
			defer a.Close()
			defer b.Close()
			arena := make([]byte, 2*noiseFrame+64)
			combo := 0
			for s1 := 0; s1 < nspec; s1++ {
				for s2 := 0; s2 < nspec; s2++ {
					for s3 := 0; s3 < nspec; s3++ {
						combo++
						frames := []int{pr.p1, pr.p2}
						data := payload(uint64(pi)<<32|uint64(combo), 0, 0, pr.p1+pr.p2)
						if n, err := a.Write(data[:pr.p1]); n != pr.p1 || err != nil {
							t.Fatalf("P=(%d,%d) combo %d: Write = %d, %v", pr.p1, pr.p2, combo, n, err)
						}
						if n, err := a.Write(data[pr.p1:]); n != pr.p2 || err != nil {
							t.Fatalf("P=(%d,%d) combo %d: Write = %d, %v", pr.p1, pr.p2, combo, n, err)
						}
						got, fi, fo, zero := 0, 0, 0, 0
						var trace []int
						for step := 0; got < len(data); step++ {
							L := 7
							if pr.p1+pr.p2 > 1000 {
								L = 70000
							}
							if step < 3 {
								L = resolve([]int{s1, s2, s3}[step], frames[fi]-fo)
							}
							trace = append(trace, L)
							n, err := guardedRead(b, arena[:L:L])
							if err != nil || n < 0 || n > L || got+n > len(data) {
								t.Fatalf("P=(%d,%d) buffers %v: Read = %d, %v at offset %d of %d", pr.p1, pr.p2, trace, n, err, got, len(data))
							}
							if string(arena[:n]) != string(data[got:got+n]) {
								t.Fatalf("P=(%d,%d) buffers %v: Read returned wrong bytes at offset %d: got %x want %x", pr.p1, pr.p2, trace, got, arena[:min(n, 16)], data[got:got+min(n, 16)])
							}
							if n == 0 {
								if zero++; zero > 8 {
									t.Fatalf("P=(%d,%d) buffers %v: Read keeps returning (0, nil) at offset %d", pr.p1, pr.p2, trace, got)
								}
								step-- // a read that returned nothing does not consume a spec
								trace = trace[:len(trace)-1]
								continue
							}
							got += n
							fo += n
							for fi < len(frames) && fo >= frames[fi] {
								fo -= frames[fi]
								fi++
							}
						}
						if mb.Pending() != 0 {
							t.Fatalf("P=(%d,%d) buffers %v: all %d bytes read but %d ciphertext bytes are still unread", pr.p1, pr.p2, trace, got, mb.Pending())
						}
						lbl := "frames:small"
						if pr.p1+pr.p2 > 1000 {
							lbl = "frames:max-size"
						}
						stats.CaseEnumerated(name, true, lbl)
					}
				}
			}
			if stats.WantSample(name) {
				stats.Sample(name, map[string]any{"frame_sizes": fmt.Sprint(pr), "buffer_triples": combo, "grid": fmt.Sprintf("pending+%v and %v", deltas, abs)})
			}
		})
	}
	stats.Exhaustive(name)
}

// guardedRead turns a panic inside Read (e.g. slicing beyond the caller's buffer) into
// an error so that the failing combination is reported.
func guardedRead(r io.Reader, p []byte) (n int, err error) {
	defer func() {
		if x := recover(); x != nil {
			n, err = 0, fmt.Errorf("Read panicked: %v", x)
		}
	}()
	return r.Read(p)
}
