package c02

import (
	"testing"
	"testing/synctest"
)

// FuzzNoiseRW decodes raw bytes into one Noise-session scenario (payload length, split
// into writes, read-buffer sizes, chunk pattern of the pipe underneath, for both
// directions) and runs it through the same oracle as TestL1NoiseFidelity.

type cursor struct {
	b []byte
	i int
}

func (c *cursor) u8() int {
	if c.i >= len(c.b) {
		return 0
	}
	v := c.b[c.i]
	c.i++
	return int(v)
}

func (c *cursor) u16() int { return c.u8()<<8 | c.u8() }
func (c *cursor) u24() int { return c.u8()<<16 | c.u8()<<8 | c.u8() }

func (c *cursor) dir(maxTotal int) dirPlan {
	var p dirPlan
	switch k := c.u8(); {
	case k < 96:
		p.Total = boundaryTotalsBig[k%len(boundaryTotalsBig)] + c.u8()%5 - 2
	case k < 160:
		p.Total = c.u8()
	default:
		p.Total = c.u24()
	}
	p.Total = max(0, p.Total) % (maxTotal + 1)
	rest := p.Total
	for n := c.u8() % 8; n > 0 && rest > 0; n-- {
		var w int
		switch k := c.u8(); {
		case k < 100:
			w = boundaryChunks[k%len(boundaryChunks)]
		case k < 180:
			w = c.u8() % 40
		default:
			w = c.u24()
		}
		w = min(w, rest)
		p.Writes = append(p.Writes, w)
		rest -= w
	}
	if rest > 0 || len(p.Writes) == 0 {
		p.Writes = append(p.Writes, rest)
	}
	for n := 1 + c.u8()%8; n > 0; n-- {
		switch k := c.u8(); {
		case k < 90:
			p.Reads = append(p.Reads, readSpec{specAbs, absReads[k%len(absReads)]})
		case k < 200:
			p.Reads = append(p.Reads, readSpec{specRel, relReads[k%len(relReads)]})
		case k < 215:
			p.Reads = append(p.Reads, readSpec{specHalf, 0})
		default:
			p.Reads = append(p.Reads, readSpec{specAbs, 1 + c.u24()%200000})
		}
	}
	p.Tail = tailReads[c.u8()%len(tailReads)]
	return p
}

func (c *cursor) chop() chopPlan {
	var p chopPlan
	for n := 1 + c.u8()%4; n > 0; n-- {
		p.R = append(p.R, chopSizes[c.u8()%len(chopSizes)])
	}
	for n := 1 + c.u8()%3; n > 0; n-- {
		p.W = append(p.W, chopSizes[c.u8()%len(chopSizes)])
	}
	return p
}

func decodeNoiseCase(data []byte) *connCase {
	cur := &cursor{b: data}
	c := &connCase{Layer: "noise"}
	c.Dir[0] = cur.dir(3*noiseFrame + 100)
	c.Dir[1] = cur.dir(70000)
	c.Chop[0], c.Chop[1] = cur.chop(), cur.chop()
	c.Cap = capSizes[cur.u8()%len(capSizes)]
	for i := 0; i < 8; i++ {
		c.Key = c.Key<<8 | uint64(cur.u8())
	}
	return c
}

func FuzzNoiseRW(f *testing.F) {
	f.Add([]byte{})
	f.Add([]byte{0, 2, 1, 0, 3, 120, 0, 95, 1, 100, 5, 2, 1, 3, 1, 3, 0, 0, 0, 0, 1, 2, 3, 4, 5, 6, 7, 8})
	f.Add([]byte{3, 3, 2, 0, 1, 2, 91, 100, 0, 130, 7, 1, 110, 0, 1, 4, 1, 4, 1, 0, 1, 0, 4, 9, 9, 9, 9, 9, 9, 9, 9})
	f.Add([]byte{200, 2, 255, 255, 1, 0, 2, 95, 96, 1, 8, 200, 1, 1, 0, 0, 0, 0, 0, 0, 0, 0, 1})
	f.Add([]byte{8, 2, 3, 0, 1, 200, 1, 0, 0, 4, 92, 93, 94, 97, 0, 170, 33, 1, 0, 0, 3, 3, 3, 3, 3, 3, 3, 3, 2})
	f.Fuzz(func(t *testing.T, data []byte) {
		c := decodeNoiseCase(data)
		synctest.Test(t, func(t *testing.T) {
			runConnCase(t, bubbleEnv, c, noiseParams, noiseSetup)
		})
	})
}
